import sys, types
sh = types.ModuleType('shapely'); geo = types.ModuleType('shapely.geometry'); geo.Polygon = object
sys.modules['shapely']=sh; sys.modules['shapely.geometry']=geo
import numpy as np
from AEIC.gridding.grid import Gridder
g = Gridder(grid_latitudes=np.deg2rad(np.arange(-90,91,10.)), grid_longitudes=np.deg2rad(np.arange(-180,181,10.)))
def run(lats, lons, iv):
    out = g.grid_trajectory(np.deg2rad(np.array(lats,float)), np.deg2rad(np.array(lons,float)), integrated_variables=(np.array(iv,float),))
    print("lats", lats, "lons", lons, "iv", iv, "-> sum", out[5][0].sum(), "pieces", out[5][0], "cells", np.rad2deg(out[0]), np.rad2deg(out[1]))
run([5,5,15],[5,5,25],[7.0, 3.0])       # zero-length first segment with nonzero integrated var
run([5,15],[5,25],[3.0])
run([5,5],[175,-175],[4.0])  # dateline
run([5, 25],[10, 10],[4.0])  # along a meridian exactly on grid line
run([10, 10],[5, 25],[4.0])  # along a parallel on grid line
run([5, 15],[5, 15],[4.0])  # through a corner
