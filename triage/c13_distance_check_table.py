import os, csv
from pathlib import Path
TEST_DATA_DIR = Path('/repo/tests/data').resolve()
os.environ['AEIC_PATH'] = str(TEST_DATA_DIR)
from AEIC.config import Config
Config.load(data_path_overrides=[TEST_DATA_DIR])
from AEIC.missions.oag import CSVEntry
from AEIC.utils import GEOD
from AEIC.utils.airports import airport
rows = list(csv.DictReader(open(TEST_DATA_DIR/'oag/2019-extract.csv')))
for i, r in enumerate(rows):
    e = CSVEntry.from_csv_row(r, i+2)
    if e is None: continue
    a, b = airport(e.depapt), airport(e.arrapt)
    if a is None or b is None: print(e.line, e.depapt, e.arrapt, "unknown airport"); continue
    sw = GEOD.inv(a.latitude, a.longitude, b.latitude, b.longitude)[2]/1000
    ok = GEOD.inv(a.longitude, a.latitude, b.longitude, b.latitude)[2]/1000
    print(e.line, e.depapt, e.arrapt, "given", round(e.distance*1.609344,1), "swapped", round(sw,1), "correct", round(ok,1))
