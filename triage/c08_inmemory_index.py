import numpy as np, tempfile, os
from AEIC.trajectories.store import TrajectoryStore
from AEIC.trajectories.trajectory import Trajectory
def mk(n, fid):
    t = Trajectory(npoints=n)
    for name in t._data_dictionary if hasattr(t,'_data_dictionary') else []:
        pass
    return t
ts = TrajectoryStore.create()
import inspect
t = Trajectory(npoints=3)
# fill required fields
from AEIC.storage.field_sets import FieldSet
for name, f in FieldSet.from_registry('base').items():
    try:
        from AEIC.storage.dimensions import Dimension
        if Dimension.POINT in f.dimensions:
            setattr(t, name, np.arange(3).astype(f.field_type))
        elif f.required:
            setattr(t, name, f.field_type(1) if f.field_type is not str else 'x')
    except Exception as e:
        print('set', name, e)
t.flight_id = 42
i = ts.add(t)
print('added', i, 'indexable', ts.indexable, 'stale', ts.index_stale)
try:
    print('get_flight', ts.get_flight(42))
except Exception as e:
    print('get_flight raised', type(e).__name__, e)
try:
    ts.sync(); print('sync ok')
except Exception as e:
    print('sync raised', type(e).__name__, e)
try:
    ts.close(); print('close ok')
except Exception as e:
    print('close raised', type(e).__name__, e)
# second scenario: in-memory, lookups, save, reopen
import tempfile
ts = TrajectoryStore.create()
ids=[30,10,20]
for k,fid in enumerate(ids):
    t = Trajectory(npoints=3)
    for name, f in FieldSet.from_registry('base').items():
        if Dimension.POINT in f.dimensions:
            setattr(t, name, (np.arange(3)+k).astype(f.field_type))
        elif f.required:
            setattr(t, name, f.field_type(1) if f.field_type is not str else 'x')
    t.flight_id = fid
    ts.add(t)
print([ts.get_flight(f).flight_id for f in ids], ts.get_flight(99))
ts.sync()
d=tempfile.mkdtemp()
ts.save(d+'/s.nc')
print('after save', [ts.get_flight(f).flight_id for f in ids], ts.get_flight(99))
ts.close()
with TrajectoryStore.open(base_file=d+'/s.nc') as r:
    print('reopened', len(r), [int(r.get_flight(f).flight_id) for f in ids], r.get_flight(99), [int(r[i].flight_id) for i in range(3)])
