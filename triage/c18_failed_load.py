import os, sys, traceback
from pathlib import Path
TEST_DATA_DIR = Path('/repo/tests/data').resolve()
os.environ['AEIC_PATH'] = str(TEST_DATA_DIR)
from AEIC.config import Config, config

print("=== D1: C18 failed load leaves config set ===")
try:
    Config.load(performance_model='nonexistent/pm.toml', data_path_overrides=[TEST_DATA_DIR])
except Exception as e:
    print("load1 failed as expected:", type(e).__name__, str(e)[:100])
try:
    Config.load(data_path_overrides=[TEST_DATA_DIR])
    print("load2 OK -> property holds")
except Exception as e:
    print("load2 FAILED:", type(e).__name__, e)
Config.reset()
# invalid value kind
try:
    Config.load(emissions={'nox_method':'bogus'}, data_path_overrides=[TEST_DATA_DIR])
except Exception as e:
    print("invalid-value load failed:", type(e).__name__)
try:
    Config.load(data_path_overrides=[TEST_DATA_DIR]); print("load after invalid value OK")
except Exception as e:
    print("load after invalid FAILED:", e)
Config.reset()
