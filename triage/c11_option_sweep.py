import os, sys, traceback, tomllib, itertools, collections
from pathlib import Path
import numpy as np
sys.path.insert(0, '/repo/tests')
TEST_DATA_DIR = Path('/repo/tests/data').resolve()
os.environ['AEIC_PATH'] = str(TEST_DATA_DIR)
from AEIC.config import Config, config
from AEIC.types import Fuel, Species
import importlib.util
spec = importlib.util.spec_from_file_location('te', '/repo/tests/test_emissions.py')
# avoid pytest import side effects? it's fine
te = importlib.util.module_from_spec(spec); spec.loader.exec_module(te)
from AEIC.emissions import compute_emissions
opts = dict(
 climb_descent_mode=['trajectory','lto'], co2_enabled=[True,False], h2o_enabled=[True], sox_enabled=[True,False],
 nox_method=['bffm2','p3t3','none'], hc_method=['bffm2','none'], co_method=['bffm2','none'],
 pmvol_method=['fuel_flow','foa3','none'], pmnvol_method=['meem','scope11','foa3','none'],
 apu_enabled=[True,False], gse_enabled=[True], lifecycle_enabled=[True,False])
keys = list(opts)
outcomes = collections.Counter(); examples = {}
for combo in itertools.product(*[opts[k] for k in keys]):
    em = dict(zip(keys, combo))
    Config.reset()
    Config.load(emissions=em, data_path_overrides=[TEST_DATA_DIR])
    fuel = Fuel.model_validate(tomllib.load(open(config.emissions.fuel_file,'rb')))
    try:
        e = compute_emissions(te.DummyPerformanceModel(), fuel, te.DummyTrajectory())
        # quick checks
        bad=[]
        for sp in Species:
            if sp not in config.emissions.enabled_species:
                if sp in e.trajectory_emissions and np.any(e.trajectory_emissions[sp]!=0): bad.append(('traj',sp.name))
                if sp in e.lto_emissions and e.lto_emissions[sp].sum()!=0: bad.append(('lto',sp.name))
        k = 'ok' if not bad else 'disabled-nonzero:'+str(sorted(set(bad)))
    except Exception as ex:
        k = type(ex).__name__ + ': ' + str(ex)[:60]
    outcomes[k]+=1
    examples.setdefault(k, em)
for k,v in outcomes.most_common(): print(v, k, '\n     e.g.', {a:b for a,b in examples[k].items()})
