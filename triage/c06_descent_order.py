import pandas as pd, numpy as np
from AEIC.performance.models.legacy import Interpolator
# descent sub-table (one mass) with rows NOT in ascending FL order
df = pd.DataFrame({'fl':[300.,100.,200.], 'mass':[60000.]*3, 'tas':[230.,150.,200.], 'rocd':[-10.,-5.,-8.], 'fuel_flow':[0.3,0.1,0.2]})
it = Interpolator(df)
p = it(100., 60000.)
print('at FL100 expected tas 150 got', p.true_airspeed)
assert abs(p.true_airspeed-150.)<1e-9, 'tabulated value not reproduced'
