import os, sys, traceback, tomllib, tempfile
from pathlib import Path
import numpy as np
TEST_DATA_DIR = Path('/repo/tests/data').resolve()
os.environ['AEIC_PATH'] = str(TEST_DATA_DIR)
from AEIC.config import Config, config
Config.load(data_path_overrides=[TEST_DATA_DIR])
from AEIC.trajectories import TrajectoryStore, Trajectory
from AEIC.storage import FieldSet, FieldMetadata, Dimensions, Dimension
from AEIC.types import Species, SpeciesValues
from AEIC.performance.types import ThrustModeValues, ThrustMode

def mk(n, seed, fid=None):
    t = Trajectory(npoints=n, name=f't{seed}')
    for f in ['fuel_flow','aircraft_mass','fuel_mass','ground_distance','altitude','flight_level','rate_of_climb','flight_time','latitude','longitude','azimuth','heading','true_airspeed','ground_speed']:
        setattr(t, f, np.arange(n, dtype=float) + seed*1000)
    t.starting_mass = float(seed); t.total_fuel_mass = 1.0
    t.n_climb=1; t.n_cruise=1; t.n_descent=1
    if fid is not None: t.flight_id = fid
    return t

tmp = Path(tempfile.mkdtemp())
print("=== D10: C07 append-session read of old items ===")
f = tmp/'a.nc'
with TrajectoryStore.create(base_file=f) as ts:
    for i in range(3): ts.add(mk(4, i))
with TrajectoryStore.append(base_file=f) as ts:
    for i in range(3,5): ts.add(mk(4, i))
    print("len", len(ts))
    for i in range(5):
        try:
            print(" idx", i, "-> starting_mass", ts[i].starting_mass)
        except Exception as e:
            print(" idx", i, "EXC", type(e).__name__, e)
with TrajectoryStore.open(base_file=f) as ts:
    print("reopen:", [float(ts[i].starting_mass) for i in range(len(ts))])

print("=== D8/D9: C03 species subsets with gaps ===")
fs = FieldSet('spx', a=FieldMetadata(dimensions=Dimensions.from_abbrev('TS'), description='a', units='g'),
              b=FieldMetadata(dimensions=Dimensions.from_abbrev('TSP'), description='b', units='g'))
class D:
    FIELD_SETS=[fs]
    def __init__(self, a, b): self.a=a; self.b=b
f2 = tmp/'b.nc'
try:
    with TrajectoryStore.create(base_file=f2) as ts:
        t = mk(3, 7)
        t.add_fields(D(SpeciesValues({Species.H2O: 1.5, Species.NOx: 2.5}), SpeciesValues({Species.NOx: np.array([1.,2.,3.])})))
        ts.add(t)
    with TrajectoryStore.open(base_file=f2) as ts:
        r = ts[0]
        print("a:", {k.name: v for k,v in r.a.items()})
        print("b:", {k.name: v for k,v in r.b.items()})
except Exception as e:
    traceback.print_exc()

print("=== D11: C10 rejected add leaves store unchanged? ===")
f3 = tmp/'c.nc'
ts = TrajectoryStore.create(base_file=f3)
ts.add(mk(3,0)); 
bad = mk(3,1); bad._data['starting_mass'] = None
try:
    ts.add(bad)
except Exception as e:
    print("bad add raised", type(e).__name__, e)
print("len after failed add:", len(ts), "next_index", ts._next_index)
i = ts.add(mk(3,2)); print("next add index", i, "len", len(ts))
ts.close()
with TrajectoryStore.open(base_file=f3) as t2:
    print("reopen len", len(t2))
    for i in range(len(t2)):
        try: print(" ", i, t2[i].starting_mass)
        except Exception as e: print(" ", i, "EXC", type(e).__name__, e)
