import numpy as np, tempfile
from AEIC.trajectories.store import TrajectoryStore
from AEIC.trajectories.trajectory import Trajectory
from AEIC.storage.field_sets import FieldSet
from AEIC.storage.dimensions import Dimension
def mk(n):
    t = Trajectory(npoints=n)
    for name, f in FieldSet.from_registry('base').items():
        if Dimension.POINT in f.dimensions:
            setattr(t, name, np.arange(n).astype(f.field_type))
        elif f.required:
            setattr(t, name, f.field_type(1) if f.field_type is not str else 'x')
    return t
d=tempfile.mkdtemp()
with TrajectoryStore.create(base_file=d+'/s.nc') as ts:
    print(ts.add(mk(3)), ts.add(mk(0)), ts.add(mk(2)), len(ts))
with TrajectoryStore.open(base_file=d+'/s.nc') as r:
    print(len(r))
    for i in range(3):
        try:
            print(i, len(r[i]))
        except Exception as e:
            print(i, 'raised', type(e).__name__, e)
