import os, sys, traceback, tomllib, tempfile
from pathlib import Path
from datetime import date
import numpy as np
TEST_DATA_DIR = Path('/repo/tests/data').resolve()
os.environ['AEIC_PATH'] = str(TEST_DATA_DIR)
from AEIC.config import Config, config
Config.load(data_path_overrides=[TEST_DATA_DIR])
tmp = Path(tempfile.mkdtemp())
print("=== D12/D13: query ===")
from AEIC.missions import Database, Filter, Query, CountQuery, FrequentFlightQuery
q = Query(filter=Filter(country='US'), start_date=date(2019,1,1))
s1 = q.to_sql(); s2 = q.to_sql()
print("to_sql idempotent?", s1 == s2); print(s2[0][-200:], s2[1])
try:
    print(Filter().to_sql())
except Exception as e:
    print("empty filter EXC:", type(e).__name__, e)
db = Database(str(TEST_DATA_DIR/'missions/oag-2019-test-subset.sqlite'))
cq = CountQuery(filter=Filter(min_distance=100))
print("count1", db(cq), "count2", db(cq))
try:
    print("count with empty filter", db(CountQuery(filter=Filter())))
except Exception as e:
    print("empty filter count EXC:", type(e).__name__, e)

print("=== D4: _distance_check swapped ===")
from AEIC.utils import GEOD
from AEIC.utils.airports import airport
a, b = airport('BOS'), airport('LAX')
print("swapped:", GEOD.inv(a.latitude, a.longitude, b.latitude, b.longitude)[2]/1000, "correct:", GEOD.inv(a.longitude, a.latitude, b.longitude, b.latitude)[2]/1000)
a, b = airport('JFK'), airport('BOS')
print("swapped:", GEOD.inv(a.latitude, a.longitude, b.latitude, b.longitude)[2]/1000, "correct:", GEOD.inv(a.longitude, a.latitude, b.longitude, b.latitude)[2]/1000)

print("=== D5: open-ended dates ===")
import csv
from AEIC.missions.oag import CSVEntry, OAGDatabase
rows = list(csv.DictReader(open(TEST_DATA_DIR/'oag/2019-extract.csv')))
print("n rows", len(rows), "efffrom values", sorted(set(r['efffrom'] for r in rows))[:5], "effto", sorted(set(r['effto'] for r in rows))[-3:])
r = dict(rows[0]); r['effto'] = '99999999'
e = CSVEntry.from_csv_row(r, 2)
print("entry effto", e.effto, e.depapt, e.arrapt, e.distance)
odb = OAGDatabase(str(tmp/'o.sqlite'), 2019)
try:
    print("add ->", odb.add(e)); print("warnings:", {k:str(v) for k,v in odb.warnings.items()})
except Exception as ex:
    print("add EXC:", type(ex).__name__, ex)
# how many of the 29 rows are accepted / rejected for distance
acc=0
odb2 = OAGDatabase(str(tmp/'o2.sqlite'), 2019)
for i,r in enumerate(rows):
    e = CSVEntry.from_csv_row(r, i+2)
    if e is None: continue
    ok = odb2.add(e)
    acc += ok
print("accepted", acc, "warnings", {k:str(v) for k,v in odb2.warnings.items()})
