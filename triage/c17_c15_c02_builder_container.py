import os, sys, traceback, tomllib
from pathlib import Path
import numpy as np
TEST_DATA_DIR = Path('/repo/tests/data').resolve()
os.environ['AEIC_PATH'] = str(TEST_DATA_DIR)
from AEIC.config import Config, config
Config.load(data_path_overrides=[TEST_DATA_DIR])
import AEIC.trajectories.builders as tb
from AEIC.missions import Mission
from AEIC.missions.mission import iso_to_timestamp
from AEIC.performance.models import PerformanceModel
from AEIC.utils import GEOD
pm = PerformanceModel.load(config.file_location('performance/sample_performance_model.toml'))
print("=== D2: C17 unknown airport error surfaces? ===")
b = tb.LegacyBuilder(options=tb.Options(iterate_mass=False))
m_bad = Mission(origin='ZZZ', destination='LAX', departure=iso_to_timestamp('2024-09-01T12:00:00'),
    arrival=iso_to_timestamp('2024-09-01T18:00:00'), aircraft_type='738', load_factor=1.0)
try:
    b.fly(pm, m_bad)
except Exception as e:
    print("exception type:", type(e).__name__, "|", e, "| context:", type(e.__context__).__name__, e.__context__)
m = Mission(origin='BOS', destination='LAX', departure=iso_to_timestamp('2024-09-01T12:00:00'),
    arrival=iso_to_timestamp('2024-09-01T18:00:00'), aircraft_type='738', load_factor=1.0)
t = b.fly(pm, m)
print("fly after failure OK, len", len(t), "n_climb", t.n_climb, t.n_cruise, t.n_descent, "cap", t._capacity)
print("builder dict keys after fly:", list(b.__dict__.keys()))
print("=== D3: C15 gc_distance ===")
gt = tb.base.GroundTrack.great_circle(m.origin_position.location, m.destination_position.location)
print("gc_distance", m.gc_distance, "ground track total", gt.total_distance)
print("=== D6: make_point(-1) off growth boundary ===")
b2 = tb.LegacyBuilder(options=tb.Options(iterate_mass=False), legacy_options=tb.LegacyOptions(frac_step_clm=0.03, frac_step_crz=0.03, frac_step_des=0.03))
try:
    t2 = b2.fly(pm, m)
    print("len", len(t2), "phases", t2.n_climb, t2.n_cruise, t2.n_descent)
    nc = t2.n_climb
    for f in ['fuel_mass','aircraft_mass','ground_distance','flight_time','altitude','latitude']:
        a = getattr(t2, f)
        print(f, a[nc-1], a[nc], a[nc+1])
    print("mass-fuel const?", np.ptp(t2.aircraft_mass - t2.fuel_mass))
    print("time monotone?", np.all(np.diff(t2.flight_time)>=0), "dist monotone?", np.all(np.diff(t2.ground_distance)>=0))
except Exception as e:
    traceback.print_exc()
print("=== D7: interpolate_time on own times ===")
r = t.interpolate_time(t.flight_time.copy())
for f in ['fuel_mass','altitude','latitude','ground_distance']:
    a = getattr(t, f); bb = getattr(r, f)
    print(f, "maxabsdiff", np.nanmax(np.abs(a-bb)), "nan count", np.isnan(bb).sum())
print("raw flight_time buffer len", len(t._data['flight_time']), "size", t._size)
