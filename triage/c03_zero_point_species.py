import numpy as np, tempfile
from AEIC.trajectories.store import TrajectoryStore
from AEIC.trajectories.trajectory import Trajectory
from AEIC.storage.field_sets import FieldSet, FieldMetadata
from AEIC.storage.dimensions import Dimension, Dimensions
from AEIC.types import Species, SpeciesValues
fs = FieldSet('zp_demo', sp=FieldMetadata(dimensions=Dimensions(Dimension.TRAJECTORY, Dimension.SPECIES, Dimension.POINT), field_type=np.float64, description='d', units='u', required=False))
def mk(n):
    t = Trajectory(npoints=n, fieldsets=['base', 'zp_demo']) if 'fieldsets' in Trajectory.__init__.__code__.co_varnames else Trajectory(npoints=n)
    if not hasattr(t, 'sp'):
        t.add_fields(fs)
    for name, f in FieldSet.from_registry('base').items():
        if Dimension.POINT in f.dimensions:
            setattr(t, name, np.arange(n).astype(f.field_type))
        elif f.required:
            setattr(t, name, f.field_type(1) if f.field_type is not str else 'x')
    t.sp = SpeciesValues({Species.CO2: np.zeros(n), Species.H2O: np.ones(n)})
    return t
d=tempfile.mkdtemp()
with TrajectoryStore.create(base_file=d+'/s.nc') as ts:
    ts.add(mk(2)); ts.add(mk(0))
with TrajectoryStore.open(base_file=d+'/s.nc') as r:
    for i in range(2):
        try:
            t=r[i]; print(i, len(t), dict(t.sp))
        except Exception as e:
            print(i, 'raised', type(e).__name__, e)
