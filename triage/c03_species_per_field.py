import os, sys, traceback, tomllib, tempfile, threading
from pathlib import Path
import numpy as np
TEST_DATA_DIR = Path('/repo/tests/data').resolve()
os.environ['AEIC_PATH'] = str(TEST_DATA_DIR)
from AEIC.config import Config, config
Config.load(data_path_overrides=[TEST_DATA_DIR])
from AEIC.trajectories import TrajectoryStore, Trajectory
from AEIC.storage import FieldSet, FieldMetadata, Dimensions, Dimension
from AEIC.types import Species, SpeciesValues
from AEIC.performance.types import ThrustModeValues, ThrustMode
def mk(n, seed, fid=None):
    t = Trajectory(npoints=n, name=f't{seed}')
    for f in ['fuel_flow','aircraft_mass','fuel_mass','ground_distance','altitude','flight_level','rate_of_climb','flight_time','latitude','longitude','azimuth','heading','true_airspeed','ground_speed']:
        setattr(t, f, np.arange(n, dtype=float) + seed*1000)
    t.starting_mass = float(seed); t.total_fuel_mass = 1.0
    t.n_climb=1; t.n_cruise=1; t.n_descent=1
    if fid is not None: t.flight_id = fid
    return t
tmp = Path(tempfile.mkdtemp())
print("=== D9: differing species sets per field (prefix species) ===")
fs = FieldSet('spx', a=FieldMetadata(dimensions=Dimensions.from_abbrev('TS'), description='a', units='g'),
              b=FieldMetadata(dimensions=Dimensions.from_abbrev('TSP'), description='b', units='g'),
              c=FieldMetadata(dimensions=Dimensions.from_abbrev('TSM'), description='c', units='g'))
class D:
    FIELD_SETS=[fs]
    def __init__(self, a, b, c): self.a=a; self.b=b; self.c=c
f2 = tmp/'b.nc'
with TrajectoryStore.create(base_file=f2) as ts:
    t = mk(3, 7)
    t.add_fields(D(SpeciesValues({Species.CO2: 1.5, Species.H2O: 2.5}), SpeciesValues({Species.CO2: np.array([1.,2.,3.])}),
                   SpeciesValues({Species.H2O: ThrustModeValues(1.,2.,3.,4.)})))
    ts.add(t)
    orig = t
with TrajectoryStore.open(base_file=f2) as ts:
    r = ts[0]
    print("a:", {k.name: v for k,v in r.a.items()})
    print("b:", {k.name: v for k,v in r.b.items()})
    print("c:", {k.name: v for k,v in r.c.items()})
    try: print("equal?", r == orig)
    except Exception as e: print("eq exc", e)

print("=== D15: thread guard state ===")
print("active_in_thread:", TrajectoryStore.active_in_thread, "main ident", threading.get_ident())
