import os
from pathlib import Path
import numpy as np, pandas as pd
TEST_DATA_DIR = Path('/repo/tests/data').resolve()
os.environ['AEIC_PATH'] = str(TEST_DATA_DIR)
from AEIC.config import Config
Config.load(data_path_overrides=[TEST_DATA_DIR])
from AEIC.weather import Weather
from AEIC.trajectories.ground_track import GroundTrack
from AEIC.types import Location
from AEIC.utils.standard_atmosphere import pressure_at_altitude_isa_bada4
w = Weather(TEST_DATA_DIR/'weather')
t = pd.Timestamp('2024-09-01T12:00:00Z')
pt = GroundTrack.Point(Location(-75.0, 40.0), 0.0)
alt = 9144.0; tas=200.0
w._require_data(t)
u = float(w._ds['u'].interp(pressure_level=pressure_at_altitude_isa_bada4(alt)/100, latitude=40.0, longitude=-75.0))
v = float(w._ds['v'].interp(pressure_level=pressure_at_altitude_isa_bada4(alt)/100, latitude=40.0, longitude=-75.0))
print("wind u (east)", u, "v (north)", v)
for hdg in [0, 90, 180, 270]:
    gs = w.get_ground_speed(t, pt, alt, tas, azimuth=hdg)
    h = np.deg2rad(hdg)
    correct = np.hypot(tas*np.sin(h)+u, tas*np.cos(h)+v)
    print(hdg, "impl", round(gs,3), "vector-sum", round(correct,3))
