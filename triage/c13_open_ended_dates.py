import os, sys, traceback, tomllib, tempfile, csv, logging
from pathlib import Path
from datetime import date
TEST_DATA_DIR = Path('/repo/tests/data').resolve()
os.environ['AEIC_PATH'] = str(TEST_DATA_DIR)
from AEIC.config import Config, config
Config.load(data_path_overrides=[TEST_DATA_DIR])
tmp = Path(tempfile.mkdtemp())
from AEIC.missions.oag import CSVEntry, OAGDatabase
rows = list(csv.DictReader(open(TEST_DATA_DIR/'oag/2019-extract.csv')))
ents = [(i, CSVEntry.from_csv_row(r, i+2)) for i, r in enumerate(rows)]
valid = [(i,e) for i,e in ents if e is not None]
print("valid", len(valid), "of", len(rows))
i0, e0 = valid[0]
r = dict(rows[i0]); r['effto'] = '99999999'
e = CSVEntry.from_csv_row(r, 2)
print("entry", e.depapt, e.arrapt, e.efffrom, e.effto, e.distance)
odb = OAGDatabase(str(tmp/'o.sqlite'), 2019)
try:
    print("add ->", odb.add(e)); print("warnings:", {k:str(v) for k,v in odb.warnings.items()})
except Exception as ex:
    print("add EXC:", type(ex).__name__, ex)
odb2 = OAGDatabase(str(tmp/'o2.sqlite'), 2019)
acc = 0
for i,e in valid:
    acc += odb2.add(e)
print("accepted", acc, "warnings", {k:str(v) for k,v in odb2.warnings.items()})
