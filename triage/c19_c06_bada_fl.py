import os, sys, traceback, tomllib
from pathlib import Path
import numpy as np
TEST_DATA_DIR = Path('/repo/tests/data').resolve()
os.environ['AEIC_PATH'] = str(TEST_DATA_DIR)
from AEIC.config import Config, config
print("=== D14: BADA params subscripts ===")
from AEIC.BADA.aircraft_parameters import Bada3AircraftParameters
from AEIC.BADA.model import Bada3FuelBurnModel
try:
    ap = Bada3AircraftParameters()
    ap.assign_parameters_fromdict(dict(engine_type='Jet', c_f1=0.7, c_f2=1000., c_fcr=0.95, c_tc1=140000., c_tc2=50000., c_tc3=1e-11, c_tc4=10., c_tc5=0.005, c_tdes_high=0.1, c_tdes_low=0.05, h_p_des=10000., S_ref=120., c_d0cr=0.025, c_d2cr=0.04))
    m = Bada3FuelBurnModel(ap)
    n=5
    out = m.iterate_flight_simulation_constant_initial_mass(np.full(n,230.), np.full(n,10000.), np.full(n,230.), np.zeros(n), np.zeros(n), np.ones(n,bool), np.full(n,230.), 10000., 60000.)
    print(out)
except Exception as e:
    print("EXC", type(e).__name__, e)

print("=== D17: FL conversion ===")
from AEIC.units import METERS_TO_FL, FL_TO_METERS, FEET_TO_METERS, METERS_TO_FEET
print("product", METERS_TO_FL*FL_TO_METERS, "FL410 ->", 410*FL_TO_METERS*METERS_TO_FL)
Config.load(data_path_overrides=[TEST_DATA_DIR])
from AEIC.performance.models import PerformanceModel
from AEIC.performance.types import AircraftState, SimpleFlightRules
pm = PerformanceModel.load(config.file_location('performance/sample_performance_model.toml'))
tbl = pm.performance_table
print("fls", tbl.fl[:3], tbl.fl[-3:], "max_alt_ft", pm.maximum_altitude_ft)
for fl in [tbl.fl[0], tbl.fl[5], tbl.fl[-1]]:
    for rule in SimpleFlightRules:
        try:
            p = pm.evaluate(AircraftState(altitude=fl*FL_TO_METERS, aircraft_mass=tbl.mass[1]), rule)
            sub = tbl.df[(tbl.df.fl==fl)]
            print(fl, rule, p.true_airspeed, sorted(set(sub.tas)))
        except Exception as e:
            print(fl, rule, "EXC", type(e).__name__, e)
