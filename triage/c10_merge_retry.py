import os, sys, traceback, tempfile
from pathlib import Path
import numpy as np
TEST_DATA_DIR = Path('/repo/tests/data').resolve()
os.environ['AEIC_PATH'] = str(TEST_DATA_DIR)
from AEIC.config import Config, config
Config.load(data_path_overrides=[TEST_DATA_DIR])
from AEIC.trajectories import TrajectoryStore, Trajectory
from AEIC.storage import FieldSet, FieldMetadata
def mk(n, seed, fid=None):
    t = Trajectory(npoints=n, name=f't{seed}')
    for f in ['fuel_flow','aircraft_mass','fuel_mass','ground_distance','altitude','flight_level','rate_of_climb','flight_time','latitude','longitude','azimuth','heading','true_airspeed','ground_speed']:
        setattr(t, f, np.arange(n, dtype=float) + seed*1000)
    t.starting_mass = float(seed); t.total_fuel_mass = 1.0
    t.n_climb=1; t.n_cruise=1; t.n_descent=1
    if fid is not None: t.flight_id = fid
    return t
tmp = Path(tempfile.mkdtemp())
a, b = tmp/'a.nc', tmp/'b.nc'
with TrajectoryStore.create(base_file=a) as ts: ts.add(mk(3,0,fid=10))
with TrajectoryStore.create(base_file=b) as ts: ts.add(mk(3,1))     # not indexable -> mix refused
out = tmp/'m.aeic-store'
try:
    TrajectoryStore.merge(out, input_stores=[a,b])
except Exception as e:
    print("merge refused:", type(e).__name__, e)
print("after refusal: out exists?", out.exists(), "inputs exist?", a.exists(), b.exists())
# correct the cause: replace b with indexable store, retry
os.remove(b)
with TrajectoryStore.create(base_file=b) as ts: ts.add(mk(3,1,fid=5))
try:
    TrajectoryStore.merge(out, input_stores=[a,b]); print("retry ok")
except Exception as e:
    print("retry FAILED:", type(e).__name__, e)
