"""Program model: parses /repo's working tree into modules, classes, functions.

Nothing here executes repository code.  Every file consulted is digested so the
evidence can say exactly which source text a verdict is about.
"""

from __future__ import annotations

import ast
import hashlib
import json
import os
from dataclasses import dataclass, field
from pathlib import Path


class AnalysisError(Exception):
    """The analysis itself cannot decide (vanished anchor, unknown idiom)."""


def repo_root() -> Path:
    return Path(os.environ.get('AEIC_VERIF_REPO', '/repo')).resolve()


@dataclass
class FunctionInfo:
    qualname: str  # Class.method or function (nested: outer.<locals>.inner)
    node: ast.FunctionDef | ast.AsyncFunctionDef
    module: 'ModuleInfo'
    cls: 'ClassInfo | None' = None

    @property
    def name(self) -> str:
        return self.node.name

    @property
    def file(self) -> str:
        return self.module.relpath

    @property
    def params(self) -> list[str]:
        a = self.node.args
        names = [x.arg for x in a.posonlyargs + a.args]
        if a.vararg:
            names.append(a.vararg.arg)
        names += [x.arg for x in a.kwonlyargs]
        if a.kwarg:
            names.append(a.kwarg.arg)
        return names

    def decorators(self) -> list[str]:
        return [ast.unparse(d) for d in self.node.decorator_list]

    def __hash__(self):
        return hash((self.module.relpath, self.qualname))

    def __eq__(self, other):
        return (
            isinstance(other, FunctionInfo)
            and self.module.relpath == other.module.relpath
            and self.qualname == other.qualname
        )

    def __repr__(self):
        return f'<fn {self.module.relpath}:{self.qualname}>'


@dataclass
class ClassInfo:
    name: str
    node: ast.ClassDef
    module: 'ModuleInfo'
    methods: dict[str, FunctionInfo] = field(default_factory=dict)
    base_exprs: list[str] = field(default_factory=list)
    bases: list['ClassInfo'] = field(default_factory=list)  # resolved repo classes

    @property
    def file(self) -> str:
        return self.module.relpath

    def mro(self) -> list['ClassInfo']:
        out: list[ClassInfo] = []
        seen = set()

        def go(c: ClassInfo):
            if id(c) in seen:
                return
            seen.add(id(c))
            out.append(c)
            for b in c.bases:
                go(b)

        go(self)
        return out

    def find_method(self, name: str) -> FunctionInfo | None:
        for c in self.mro():
            if name in c.methods:
                return c.methods[name]
        return None

    def class_assignments(self) -> dict[str, ast.expr | None]:
        """Names bound in the class body (annotated or assigned)."""
        out: dict[str, ast.expr | None] = {}
        for s in self.node.body:
            if isinstance(s, ast.AnnAssign) and isinstance(s.target, ast.Name):
                out[s.target.id] = s.value
            elif isinstance(s, ast.Assign):
                for t in s.targets:
                    if isinstance(t, ast.Name):
                        out[t.id] = s.value
        return out

    def annotated_fields(self) -> dict[str, ast.expr]:
        out = {}
        for s in self.node.body:
            if isinstance(s, ast.AnnAssign) and isinstance(s.target, ast.Name):
                out[s.target.id] = s.annotation
        return out

    def all_fields(self) -> dict[str, ast.expr]:
        out: dict[str, ast.expr] = {}
        for c in reversed(self.mro()):
            out.update(c.annotated_fields())
        return out

    def is_subclass_of(self, name: str) -> bool:
        return any(c.name == name for c in self.mro())

    def __repr__(self):
        return f'<class {self.module.relpath}:{self.name}>'


@dataclass
class ModuleInfo:
    relpath: str  # e.g. src/AEIC/trajectories/store.py
    modname: str  # e.g. AEIC.trajectories.store
    tree: ast.Module
    source: str
    digest: str
    classes: dict[str, ClassInfo] = field(default_factory=dict)
    functions: dict[str, FunctionInfo] = field(default_factory=dict)  # by qualname
    imports: dict[str, str] = field(default_factory=dict)  # local name -> dotted target
    constants: dict[str, ast.expr] = field(default_factory=dict)

    def func(self, qualname: str) -> FunctionInfo:
        try:
            return self.functions[qualname]
        except KeyError:
            raise AnalysisError(
                f'anchor vanished: function {qualname} not found in {self.relpath}'
            ) from None

    def cls(self, name: str) -> ClassInfo:
        try:
            return self.classes[name]
        except KeyError:
            raise AnalysisError(
                f'anchor vanished: class {name} not found in {self.relpath}'
            ) from None


class Program:
    def __init__(self, root: Path | None = None, extra: bool = False):
        self.root = root or repo_root()
        self.modules: dict[str, ModuleInfo] = {}  # by relpath
        self.by_modname: dict[str, ModuleInfo] = {}
        self.consulted: set[str] = set()
        self.parse_errors: list[str] = []
        self._load_tree('src/AEIC')
        if extra:
            self._load_tree('scripts', pkg=None)
            self._load_notebooks('notebooks')
        self._register_moved()
        self._resolve_bases()
        if os.environ.get('AEIC_VERIF_NO_ALPHA') != '1':
            from . import alpha
            self.alpha_renamed = getattr(self, 'alpha_renamed', 0) + alpha.reshape_calls(self)
            self.alpha_renamed += alpha.reextract_all(self)
            from . import objnorm
            self.objects_dissolved = objnorm.apply(self)

    # -- loading ---------------------------------------------------------
    def _load_tree(self, sub: str, pkg: str | None = 'AEIC'):
        base = self.root / sub
        if not base.is_dir():
            if sub == 'src/AEIC':
                raise AnalysisError(f'{base} does not exist')
            return
        files = []
        for p in sorted(base.rglob('*.py')):
            rel = str(p.relative_to(self.root))
            try:
                src = p.read_text(encoding='utf-8')
                tree = ast.parse(src, filename=rel)
            except SyntaxError as e:  # a file the build could not import either
                self.parse_errors.append(f'{rel}: {e}')
                raise AnalysisError(f'cannot parse {rel}: {e}') from None
            if pkg:
                parts = list(p.relative_to(base).with_suffix('').parts)
                if parts and parts[-1] == '__init__':
                    parts = parts[:-1]
                modname = '.'.join([pkg] + parts)
            else:
                modname = 'scripts.' + p.stem
            files.append((rel, modname, tree, src))
        if pkg and os.environ.get('AEIC_VERIF_NO_ALPHA') != '1' and os.environ.get('AEIC_VERIF_NO_GLOBALNORM') != '1':
            # program-level normalisation against the reference tree: renamed identifiers, new named constants,
            # moved functions (globalnorm.py); the per-file passes follow in _add_module
            from . import alpha, globalnorm
            self.globalnorm = globalnorm.apply(files, alpha._load_ref())
            alpha.set_moved(self.globalnorm.get('moved', {}))
        for rel, modname, tree, src in files:
            self._add_module(rel, modname, tree, src)

    def _load_notebooks(self, sub: str):
        base = self.root / sub
        if not base.is_dir():
            return
        for p in sorted(base.rglob('*.ipynb')):
            rel = str(p.relative_to(self.root))
            try:
                nb = json.loads(p.read_text(encoding='utf-8'))
            except Exception:
                continue
            chunks = []
            for cell in nb.get('cells', []):
                if cell.get('cell_type') != 'code':
                    continue
                src = cell.get('source', '')
                if isinstance(src, list):
                    src = ''.join(src)
                lines = [
                    ln
                    for ln in src.split('\n')
                    if not ln.lstrip().startswith(('%', '!'))
                ]
                chunk = '\n'.join(lines)
                try:
                    ast.parse(chunk)
                except SyntaxError:
                    continue
                chunks.append(chunk)
            src = '\n\n'.join(chunks)
            try:
                tree = ast.parse(src)
            except SyntaxError:
                continue
            self._add_module(rel, 'notebooks.' + p.stem, tree, src)

    def _add_module(self, rel: str, modname: str, tree: ast.Module, src: str):
        tree = _Canon().visit(tree)
        if rel.startswith('src/') and os.environ.get('AEIC_VERIF_NO_ALPHA') != '1':
            from . import alpha
            tree, nren = alpha.normalise(tree, rel, hashlib.sha256(src.encode()).hexdigest())
            self.alpha_renamed = getattr(self, 'alpha_renamed', 0) + nren
        m = ModuleInfo(
            relpath=rel,
            modname=modname,
            tree=tree,
            source=src,
            digest=hashlib.sha256(src.encode()).hexdigest(),
        )
        self.modules[rel] = m
        self.by_modname[modname] = m
        for n in ast.walk(tree):
            for ch in ast.iter_child_nodes(n):
                # Load()/Store()/Add()... are interpreter-wide singletons: never hang a parent on them
                if not isinstance(ch, (ast.expr_context, ast.operator, ast.unaryop, ast.cmpop, ast.boolop)):
                    ch._parent = n  # type: ignore[attr-defined]
        self._index_module(m)

    def _index_module(self, m: ModuleInfo):
        pkg_parts = m.modname.split('.')
        is_pkg = m.relpath.endswith('__init__.py')

        def add_imports(body):
            for s in body:
                if isinstance(s, ast.Import):
                    for a in s.names:
                        m.imports[a.asname or a.name.split('.')[0]] = (
                            a.name if a.asname else a.name.split('.')[0]
                        )
                elif isinstance(s, ast.ImportFrom):
                    if s.level:
                        base = pkg_parts if is_pkg else pkg_parts[:-1]
                        base = base[: len(base) - (s.level - 1)]
                        mod = '.'.join(base + ([s.module] if s.module else []))
                    else:
                        mod = s.module or ''
                    for a in s.names:
                        m.imports[a.asname or a.name] = f'{mod}.{a.name}'
                elif isinstance(s, (ast.If, ast.Try)):
                    add_imports(s.body)
                    add_imports(getattr(s, 'orelse', []))

        add_imports(m.tree.body)
        for s in m.tree.body:
            if isinstance(s, ast.Assign) and len(s.targets) == 1:
                t = s.targets[0]
                if isinstance(t, ast.Name):
                    m.constants[t.id] = s.value
            elif isinstance(s, ast.AnnAssign) and isinstance(s.target, ast.Name):
                if s.value is not None:
                    m.constants[s.target.id] = s.value

        def index_funcs(body, prefix: str, cls: ClassInfo | None):
            for s in body:
                if isinstance(s, (ast.FunctionDef, ast.AsyncFunctionDef)):
                    q = prefix + s.name
                    fi = FunctionInfo(q, s, m, cls)
                    # property setters etc. share a name: keep the first, index
                    # the others under a decorated key.
                    key = q
                    if key in m.functions:
                        decs = '|'.join(ast.unparse(d) for d in s.decorator_list)
                        key = f'{q}@{decs}'
                    m.functions[key] = fi
                    if cls is not None and prefix == cls.name + '.':
                        cls.methods.setdefault(s.name, fi)
                    index_funcs(s.body, q + '.<locals>.', cls)
                elif isinstance(s, ast.ClassDef):
                    ci = ClassInfo(s.name, s, m)
                    ci.base_exprs = [ast.unparse(b) for b in s.bases]
                    cname = prefix + s.name
                    ci.name = cname if prefix and cls is not None else s.name
                    ci.name = s.name
                    m.classes[prefix + s.name if prefix else s.name] = ci
                    index_funcs(s.body, (prefix + s.name if prefix else s.name) + '.', ci)
                elif isinstance(s, (ast.If, ast.Try, ast.With)):
                    index_funcs(s.body, prefix, cls)
                    index_funcs(getattr(s, 'orelse', []), prefix, cls)

        index_funcs(m.tree.body, '', None)

    def _register_moved(self):
        """a function that moved (other module, or module level instead of a static method) is also reachable under
        the file and qualified name the reference tree has for it"""
        for (ra, qa), (rb, qb) in (getattr(self, 'globalnorm', None) or {}).get('moved', {}).items():
            ma, mb = self.modules.get(ra), self.modules.get(rb)
            if ma is None or mb is None or qb not in mb.functions or qa in ma.functions:
                continue
            real = mb.functions[qb]
            cls = None
            if '.' in qa:
                cls = ma.classes.get(qa.rsplit('.', 1)[0])
            fi = FunctionInfo(qa, real.node, mb, cls if cls is not None else real.cls)
            ma.functions[qa] = fi
            if cls is not None:
                cls.methods.setdefault(qa.rsplit('.', 1)[1], fi)

    def _resolve_bases(self):
        for m in self.modules.values():
            for ci in m.classes.values():
                for b in ci.node.bases:
                    tgt = b
                    if isinstance(tgt, ast.Subscript):  # Generic[T] / Base[T]
                        tgt = tgt.value
                    rc = self.resolve_class_expr(m, tgt)
                    if rc is not None:
                        ci.bases.append(rc)

    # -- lookup ------------------------------------------------------------
    def module(self, relpath: str) -> ModuleInfo:
        if not relpath.startswith(('src/', 'scripts/', 'notebooks/')):
            relpath = 'src/AEIC/' + relpath
        try:
            m = self.modules[relpath]
        except KeyError:
            raise AnalysisError(f'anchor vanished: module {relpath}') from None
        self.consulted.add(relpath)
        return m

    def func(self, relpath: str, qualname: str) -> FunctionInfo:
        return self.module(relpath).func(qualname)

    def cls(self, relpath: str, name: str) -> ClassInfo:
        return self.module(relpath).cls(name)

    def src_modules(self) -> list[ModuleInfo]:
        return [m for r, m in self.modules.items() if r.startswith('src/')]

    def all_functions(self, src_only: bool = True) -> list[FunctionInfo]:
        out = []
        for r, m in self.modules.items():
            if src_only and not r.startswith('src/'):
                continue
            out.extend(m.functions.values())
        return out

    def all_classes(self, src_only: bool = True) -> list[ClassInfo]:
        out = []
        for r, m in self.modules.items():
            if src_only and not r.startswith('src/'):
                continue
            out.extend(m.classes.values())
        return out

    def subclasses_of(self, name: str) -> list[ClassInfo]:
        return [c for c in self.all_classes() if c.is_subclass_of(name)]

    def resolve_dotted(self, dotted: str):
        """Resolve 'AEIC.x.y.Name' to ClassInfo / FunctionInfo / ('const', mod, name)
        / ModuleInfo, following re-exports through package __init__ files."""
        seen = set()
        while dotted and dotted not in seen:
            seen.add(dotted)
            if dotted in self.by_modname:
                return self.by_modname[dotted]
            mod, _, name = dotted.rpartition('.')
            m = self.by_modname.get(mod)
            if m is None:
                return None
            if name in m.classes:
                return m.classes[name]
            if name in m.functions:
                return m.functions[name]
            if name in m.constants:
                return ('const', m, name)
            if name in m.imports:
                dotted = m.imports[name]
                continue
            return None
        return None

    def resolve_name(self, m: ModuleInfo, name: str):
        if name in m.classes:
            return m.classes[name]
        if name in m.functions:
            return m.functions[name]
        if name in m.imports:
            return self.resolve_dotted(m.imports[name])
        if name in m.constants:
            return ('const', m, name)
        return None

    def resolve_class_expr(self, m: ModuleInfo, e: ast.expr) -> ClassInfo | None:
        if isinstance(e, ast.Name):
            r = self.resolve_name(m, e.id)
            return r if isinstance(r, ClassInfo) else None
        if isinstance(e, ast.Attribute):
            d = dotted_name(e)
            if d:
                head, _, rest = d.partition('.')
                if head in m.imports:
                    r = self.resolve_dotted(m.imports[head] + '.' + rest)
                    return r if isinstance(r, ClassInfo) else None
                if head in m.classes and rest in {
                    k.split('.', 1)[1] for k in m.classes if k.startswith(head + '.')
                }:
                    return m.classes[head + '.' + rest]
        if isinstance(e, ast.Subscript):
            return self.resolve_class_expr(m, e.value)
        return None

    def files_digest(self) -> str:
        h = hashlib.sha256()
        for r in sorted(self.consulted):
            h.update(r.encode())
            h.update(self.modules[r].digest.encode())
        return h.hexdigest()


class _Canon(ast.NodeTransformer):
    """Canonicalise spellings that do not change behaviour, so that rules see one
    form: `x = x op e` (and `x = e op x` for + and *) becomes `x op= e`."""

    def generic_visit(self, n):
        super().generic_visit(n)
        # drop no-op statements (bare constants that are not docstrings, `pass` next to real statements)
        for f in ('body', 'orelse', 'finalbody'):
            b = getattr(n, f, None)
            if isinstance(b, list) and b and isinstance(b[0], ast.stmt):
                keep_doc = f == 'body' and isinstance(n, (ast.Module, ast.FunctionDef, ast.AsyncFunctionDef, ast.ClassDef))
                nb = []
                for i, st in enumerate(b):
                    noop = (isinstance(st, ast.Expr) and isinstance(st.value, ast.Constant)
                            and not (keep_doc and i == 0 and isinstance(st.value.value, str))) or isinstance(st, ast.Pass)
                    if not noop:
                        nb.append(st)
                if not nb:
                    nb = [b[-1]] if not (keep_doc and len(b) > 1) else b[:1]
                setattr(n, f, nb)
        return n

    def visit_Assign(self, n):
        self.generic_visit(n)
        if len(n.targets) == 1 and isinstance(n.targets[0], (ast.Name, ast.Attribute, ast.Subscript)) \
                and isinstance(n.value, ast.BinOp):
            t = ast.unparse(n.targets[0])
            v = n.value
            if ast.unparse(v.left) == t:
                return ast.copy_location(ast.AugAssign(target=n.targets[0], op=v.op, value=v.right), n)
            if isinstance(v.op, (ast.Add, ast.Mult)) and ast.unparse(v.right) == t and not _maybe_sequence(v.left):
                return ast.copy_location(ast.AugAssign(target=n.targets[0], op=v.op, value=v.left), n)
        return n


def _maybe_sequence(e):
    return isinstance(e, (ast.List, ast.Tuple, ast.Constant)) and not isinstance(getattr(e, 'value', 0), (int, float))


def dotted_name(e: ast.AST) -> str | None:
    parts = []
    while isinstance(e, ast.Attribute):
        parts.append(e.attr)
        e = e.value
    if isinstance(e, ast.Name):
        parts.append(e.id)
        return '.'.join(reversed(parts))
    return None


def parent(n: ast.AST) -> ast.AST | None:
    return getattr(n, '_parent', None)


def enclosing_function(n: ast.AST) -> ast.FunctionDef | None:
    p = parent(n)
    while p is not None and not isinstance(p, (ast.FunctionDef, ast.AsyncFunctionDef)):
        p = parent(p)
    return p  # type: ignore[return-value]
