"""CLI: ./check <ID> [--tier quick|thorough] [--replay PATH] [--repo DIR]

exit 0  every rule instance held (known findings are printed, not failed)
exit 1  VIOLATION property=<ID> replay=<path>
exit 2  ANALYSIS-ERROR (vanished anchor, unknown idiom, internal error)
"""

from __future__ import annotations

import argparse
import importlib
import json
import os
import sys
import time
import traceback

from .loader import AnalysisError, Program
from .report import RuleCtx, finish


def run_property(prop: str, tier: str, seed: int, only_keys: set[str] | None = None) -> int:
    t0 = time.time()
    prog = Program(extra=(tier == 'thorough'))
    ctx = RuleCtx(prop, prog, tier)
    mod = importlib.import_module(f'sa.rules.{prop.lower()}')
    mod.run(ctx)
    extra = {}
    if tier == 'thorough' and hasattr(mod, 'thorough'):
        extra = mod.thorough(ctx) or {}
    if only_keys is not None:
        ctx.obligations = [o for o in ctx.obligations if o.key in only_keys]
        if not ctx.obligations:
            print('replay: the recorded constructs no longer exist in the tree '
                  '(nothing to re-check)')
    return finish(ctx, t0, seed, extra)


def main(argv=None) -> int:
    ap = argparse.ArgumentParser(prog='check')
    ap.add_argument('property')
    ap.add_argument('--tier', default=os.environ.get('VERIF_TIER') or 'quick',
                    choices=['quick', 'thorough'])
    ap.add_argument('--replay')
    ap.add_argument('--repo')
    a = ap.parse_args(argv)
    if a.repo:
        os.environ['AEIC_VERIF_REPO'] = a.repo
    try:
        seed = int(os.environ.get('VERIF_SEED', '0') or 0)
    except ValueError:
        seed = 0
    prop = a.property.upper()
    try:
        only = None
        if a.replay:
            rec = json.load(open(a.replay))
            only = {f['key'] for f in rec['findings']}
            print(f'replaying {len(only)} recorded construct(s) from {a.replay}')
        return run_property(prop, a.tier, seed, only)
    except AnalysisError as e:
        print(f'ANALYSIS-ERROR property={prop} {e}')
        return 2
    except Exception as e:  # never let a traceback look like a violation
        print(f'ANALYSIS-ERROR property={prop} internal: {type(e).__name__}: {e}')
        tb = traceback.format_exc().splitlines()
        print('\n'.join(tb[-12:]))
        return 2


if __name__ == '__main__':
    sys.exit(main())
