"""CLI: ./check <ID> [--tier quick|thorough] [--replay PATH] [--repo DIR]

exit 0  every rule instance held (known findings are printed, not failed)
exit 1  VIOLATION property=<ID> replay=<path>
exit 2  ANALYSIS-ERROR (vanished anchor, unknown idiom, internal error)
"""

from __future__ import annotations

import argparse
import importlib
import json
import os
import sys
import time
import traceback

from .loader import AnalysisError, Program
from .report import RuleCtx, finish


def run_property(prop: str, tier: str, seed: int, only_keys: set[str] | None = None) -> int:
    t0 = time.time()
    prog = Program(extra=(tier == 'thorough'))
    ctx = RuleCtx(prop, prog, tier)
    mod = importlib.import_module(f'sa.rules.{prop.lower()}')
    ctx.stats['program'] = {'modules_parsed': len(prog.modules), 'functions': len(prog.all_functions(src_only=False)),
                            'classes': len(prog.all_classes(src_only=False)),
                            'constructs_renormalised_against_reference': getattr(prog, 'alpha_renamed', 0)}
    # generic templates first: they need no anchor inside the property's own functions
    from .rules.memo import run_memo
    from .rules.own import run_own
    run_memo(ctx)
    run_own(ctx)
    try:
        mod.run(ctx)
    except Exception as e:
        # a rule lost its anchor / met an unknown idiom.  If other rules have already established a violation
        # that verdict stands (exit 1); otherwise the run is analysis-broken (exit 2).
        from .report import load_known
        known = {k['key'] for k in load_known() if k.get('status') == 'known'}
        if not any((not o.ok) and o.key not in known for o in ctx.obligations):
            raise
        msg = str(e) if isinstance(e, AnalysisError) else f'internal: {type(e).__name__}: {e}'
        ctx.note(f'rules not completed: {msg}')
        print(f'NOTE property={prop} remaining rules not completed ({msg[:200]}); the violations below were established before that')
    extra = {}
    if tier == 'thorough' and hasattr(mod, 'thorough'):
        extra = mod.thorough(ctx) or {}
    audit_problem = None
    if tier == 'thorough' and only_keys is None and os.environ.get('AEIC_VERIF_NO_AUDIT') != '1':
        from .audit.run import run as audit_run
        from .report import load_known
        known = {k['key'] for k in load_known() if k.get('status') == 'known'}
        base_viol = len({o.key for o in ctx.obligations if not o.ok and o.key not in known})
        a = audit_run(prop, base_viol, sorted(ctx.prog.consulted))
        extra = dict(extra, **a)
        au = a.get('audit')
        if isinstance(au, dict):
            print(f'audit: {au["silent_ok"]}/{len(au["preserving"])} behaviour-preserving variants silent, '
                  f'{au["detected"]}/{len(au["breaking"]) - sum(1 for v in au["breaking"].values() if v.startswith("skipped"))} '
                  f'breaking variants detected, {au["skipped"]} skipped')
            if au['false_alarms'] or au['missed']:
                audit_problem = f'audit: false alarms on {au["false_alarms"]}, missed {au["missed"]}'
    if only_keys is not None:
        ctx.obligations = [o for o in ctx.obligations if o.key in only_keys]
        if not ctx.obligations:
            print('replay: the recorded constructs no longer exist in the tree '
                  '(nothing to re-check)')
    rc = finish(ctx, t0, seed, extra)
    if audit_problem and rc == 0:
        raise AnalysisError(audit_problem)
    return rc


def main(argv=None) -> int:
    ap = argparse.ArgumentParser(prog='check')
    ap.add_argument('property')
    ap.add_argument('--tier', default=os.environ.get('VERIF_TIER') or 'quick',
                    choices=['quick', 'thorough'])
    ap.add_argument('--replay')
    ap.add_argument('--repo')
    a = ap.parse_args(argv)
    if a.repo:
        os.environ['AEIC_VERIF_REPO'] = a.repo
    try:
        seed = int(os.environ.get('VERIF_SEED', '0') or 0)
    except ValueError:
        seed = 0
    prop = a.property.upper()
    try:
        only = None
        if a.replay:
            rec = json.load(open(a.replay))
            only = {f['key'] for f in rec['findings']}
            print(f'replaying {len(only)} recorded construct(s) from {a.replay}')
        return run_property(prop, a.tier, seed, only)
    except AnalysisError as e:
        print(f'ANALYSIS-ERROR property={prop} {e}')
        return 2
    except Exception as e:  # never let a traceback look like a violation
        print(f'ANALYSIS-ERROR property={prop} internal: {type(e).__name__}: {e}')
        tb = traceback.format_exc().splitlines()
        print('\n'.join(tb[-12:]))
        return 2


if __name__ == '__main__':
    sys.exit(main())
