"""Temporaries: extracting a sub-expression into a single-use local, or inlining
one, changes no behaviour.

Rules are written against the temporaries the repository has today.  For files
that differ from the reference tree the loader therefore

  1. *flattens* every function: a local `t` with exactly one binding `t = E`
     (plain assignment statement) and exactly one use, that use being in the head
     of the statement right after the binding (same block) at a position that is
     evaluated unconditionally and before any other call of that statement, is
     substituted into its use and the binding removed (to a fixpoint);
  2. alpha-normalises and reshapes the flat function against the flat reference
     (alpha.py);
  3. *re-extracts* the temporaries the reference function has, replaying the
     reference's own flattening steps backwards: the host statement is found by
     its text (or, failing that, by its position), the sub-expression by its text
     (or its path), and `name = sub-expression` is inserted before the host.

Both directions are semantics-preserving rewrites (conditions above), so the
rules still analyse a program equivalent to the one in the file; a changed
definition is still changed after the rewrite.
"""

from __future__ import annotations

import ast

from .alpha import _txt, function_locals

_DEFER = (ast.Lambda, ast.ListComp, ast.SetComp, ast.DictComp, ast.GeneratorExp, ast.FunctionDef, ast.AsyncFunctionDef,
          ast.ClassDef)
_IMPURE = (ast.Call, ast.Await, ast.Yield, ast.YieldFrom, ast.NamedExpr)


def blocks(fn):
    """[(owner, field, list)] for every statement list of fn, pre-order, nested scopes excluded"""
    out = []

    def rec(n):
        for f in ('body', 'orelse', 'finalbody'):
            b = getattr(n, f, None)
            if isinstance(b, list) and b and isinstance(b[0], ast.stmt):
                out.append((n, f, b))
                for st in b:
                    if not isinstance(st, (ast.FunctionDef, ast.AsyncFunctionDef, ast.ClassDef)):
                        rec(st)
        for h in getattr(n, 'handlers', None) or []:
            rec(h)
        for c in getattr(n, 'cases', None) or []:
            rec(c)
    rec(fn)
    return out


def heads(st) -> list[ast.AST]:
    """the expressions of st evaluated when control reaches st (before any nested block)"""
    if isinstance(st, ast.If):
        return [st.test]
    if isinstance(st, (ast.For, ast.AsyncFor)):
        return [st.iter]
    if isinstance(st, (ast.With, ast.AsyncWith)):
        return [st.items[0].context_expr]
    if isinstance(st, (ast.Assign, ast.AugAssign, ast.AnnAssign, ast.Return, ast.Expr, ast.Raise, ast.Assert, ast.Delete)):
        return [st]
    return []


def head_text(st) -> str:
    return type(st).__name__ + ':' + ' ; '.join(_txt(h) for h in heads(st))


def _path_to(root, node):
    """[(field, index|None)] from root to node, or None"""
    if root is node:
        return []
    for f, v in ast.iter_fields(root):
        if isinstance(v, ast.AST):
            p = _path_to(v, node)
            if p is not None:
                return [[f, None]] + p
        elif isinstance(v, list):
            for i, x in enumerate(v):
                if isinstance(x, ast.AST):
                    p = _path_to(x, node)
                    if p is not None:
                        return [[f, i]] + p
    return None


def _follow(root, path):
    n = root
    for f, i in path:
        v = getattr(n, f, None)
        if i is None:
            n = v
        else:
            if not isinstance(v, list) or i >= len(v):
                return None
            n = v[i]
        if not isinstance(n, ast.AST):
            return None
    return n


def _set_at(root, path, new):
    parent = _follow(root, path[:-1])
    f, i = path[-1]
    if i is None:
        setattr(parent, f, new)
    else:
        getattr(parent, f)[i] = new


def _pos(n):
    return (getattr(n, 'lineno', 0), getattr(n, 'col_offset', 0))


def legal_site(head: ast.AST, path, value: ast.AST) -> bool:
    """may `value` be evaluated at the position `path` of `head` instead of just before the statement?
    The position must not be a store target nor inside a deferred scope (lambda, comprehension), and, unless value
    is call-free, must be evaluated unconditionally (not the right operand of and/or, not a conditional-expression
    branch, not a later operand of a comparison chain).  The relative order of calls *within* the two adjacent
    statements is not preserved; no rule observes it (the CFG's granularity is the statement, and both statements
    sit in the same block under the same handlers)."""
    pure = not any(isinstance(x, _IMPURE + _DEFER) for x in ast.walk(value))
    n = head
    chain = [head]
    for f, i in path:
        v = getattr(n, f)
        child = v if i is None else v[i]
        if isinstance(n, _DEFER):
            return False
        if isinstance(n, (ast.Assign, ast.AnnAssign, ast.AugAssign)) and f in ('targets', 'target') and \
                child is _follow(head, path):
            return False
        if pure:
            # a call-free expression has no effect to reorder; only the point at which it could raise moves
            # within the statement
            n = child
            continue
        if isinstance(n, ast.BoolOp) and f == 'values' and i != 0:
            return False
        if isinstance(n, ast.IfExp) and f in ('body', 'orelse'):
            return False
        if isinstance(n, ast.Compare) and f == 'comparators' and i != 0:
            return False
        if isinstance(n, (ast.Assign, ast.AnnAssign, ast.AugAssign)) and f in ('targets', 'target') and \
                child is _follow(head, path):
            return False
        if isinstance(n, ast.Assert) and f == 'msg':
            return False
        n = child
        chain.append(n)
    return True


def _name_counts(fn):
    loads, stores, deferred = {}, {}, set()
    stack = [(c, False) for c in ast.iter_child_nodes(fn)]
    while stack:
        n, d = stack.pop()
        d = d or isinstance(n, _DEFER)
        if isinstance(n, ast.Name):
            tgt = loads if isinstance(n.ctx, ast.Load) else stores
            tgt[n.id] = tgt.get(n.id, 0) + 1
            if d:
                deferred.add(n.id)
        elif isinstance(n, (ast.Global, ast.Nonlocal)):
            deferred |= set(n.names)
        stack.extend((c, d) for c in ast.iter_child_nodes(n))
    return loads, stores, deferred


def _block_path(fn, owner, field):
    """path of a block from fn, as a list of [field, index] steps through statements"""
    def rec(n, acc):
        if n is owner:
            return acc + [[field, None]]
        for f in ('body', 'orelse', 'finalbody', 'handlers', 'cases'):
            b = getattr(n, f, None)
            if isinstance(b, list):
                for i, st in enumerate(b):
                    if isinstance(st, (ast.FunctionDef, ast.AsyncFunctionDef, ast.ClassDef)):
                        continue
                    r = rec(st, acc + [[f, i]])
                    if r is not None:
                        return r
        return None
    return rec(fn, [])


def flatten(fn, record: bool = False, keep_nodes: bool = False):
    """inline single-use next-statement temporaries to a fixpoint; returns the recorded steps"""
    steps = []
    names = function_locals(fn)
    guard = 0
    while guard < 500:
        guard += 1
        loads, stores, deferred = _name_counts(fn)
        done = False
        for owner, field, body in blocks(fn):
            for i in range(len(body) - 1):
                st, nx = body[i], body[i + 1]
                if not (isinstance(st, ast.Assign) and len(st.targets) == 1 and isinstance(st.targets[0], ast.Name)):
                    continue
                v = st.targets[0].id
                if v not in names or v in deferred or stores.get(v) != 1 or loads.get(v) != 1:
                    continue
                uses = [x for h in heads(nx) for x in ast.walk(h)
                        if isinstance(x, ast.Name) and x.id == v and isinstance(x.ctx, ast.Load)]
                if len(uses) != 1:
                    continue
                path = _path_to(nx, uses[0])
                if not path or not legal_site(nx, path, st.value):
                    continue
                _set_at(nx, path, st.value)
                del body[i]
                if record:
                    steps.append({'name': v, 'block': _block_path(fn, owner, field), 'index': i,
                                  'path': path, 'value': _txt(st.value), 'kind': type(st.value).__name__,
                                  'host': head_text(nx)})
                    if keep_nodes:
                        steps[-1]['node'] = st.value
                if isinstance(nx, ast.Assign):
                    # the substitution may have produced `x = x op e`, which the loader spells `x op= e`
                    from .loader import _Canon
                    side = 'left' if isinstance(nx.value, ast.BinOp) and len(nx.targets) == 1 and \
                        _txt(nx.value.left) == _txt(nx.targets[0]) else 'right'
                    c = _Canon().visit_Assign(nx)
                    if c is not nx:
                        body[i] = c
                        if record:
                            steps.append({'canon': side, 'block': _block_path(fn, owner, field), 'index': i,
                                          'host': head_text(c), 'name': ''})
                done = True
                if done:
                    break
            if done:
                break
        if not done:
            break
    return steps


def _find_block(fn, bpath):
    n = fn
    for f, i in bpath[:-1]:
        b = getattr(n, f, None)
        if not isinstance(b, list) or i is None or i >= len(b):
            return None
        n = b[i]
    b = getattr(n, bpath[-1][0], None)
    return b if isinstance(b, list) else None


def _resembles(node, s) -> bool:
    """is `node` plausibly the (edited) expression the reference temporary s held?"""
    if type(node).__name__ != s['kind']:
        return False
    if isinstance(node, ast.Call):
        return s['value'].startswith(_txt(node.func) + '(')
    import difflib
    return difflib.SequenceMatcher(None, _txt(node), s['value']).ratio() >= 0.5


def _locate(fn, node):
    for _, _, body in blocks(fn):
        for i, st in enumerate(body):
            for h in heads(st):
                if any(x is node for x in ast.walk(h)):
                    return body, i, _path_to(st, node)
    return None


def restore_own(fn, own) -> int:
    """own = [(name, value node)] temporaries of the function itself that flatten() inlined; put back those whose
    value still sits inside a statement (it was not claimed by a reference temporary)"""
    k = 0
    for name, node in reversed(own):
        loads, stores, _ = _name_counts(fn)
        if name in loads or name in stores or name in {a.arg for a in ast.walk(fn.args) if isinstance(a, ast.arg)}:
            continue
        loc = _locate(fn, node)
        if loc is None:
            continue
        body, i, path = loc
        if not path:
            continue
        if isinstance(body[i], ast.Assign) and path == [['value', None]] and len(body[i].targets) == 1 \
                and isinstance(body[i].targets[0], ast.Name):
            continue  # already the whole value of a temporary
        if not legal_site(body[i], path, node):
            continue
        new = ast.Assign(targets=[ast.Name(id=name, ctx=ast.Store())], value=node)
        ast.copy_location(new, body[i])
        ast.copy_location(new.targets[0], body[i])
        _set_at(body[i], path, ast.copy_location(ast.Name(id=name, ctx=ast.Load()), node))
        body.insert(i, new)
        k += 1
    return k


def reextract(fn, steps) -> int:
    """replay the reference's flattening steps backwards on a flat function"""
    n_done = 0
    for s in reversed(steps):
        if 'canon' in s:
            cands = [(body, i) for _, _, body in blocks(fn) for i, st in enumerate(body) if head_text(st) == s['host']]
            if len(cands) != 1:
                body = _find_block(fn, s['block'])
                cands = [(body, s['index'])] if body is not None and s['index'] < len(body) else []
            if cands and isinstance(cands[0][0][cands[0][1]], ast.AugAssign):
                body, i = cands[0]
                a = body[i]
                import copy
                load = copy.deepcopy(a.target)
                for x in ast.walk(load):
                    if hasattr(x, 'ctx'):
                        x.ctx = ast.Load()
                v = ast.BinOp(left=load, op=a.op, right=a.value) if s['canon'] == 'left' else \
                    ast.BinOp(left=a.value, op=a.op, right=load)
                body[i] = ast.copy_location(ast.Assign(targets=[a.target], value=ast.copy_location(v, a)), a)
                ast.fix_missing_locations(body[i])
            continue
        loads, stores, _ = _name_counts(fn)
        if s['name'] in loads or s['name'] in stores or s['name'] in {a.arg for a in ast.walk(fn.args) if isinstance(a, ast.arg)}:
            continue
        site = None
        # 1. by text
        cands = [(body, i) for _, _, body in blocks(fn) for i, st in enumerate(body) if head_text(st) == s['host']]
        if len(cands) == 1:
            body, i = cands[0]
            node = _follow(body[i], s['path'])
            if node is not None and isinstance(node, ast.expr) and _txt(node) == s['value']:
                site = (body, i, s['path'], node)
            else:
                same = [x for h in heads(body[i]) for x in ast.walk(h) if isinstance(x, ast.expr) and _txt(x) == s['value']]
                if len(same) == 1:
                    site = (body, i, _path_to(body[i], same[0]), same[0])
        # 2. by position
        if site is None:
            body = _find_block(fn, s['block'])
            if body is not None and s['index'] < len(body):
                node = _follow(body[s['index']], s['path'])
                if node is not None and isinstance(node, ast.expr) and _resembles(node, s):
                    site = (body, s['index'], s['path'], node)
        # 3. by resemblance: the statement of the same kind that has an expression of the recorded kind at the
        #    recorded path and whose text is closest to the reference host (the statement was edited)
        if site is None:
            import difflib
            scored = []
            for _, _, body in blocks(fn):
                for i, st in enumerate(body):
                    if type(st).__name__ != s['host'].split(':', 1)[0]:
                        continue
                    node = _follow(st, s['path'])
                    if node is None or not isinstance(node, ast.expr) or not _resembles(node, s):
                        continue
                    scored.append((difflib.SequenceMatcher(None, head_text(st), s['host']).ratio(), id(st), body, i, node))
            scored.sort(key=lambda t: -t[0])
            if scored and scored[0][0] >= 0.6 and (len(scored) == 1 or scored[0][0] - scored[1][0] > 0.05):
                _, _, body, i, node = scored[0]
                site = (body, i, s['path'], node)
        if site is None:
            continue
        body, i, path, node = site
        if not path or not legal_site(body[i], path, node):
            continue
        new = ast.Assign(targets=[ast.Name(id=s['name'], ctx=ast.Store())], value=node)
        ast.copy_location(new, body[i])
        ast.copy_location(new.targets[0], body[i])
        _set_at(body[i], path, ast.copy_location(ast.Name(id=s['name'], ctx=ast.Load()), node))
        body.insert(i, new)
        n_done += 1
    return n_done
