"""Program-level normalisation of *structural* maintenance (runs inside globalnorm.apply, before K / M / I).

Cross-cutting pull requests change where a definition lives and how values travel between functions without changing
what is computed.  Four such refactorings are undone here, each by an equivalence that holds for every input:

  D  definitions moved to another module.  A module-level function / class / constant that the reference has in file
     A, that file A now imports from a module B where the reference did not have it, is put back into A (the import
     in A is replaced by the definition, B imports it from A; names the definition needs from B's namespace are
     imported into A - a clash of meanings cancels the move).  A reference method that became a module-level function
     of another module is put back into its class (`self` / `cls` restored, bare calls inside the class go through
     `self.` again).
     The reverse - a reference module-level function that became a static / self-less method of a class of the same file -
     is undone likewise.
  B  new base classes.  `class K(B)` with K a reference class and B a class the reference does not have (a mixin
     extracted from K; no bases, no `__init__`, no `super()`): B's members that K does not define move into K, the base goes.
  X  new helpers kept in another module.  A function that the reference does not have, defined at module level in B
     and imported by name into A, is copied into A as a file-local function (same fix-up of free names); pass H
     (prenorm.py) then inlines it like any helper extracted in place.  The copy in B is dropped once nothing refers to it.
  T  record classes erased.  A class that the reference does not have and that is a plain record - `NamedTuple` or a
     `@dataclass` with annotated fields only, no methods - used only by construction, annotation and field reads, is
     the tuple of its fields: `X(a, b=..)` becomes the display `(a, b)`, `v.field` becomes `v[i]`, annotations become
     `tuple`.  Which expressions hold an X is found by a small flow-insensitive type inference (annotations, constructor
     calls, results of functions annotated `-> X`, elements of `list[X]`, loop / comprehension / lambda variables over
     those); a field read on an expression of unknown type is only rewritten when the field spelling is new to the
     program (then it cannot be anything else); otherwise the class is left alone.
  A  parameter objects dissolved.  A parameter annotated with an erased record, used in the callee only by field reads
     (or handed on whole), whose every call site in the program passes a display (or a name holding the record), is
     replaced by one parameter per field; call sites pass the elements.
  S  results read by field.  `r = f(..)` with f annotated `-> X` (X erased, n fields), r a local the reference function
     does not have and used only as `r[k]`, becomes `r_0, .., r_n-1 = f(..)` (prenorm.py, after H).

Anything that does not meet the stated conditions is left as written.  Nothing here executes repository code.
"""

from __future__ import annotations

import ast
import builtins
import copy

_BUILTINS = set(dir(builtins))

# side tables for the per-file passes (filled by apply)
ERASED: dict[str, list[str]] = {}          # record class -> field names
RETURNS: dict[str, str] = {}               # function name (unique in the program) -> erased record class it returns
INFO: dict = {}
PULLED: set = set()                         # (file, name) of helper copies pass X put into a file


# ------------------------------------------------------------------------------------------------ module namespaces

def _abs_module(modname: str, is_pkg: bool, node: ast.ImportFrom) -> str:
    if node.level:
        pkg = modname.split('.')
        base = pkg if is_pkg else pkg[:-1]
        base = base[: len(base) - (node.level - 1)]
        return '.'.join(base + ([node.module] if node.module else []))
    return node.module or ''


class _NS:
    """what the module-level names of one file mean"""

    def __init__(self, rel, modname, tree):
        self.rel, self.modname, self.tree = rel, modname, tree
        self.is_pkg = rel.endswith('__init__.py')
        self.refresh()

    def refresh(self):
        self.imports: dict[str, tuple[str, str | None]] = {}    # local -> (module, name) / (module, None)
        self.import_nodes: dict[str, tuple[ast.stmt, ast.alias]] = {}
        self.defs: dict[str, ast.stmt] = {}                       # def / class / single-name assignment
        self.multi: set[str] = set()
        for st in self.tree.body:
            if isinstance(st, ast.ImportFrom):
                mod = _abs_module(self.modname, self.is_pkg, st)
                for a in st.names:
                    self.imports[a.asname or a.name] = (mod, a.name)
                    self.import_nodes[a.asname or a.name] = (st, a)
            elif isinstance(st, ast.Import):
                for a in st.names:
                    loc = a.asname or a.name.split('.')[0]
                    self.imports[loc] = (a.name if a.asname else a.name.split('.')[0], None)
                    self.import_nodes[loc] = (st, a)
            elif isinstance(st, (ast.FunctionDef, ast.AsyncFunctionDef, ast.ClassDef)):
                if st.name in self.defs:
                    self.multi.add(st.name)
                self.defs[st.name] = st
            elif isinstance(st, ast.Assign) and len(st.targets) == 1 and isinstance(st.targets[0], ast.Name):
                if st.targets[0].id in self.defs:
                    self.multi.add(st.targets[0].id)
                self.defs[st.targets[0].id] = st
            elif isinstance(st, ast.AnnAssign) and isinstance(st.target, ast.Name) and st.value is not None:
                if st.target.id in self.defs:
                    self.multi.add(st.target.id)
                self.defs[st.target.id] = st
            else:
                for x in ast.walk(st):
                    if isinstance(x, ast.Name) and isinstance(x.ctx, ast.Store):
                        self.multi.add(x.id)

    def meaning(self, name):
        if name in self.defs and name not in self.multi:
            return (self.modname, name)
        if name in self.imports:
            return self.imports[name]
        return None

    def bound(self, name) -> bool:
        return name in self.defs or name in self.imports or name in self.multi


def _kind(st) -> str:
    return 'def' if isinstance(st, (ast.FunctionDef, ast.AsyncFunctionDef)) else 'class' if isinstance(st, ast.ClassDef) \
        else 'assign'


def toplevel(tree) -> dict[str, str]:
    """module-level names and how they are bound (for the reference)"""
    out = {}
    for st in tree.body:
        if isinstance(st, (ast.FunctionDef, ast.AsyncFunctionDef, ast.ClassDef)):
            out[st.name] = _kind(st)
        elif isinstance(st, ast.Assign) and len(st.targets) == 1 and isinstance(st.targets[0], ast.Name):
            out[st.targets[0].id] = 'assign'
        elif isinstance(st, ast.AnnAssign) and isinstance(st.target, ast.Name) and st.value is not None:
            out[st.target.id] = 'assign'
        elif isinstance(st, (ast.Import, ast.ImportFrom)):
            for a in st.names:
                out.setdefault((a.asname or a.name).split('.')[0], 'import')
    return out


def attribute_spellings(trees) -> set[str]:
    """spellings used after a dot, as class-level fields or as keyword names (for the reference)"""
    out = set()
    for t in trees:
        for x in ast.walk(t):
            if isinstance(x, ast.Attribute):
                out.add(x.attr)
            elif isinstance(x, ast.ClassDef):
                for st in x.body:
                    if isinstance(st, ast.AnnAssign) and isinstance(st.target, ast.Name):
                        out.add(st.target.id)
                    elif isinstance(st, ast.Assign):
                        out.update(y.id for tg in st.targets for y in ast.walk(tg) if isinstance(y, ast.Name))
                    elif isinstance(st, (ast.FunctionDef, ast.AsyncFunctionDef)):
                        out.add(st.name)
    return out


def _needed(node, src: _NS) -> set[str]:
    """module-level names of src that a definition reads (over-approximation: loaded names that are not parameters or
    locals of the definition itself)"""
    loads = {x.id for x in ast.walk(node) if isinstance(x, ast.Name) and isinstance(x.ctx, ast.Load)}
    own = set()
    if isinstance(node, (ast.FunctionDef, ast.AsyncFunctionDef)):
        from .alpha import function_locals
        own = function_locals(node) | {x.arg for x in ast.walk(node.args) if isinstance(x, ast.arg)}
    return {n for n in loads - _BUILTINS - own if src.bound(n)}


_BY_MOD: dict = {}


def _canon_meaning(m):
    """follow re-exports: (`pkg`, `X`) where pkg/__init__ imports X from pkg.mod is (`pkg.mod`, `X`)"""
    seen = set()
    while m is not None and m[1] is not None and m not in seen:
        seen.add(m)
        ns = _BY_MOD.get(m[0])
        if ns is None or (m[1] in ns.defs and m[1] not in ns.multi) or m[1] not in ns.imports:
            break
        m = ns.imports[m[1]]
    return m


def _plan_imports(node, src: _NS, dst: _NS, own_name: str):
    """imports dst needs so that `node` means in dst what it means in src; None when a name would change meaning"""
    add = []
    for g in sorted(_needed(node, src)):
        if g == own_name:
            continue
        want = src.meaning(g)
        if want is None:
            return None
        if dst.bound(g):
            have = dst.meaning(g)
            if have == want or _canon_meaning(have) == _canon_meaning(want):
                continue
            return None
        add.append((g, want))
    return add


def _add_imports(dst: _NS, add, lineno):
    for loc, (mod, name) in add:
        if mod == dst.modname and name is not None:
            continue
        if name is None:
            st = ast.Import(names=[ast.alias(name=mod, asname=loc if loc != mod.split('.')[0] else None)])
        else:
            st = ast.ImportFrom(module=mod, names=[ast.alias(name=name, asname=loc if loc != name else None)], level=0)
        st.lineno = st.end_lineno = lineno
        st.col_offset = st.end_col_offset = 0
        for a in st.names:
            a.lineno = a.end_lineno = lineno
            a.col_offset = a.end_col_offset = 0
        dst.tree.body.insert(0, st)
    dst.refresh()


def _drop_import(ns: _NS, local: str):
    st, a = ns.import_nodes[local]
    st.names.remove(a)
    if not st.names:
        ns.tree.body.remove(st)
    ns.refresh()


def _relocate_lines(node, tree):
    """give a transplanted definition line numbers after everything the file has (relative order kept)"""
    end = max((getattr(x, 'end_lineno', None) or getattr(x, 'lineno', 0) or 0 for x in ast.walk(tree)), default=0)
    first = min((getattr(x, 'lineno', None) or 10 ** 9 for x in ast.walk(node)), default=1)
    delta = end + 5 - first
    for x in ast.walk(node):
        if hasattr(x, 'lineno') and x.lineno is not None:
            x.lineno += delta
        if getattr(x, 'end_lineno', None) is not None:
            x.end_lineno += delta


def _name_refs(tree, name: str, skip=None) -> int:
    n = 0
    for x in ast.walk(tree):
        if x is skip:
            continue
        if isinstance(x, ast.Name) and x.id == name:
            n += 1
        elif isinstance(x, ast.Attribute) and x.attr == name:
            n += 1
        elif isinstance(x, ast.alias) and x.name == name:
            n += 1
    if skip is not None:
        for x in ast.walk(skip):
            if isinstance(x, ast.Name) and x.id == name:
                n -= 1
            elif isinstance(x, ast.Attribute) and x.attr == name:
                n -= 1
    return n


# ------------------------------------------------------------------------------------------------ N  new modules by name

def name_imports_of_new_modules(nss: dict[str, _NS], ref_top) -> list[str]:
    """`from pkg import mod` / `import pkg.mod as m` of a module the reference does not have, used as `mod.name`:
    the same program as `from pkg.mod import name` with `name` used directly (when `name` is free in the importing
    file and the module object is used for nothing else).  Passes D, X and K work on imports by name."""
    done = []
    for A in nss.values():
        for loc, (mod, name) in sorted(A.imports.items()):
            target = f'{mod}.{name}' if name is not None else mod
            B = _BY_MOD.get(target)
            if B is None or B is A or B.rel in ref_top:
                continue
            if name is None and loc != mod.split('.')[0] and False:
                continue
            if name is None and '.' in mod and loc == mod.split('.')[0]:
                continue      # `import pkg.mod` binds `pkg`: attribute chains, not handled
            # every use of the local name is `loc.attr` (load), never shadowed
            shadowed = False
            for x in ast.walk(A.tree):
                if isinstance(x, ast.arg) and x.arg == loc:
                    shadowed = True
                if isinstance(x, ast.Name) and x.id == loc and not isinstance(x.ctx, ast.Load):
                    shadowed = True
            if shadowed:
                continue
            par = {}
            for y in ast.walk(A.tree):
                for ch in ast.iter_child_nodes(y):
                    par[id(ch)] = y
            uses = [x for x in ast.walk(A.tree) if isinstance(x, ast.Name) and x.id == loc]
            attrs = []
            ok = True
            for u in uses:
                up = par.get(id(u))
                if isinstance(up, ast.Attribute) and up.value is u and isinstance(up.ctx, ast.Load) and up.attr in B.defs \
                        and up.attr not in B.multi:
                    attrs.append(up)
                else:
                    ok = False
            if not ok or not attrs:
                continue
            wanted = sorted({a.attr for a in attrs})
            taken = {x.id for x in ast.walk(A.tree) if isinstance(x, ast.Name)} | {x.arg for x in ast.walk(A.tree) if isinstance(x, ast.arg)} \
                | set(A.defs) | set(A.imports)
            if any(w in taken for w in wanted):
                continue
            for a in attrs:
                nm = a.attr
                a.__class__ = ast.Name
                del a.value, a.attr
                a.id = nm
                a.ctx = ast.Load()
            _drop_import(A, loc)
            _add_imports(A, [(w, (B.modname, w)) for w in wanted], 1)
            done.append(f'{A.rel}: {loc}.{{{", ".join(wanted)}}}')
    return done



# ------------------------------------------------------------------------------------------------ D  moved definitions

def restore_moved_definitions(nss: dict[str, _NS], ref_top: dict[str, dict[str, str]], moved: dict | None = None) -> list[str]:
    by_mod = {ns.modname: ns for ns in nss.values()}
    done = []
    for ra, names in ref_top.items():
        A = nss.get(ra)
        if A is None:
            continue
        for n, kind in sorted(names.items()):
            if kind == 'import' or (n in A.defs) or n in A.multi:
                continue
            imp = A.imports.get(n)
            if imp is None or imp[1] != n:
                continue
            B = by_mod.get(imp[0])
            if B is None or B is A or n not in B.defs or n in B.multi:
                continue
            if ref_top.get(B.rel, {}).get(n) in ('def', 'class', 'assign'):
                continue      # B had it all along
            node = B.defs[n]
            if _kind(node) != kind:
                continue
            add = _plan_imports(node, B, A, n)
            if add is None:
                continue
            # move
            B.tree.body.remove(node)
            stub = ast.ImportFrom(module=A.modname, names=[ast.alias(name=n, asname=None)], level=0)
            ast.copy_location(stub, node)
            stub.end_lineno = stub.lineno
            B.tree.body.insert(0, stub)
            B.refresh()
            _drop_import(A, n)
            _relocate_lines(node, A.tree)
            A.tree.body.append(node)
            A.refresh()
            _add_imports(A, add, 1)
            if moved is not None:
                moved.pop((ra, n), None)
            done.append(f'{B.rel}:{n} -> {ra}')
    return done


def restore_moved_methods(nss: dict[str, _NS], moved: dict, R: dict) -> list[str]:
    """(ra, 'K.m') -> (rb, 'm') with rb another file: put m back into class K"""
    done = []
    srcs = R.get('__src__', {})
    for (ra, qa), (rb, qb) in list(moved.items()):
        if ra == rb or '.' not in qa or '.' in qb or qa.count('.') != 1:
            continue
        A, B = nss.get(ra), nss.get(rb)
        if A is None or B is None or qb not in B.defs or qb in B.multi:
            continue
        cname, mname = qa.split('.')
        K = A.defs.get(cname)
        if not isinstance(K, ast.ClassDef) or mname != qb:
            continue
        node = B.defs[qb]
        if not isinstance(node, ast.FunctionDef) or node.decorator_list:
            continue
        imp = A.imports.get(qb)
        if imp is None or imp != (B.modname, qb):
            continue
        try:
            refdef = ast.parse(srcs.get(ra, {}).get(qa, '')).body[0]
        except (SyntaxError, IndexError):
            continue
        rdecs = {d.id for d in refdef.decorator_list if isinstance(d, ast.Name)}
        if any(not isinstance(d, ast.Name) for d in refdef.decorator_list) or rdecs - {'staticmethod', 'classmethod'}:
            continue
        rparams = [x.arg for x in refdef.args.posonlyargs + refdef.args.args]
        cparams = [x.arg for x in node.args.posonlyargs + node.args.args]
        recv = None
        if 'staticmethod' in rdecs:
            pass
        elif rparams and rparams[0] in ('self', 'cls') and not (cparams and cparams[0] == rparams[0]):
            recv = rparams[0]
            if recv in {x.id for x in ast.walk(node) if isinstance(x, ast.Name)}:
                continue
        else:
            continue
        add = _plan_imports(node, B, A, qb)
        if add is None:
            continue
        # other files that use B's function keep it there
        elsewhere = sum(_name_refs(ns.tree, qb) for ns in nss.values() if ns is not A and ns is not B)
        if elsewhere == 0 and _name_refs(B.tree, qb, node) == 0:
            B.tree.body.remove(node)
            B.refresh()
        else:
            node = copy.deepcopy(node)
        _drop_import(A, qb)
        if recv:
            arg = ast.arg(arg=recv, annotation=None)
            ast.copy_location(arg, node)
            node.args.args.insert(0, arg)
        node.decorator_list = [copy.deepcopy(d) for d in refdef.decorator_list]
        for d in node.decorator_list:
            for x in ast.walk(d):
                ast.copy_location(x, node)
        _relocate_lines(node, A.tree)
        K.body.append(node)
        # bare calls inside the class go through the receiver again
        for fn in K.body:
            if not isinstance(fn, (ast.FunctionDef, ast.AsyncFunctionDef)) or fn is node:
                continue
            decs = {d.id for d in fn.decorator_list if isinstance(d, ast.Name)}
            first = fn.args.args[0].arg if fn.args.args else None
            if 'staticmethod' in decs or first is None:
                base = ast.Name(id=cname, ctx=ast.Load()) if 'staticmethod' in rdecs else None
            else:
                base = ast.Name(id=first, ctx=ast.Load())
            if base is None:
                continue
            for x in ast.walk(fn):
                if isinstance(x, ast.Call) and isinstance(x.func, ast.Name) and x.func.id == qb:
                    new = ast.Attribute(value=copy.deepcopy(base), attr=qb, ctx=ast.Load())
                    ast.copy_location(new, x.func)
                    ast.copy_location(new.value, x.func)
                    x.func = new
        # calls outside the class
        for st in A.tree.body:
            if st is K:
                continue
            for x in ast.walk(st):
                if isinstance(x, ast.Call) and isinstance(x.func, ast.Name) and x.func.id == qb and 'staticmethod' in rdecs:
                    new = ast.Attribute(value=ast.Name(id=cname, ctx=ast.Load()), attr=qb, ctx=ast.Load())
                    ast.copy_location(new, x.func)
                    ast.copy_location(new.value, x.func)
                    x.func = new
        A.refresh()
        _add_imports(A, add, 1)
        del moved[(ra, qa)]
        done.append(f'{rb}:{qb} -> {ra}:{qa}')
    return done


def restore_methodised_functions(nss: dict[str, _NS], moved: dict) -> list[str]:
    """(ra, 'f') -> (ra, 'K.f'): a reference module-level function that became a (static or self-less) method of a class
    of the same file is a module-level function again; calls through `self.` / `cls.` / `K.` are plain calls again"""
    done = []
    for (ra, qa), (rb, qb) in list(moved.items()):
        if ra != rb or '.' in qa or qb.count('.') != 1:
            continue
        A = nss.get(ra)
        if A is None or qa in A.defs or A.bound(qa):
            continue
        cname, mname = qb.split('.')
        K = A.defs.get(cname)
        if not isinstance(K, ast.ClassDef) or mname != qa:
            continue
        node = next((x for x in K.body if isinstance(x, ast.FunctionDef) and x.name == mname), None)
        if node is None:
            continue
        decs = [d.id if isinstance(d, ast.Name) else None for d in node.decorator_list]
        params = [x.arg for x in node.args.posonlyargs + node.args.args]
        if decs == ['staticmethod']:
            drop = None
        elif not decs and params and params[0] in ('self', 'cls') and \
                params[0] not in {x.id for x in ast.walk(node) if isinstance(x, ast.Name)}:
            drop = params[0]
        elif decs == ['classmethod'] and params and params[0] not in {x.id for x in ast.walk(node) if isinstance(x, ast.Name)}:
            drop = params[0]
        else:
            continue
        # every reference in the program is a call through the class or an instance inside the class
        ok = True
        sites = []
        for ns in nss.values():
            par = {}
            for y in ast.walk(ns.tree):
                for ch in ast.iter_child_nodes(y):
                    par[id(ch)] = y
            for x in ast.walk(ns.tree):
                if isinstance(x, ast.Attribute) and x.attr == mname:
                    up = par.get(id(x))
                    if isinstance(up, ast.Call) and up.func is x and isinstance(x.value, ast.Name) and \
                            (x.value.id in ('self', 'cls', cname)) and ns is A:
                        sites.append(up)
                    else:
                        ok = False
                elif isinstance(x, ast.Name) and x.id == mname:
                    ok = False
        if not ok:
            continue
        K.body.remove(node)
        if not K.body:
            K.body.append(ast.copy_location(ast.Pass(), node))
        node.decorator_list = []
        if drop:
            node.args.args = [a for a in node.args.args if a.arg != drop]
        for call in sites:
            call.func = ast.copy_location(ast.Name(id=mname, ctx=ast.Load()), call.func)
        _relocate_lines(node, A.tree)
        A.tree.body.append(node)
        A.refresh()
        del moved[(ra, qa)]
        done.append(f'{ra}:{qb} -> {qa}')
    return done



# ------------------------------------------------------------------------------------------------ B  new base classes

def flatten_new_bases(nss: dict[str, _NS], ref_top, ref_bound: set[str]) -> list[str]:
    """class K(B, ...) where K is a reference class and B is a class the reference does not have (a mixin / base
    extracted from K): attribute lookup on K finds B's members right after K's own, so moving the members K does not
    define itself into K and dropping the base leaves every lookup as it was.  Needs: B first among the bases (or
    after marker bases only), B without bases, decorators, metaclass, `__init__` / `__init_subclass__` / `__new__`
    / `__slots__`, and no `super()` in B (its meaning would change)."""
    by_mod = {ns.modname: ns for ns in nss.values()}
    done = []
    markers = {'ABC', 'Generic', 'Protocol', 'object'}
    for A in nss.values():
        for K in [st for st in A.tree.body if isinstance(st, ast.ClassDef)]:
            if ref_top.get(A.rel, {}).get(K.name) != 'class':
                continue
            for bi, b in enumerate(list(K.bases)):
                if not isinstance(b, ast.Name) or b.id in ref_bound:
                    continue
                earlier = K.bases[:bi]
                if any(not ((isinstance(e, ast.Name) and e.id in markers) or
                            (isinstance(e, ast.Subscript) and isinstance(e.value, ast.Name) and e.value.id in markers))
                       for e in earlier):
                    continue
                # where is B?
                src = A
                Bn = A.defs.get(b.id)
                if Bn is None and b.id in A.imports and A.imports[b.id][1] == b.id:
                    src = by_mod.get(A.imports[b.id][0])
                    Bn = src.defs.get(b.id) if src is not None else None
                if not isinstance(Bn, ast.ClassDef) or Bn.bases or Bn.keywords or Bn.decorator_list:
                    continue
                names = set()
                ok = True
                for st in Bn.body:
                    if isinstance(st, (ast.FunctionDef, ast.AsyncFunctionDef)):
                        names.add(st.name)
                    elif isinstance(st, ast.Assign) and all(isinstance(t, ast.Name) for t in st.targets):
                        names.update(t.id for t in st.targets)
                    elif isinstance(st, ast.AnnAssign) and isinstance(st.target, ast.Name):
                        names.add(st.target.id)
                    elif isinstance(st, ast.Expr) and isinstance(st.value, ast.Constant):
                        pass
                    elif isinstance(st, ast.Pass):
                        pass
                    else:
                        ok = False
                if not ok or names & {'__init__', '__init_subclass__', '__new__', '__slots__', '__class_getitem__',
                                      '__set_name__'}:
                    continue
                if any(isinstance(x, ast.Call) and isinstance(x.func, ast.Name) and x.func.id == 'super' for x in ast.walk(Bn)):
                    continue
                if any(isinstance(x, ast.Name) and x.id == '__class__' for x in ast.walk(Bn)):
                    continue
                add = []
                if src is not A:
                    add = _plan_imports(Bn, src, A, b.id)
                    if add is None:
                        continue
                own = set()
                for st in K.body:
                    if isinstance(st, (ast.FunctionDef, ast.AsyncFunctionDef, ast.ClassDef)):
                        own.add(st.name)
                    elif isinstance(st, ast.Assign):
                        own.update(t.id for t in st.targets if isinstance(t, ast.Name))
                    elif isinstance(st, ast.AnnAssign) and isinstance(st.target, ast.Name):
                        own.add(st.target.id)
                # other users of B keep it
                users = 0
                for ns in nss.values():
                    for x in ast.walk(ns.tree):
                        if isinstance(x, ast.Name) and x.id == b.id and x is not b:
                            users += 1
                moved_in = []
                for st in Bn.body:
                    if isinstance(st, (ast.Expr, ast.Pass)):
                        continue
                    nm = {st.name} if isinstance(st, (ast.FunctionDef, ast.AsyncFunctionDef)) else \
                        {t.id for t in st.targets} if isinstance(st, ast.Assign) else {st.target.id}
                    if nm & own:
                        continue
                    cp = copy.deepcopy(st)
                    _relocate_lines(cp, A.tree)
                    K.body.append(cp)
                    moved_in.append(sorted(nm)[0])
                K.bases.remove(b)
                if users == 0:
                    src.tree.body.remove(Bn)
                    if not src.tree.body:
                        src.tree.body.append(ast.Pass(lineno=1, col_offset=0, end_lineno=1, end_col_offset=0))
                    src.refresh()
                    if src is not A and b.id in A.imports:
                        _drop_import(A, b.id)
                A.refresh()
                if add:
                    _add_imports(A, add, 1)
                done.append(f'{src.rel}:{b.id} into {A.rel}:{K.name} ({", ".join(moved_in)})')
    return done



# ------------------------------------------------------------------------------------------------ X  imported new helpers

def pull_new_helpers(nss: dict[str, _NS], ref_top, ref_funcs, changed: set[str]) -> list[str]:
    from . import prenorm
    by_mod = {ns.modname: ns for ns in nss.values()}
    done = []
    pulled: dict[tuple[str, str], int] = {}
    for _ in range(5):
        progress = False
        for A in nss.values():
            if not ref_funcs.get(A.rel):
                continue        # a file the reference does not have holds no reference function to inline into
            for loc, (mod, name) in sorted(A.imports.items()):
                if name is None or loc != name:
                    continue
                B = by_mod.get(mod)
                if B is None or B is A or name in B.multi:
                    continue
                node = B.defs.get(name)
                if not isinstance(node, ast.FunctionDef) or node.decorator_list:
                    continue
                if ref_top.get(B.rel, {}).get(name) == 'def' or name in (ref_funcs.get(B.rel) or []):
                    continue
                if (B.rel, name) in changed:
                    continue      # a reference function that moved here (pass M): it goes back, it is not inlined
                if not prenorm._eligible_helper(node):
                    continue
                # only worth it where A calls it from a function the reference has
                add = _plan_imports(node, B, A, name)
                if add is None:
                    continue
                cp = copy.deepcopy(node)
                _drop_import(A, name)
                _relocate_lines(cp, A.tree)
                A.tree.body.append(cp)
                A.refresh()
                _add_imports(A, add, 1)
                pulled[(B.rel, name)] = pulled.get((B.rel, name), 0) + 1
                PULLED.add((A.rel, name))
                done.append(f'{B.rel}:{name} => {A.rel}')
                progress = True
        if not progress:
            break
    # the original is dropped when nothing else refers to it
    for (rb, name) in pulled:
        B = nss[rb]
        node = B.defs.get(name)
        if node is None:
            continue
        others = sum(_name_refs(ns.tree, name) for ns in nss.values() if ns is not B)
        # copies pulled into importers are definitions of their own
        copies = sum(1 for ns in nss.values() if ns is not B and name in ns.defs)
        inside_copies = 0
        for ns in nss.values():
            if ns is not B and name in ns.defs:
                pass
        if _name_refs(B.tree, name, node) == 0 and _external_uses(nss, B, name) == 0:
            B.tree.body.remove(node)
            if not B.tree.body:
                B.tree.body.append(ast.Pass(lineno=1, col_offset=0, end_lineno=1, end_col_offset=0))
            B.refresh()
    return done


def _external_uses(nss, B: _NS, name: str) -> int:
    """files other than B that still take `name` from B (by import, or through the module object)"""
    n = 0
    for ns in nss.values():
        if ns is B:
            continue
        imp = ns.imports.get(name)
        if imp == (B.modname, name):
            n += 1
        for loc, (mod, nm) in ns.imports.items():
            if (nm is None and mod == B.modname) or (nm is not None and f'{mod}.{nm}' == B.modname):
                # `import pkg.b` / `from pkg import b` then b.name
                for x in ast.walk(ns.tree):
                    if isinstance(x, ast.Attribute) and x.attr == name:
                        n += 1
            if nm == '*' and mod == B.modname:
                n += 1
    return n


# ------------------------------------------------------------------------------------------------ T  record erasure

def _is_namedtuple_base(b) -> bool:
    return (isinstance(b, ast.Name) and b.id == 'NamedTuple') or (isinstance(b, ast.Attribute) and b.attr == 'NamedTuple')


def _is_dataclass_dec(d) -> bool:
    f = d.func if isinstance(d, ast.Call) else d
    return (isinstance(f, ast.Name) and f.id == 'dataclass') or (isinstance(f, ast.Attribute) and f.attr == 'dataclass')


def _simple_default(e) -> bool:
    if isinstance(e, ast.Constant):
        return True
    if isinstance(e, ast.UnaryOp) and isinstance(e.operand, ast.Constant):
        return True
    if isinstance(e, ast.Attribute):      # enum member / module constant
        return isinstance(e.value, (ast.Name, ast.Attribute))
    if isinstance(e, ast.Name):
        return True
    return False


def record_fields(cls: ast.ClassDef):
    """[(field, default or None)] when cls is a plain record, else None"""
    nt = len(cls.bases) == 1 and _is_namedtuple_base(cls.bases[0]) and not cls.decorator_list and not cls.keywords
    dc = not cls.bases and len(cls.decorator_list) == 1 and _is_dataclass_dec(cls.decorator_list[0]) and not cls.keywords
    if not (nt or dc):
        return None
    if dc and isinstance(cls.decorator_list[0], ast.Call):
        for k in cls.decorator_list[0].keywords:
            if k.arg not in ('frozen', 'slots', 'eq', 'repr', 'kw_only', 'order') or not isinstance(k.value, ast.Constant):
                return None
            if k.arg in ('eq', 'repr') and k.value.value is not True:
                return None
    fields = []
    for i, st in enumerate(cls.body):
        if isinstance(st, ast.Expr) and isinstance(st.value, ast.Constant) and isinstance(st.value.value, str):
            continue
        if isinstance(st, ast.Pass):
            continue
        if isinstance(st, ast.AnnAssign) and isinstance(st.target, ast.Name) and st.simple:
            if 'ClassVar' in ast.unparse(st.annotation):
                return None
            if st.value is not None and not _simple_default(st.value):
                return None
            fields.append((st.target.id, st.value))
            continue
        if _simple_property(st) is not None:
            continue
        return None
    if not fields or len({f for f, _ in fields}) != len(fields):
        return None
    return fields


def _simple_property(st):
    """the returned expression of `@property def p(self): return <effect-free expression>`, else None"""
    from . import prenorm
    if not isinstance(st, ast.FunctionDef) or len(st.decorator_list) != 1:
        return None
    d = st.decorator_list[0]
    if not (isinstance(d, ast.Name) and d.id == 'property'):
        return None
    a = st.args
    if len(a.args) != 1 or a.posonlyargs or a.kwonlyargs or a.vararg or a.kwarg:
        return None
    body = [b for i, b in enumerate(st.body)
            if not (i == 0 and isinstance(b, ast.Expr) and isinstance(b.value, ast.Constant) and isinstance(b.value.value, str))]
    if len(body) != 1 or not isinstance(body[0], ast.Return) or body[0].value is None:
        return None
    e = body[0].value
    if not prenorm._effect_free(e):
        return None
    me = a.args[0].arg
    # `self` only as the base of an attribute read
    par = {}
    for y in ast.walk(e):
        for ch in ast.iter_child_nodes(y):
            par[id(ch)] = y
    for x in ast.walk(e):
        if isinstance(x, ast.Name) and x.id == me:
            up = par.get(id(x))
            if not (isinstance(up, ast.Attribute) and up.value is x and isinstance(up.ctx, ast.Load)):
                return None
    return (me, e)


def record_properties(cls: ast.ClassDef) -> dict:
    return {st.name: _simple_property(st) for st in cls.body if _simple_property(st) is not None}


def _cheap_base(e) -> bool:
    if isinstance(e, ast.Name):
        return True
    if isinstance(e, ast.Attribute):
        return _cheap_base(e.value)
    if isinstance(e, ast.Subscript):
        return _cheap_base(e.value) and isinstance(e.slice, ast.Constant)
    return False


def _expand_property(base, cname, pname, props, idx, depth=0):
    """the property's expression with `self.field` read off `base`"""
    me, e = props[cname][pname]
    e = copy.deepcopy(e)

    class Tr(ast.NodeTransformer):
        def visit_Attribute(self, n):
            if isinstance(n.value, ast.Name) and n.value.id == me:
                if n.attr in idx[cname]:
                    return ast.Subscript(value=copy.deepcopy(base), slice=ast.Constant(value=idx[cname][n.attr]), ctx=ast.Load())
                if n.attr in props[cname] and depth < 4:
                    return _expand_property(base, cname, n.attr, props, idx, depth + 1)
                raise KeyError(n.attr)
            self.generic_visit(n)
            return n
    out = Tr().visit(e)
    for x in ast.walk(out):
        ast.copy_location(x, base)
    return out


def _dbg(*a):
    import os
    import sys
    if os.environ.get('AEIC_VERIF_DEBUG') == '1':
        print('structnorm:', *a, file=sys.stderr)


class _Why(set):
    """the disqualified records, with the line of this file that disqualified each (AEIC_VERIF_DEBUG=1 prints them)"""
    why: dict

    def add(self, x, depth=1):
        import os
        import sys
        if isinstance(x, (set, frozenset)):
            for y in x:
                self.add(y, depth + 1)
            return
        if x is None:
            return
        if os.environ.get('AEIC_VERIF_DEBUG') == '1' and x not in self:
            print('structnorm: record', x, 'kept as a class: rule at line', sys._getframe(depth).f_lineno, file=sys.stderr)
        super().add(x)

    def update(self, xs):
        for x in list(xs):
            self.add(x, 2)


class _Types:
    """flow-insensitive inference of which expressions hold a candidate record (or a sequence / mapping of them)"""

    def __init__(self, cands: dict[str, list], trees: dict[str, ast.Module]):
        self.cands = cands
        self.trees = trees
        self.func_returns: dict[str, object] = {}
        self.field_types: dict[str, dict[str, object]] = {}
        self.class_attrs: dict[str, dict[str, object]] = {}
        self.module_vars: dict[str, dict[str, object]] = {}
        defs: dict[str, list] = {}
        self.defs = defs
        for t in trees.values():
            for x in ast.walk(t):
                if isinstance(x, (ast.FunctionDef, ast.AsyncFunctionDef)):
                    defs.setdefault(x.name, []).append(x)
        for name, ds in list(defs.items()):
            if len(ds) > 1:
                dumps = {ast.dump(d) for d in ds}
                if len(dumps) == 1:
                    defs[name] = ds[:1]       # the copies pass X made of one helper
        for name, ds in defs.items():
            if len(ds) == 1 and ds[0].returns is not None:
                ty = self.ann(ds[0].returns)
                if ty is not None:
                    self.func_returns[name] = ty
            elif len(ds) > 1 and all(d.returns is not None for d in ds):
                # an abstract method and its overrides: one annotation for all
                tys = {repr(self.ann(d.returns)) for d in ds}
                ty = self.ann(ds[0].returns)
                if len(tys) == 1 and ty is not None:
                    self.func_returns[name] = ty
        # functions without annotation whose every return is a constructor call
        for name, ds in defs.items():
            if len(ds) == 1 and name not in self.func_returns:
                rets = [r for r in _own_returns(ds[0])]
                tys = {self._ctor(r.value) for r in rets if r.value is not None}
                if rets and len(tys) == 1 and None not in tys and all(r.value is not None for r in rets):
                    self.func_returns[name] = tys.pop()
        for rel, t in trees.items():
            for x in ast.walk(t):
                if isinstance(x, ast.ClassDef) and x.name in cands:
                    self.field_types[x.name] = {st.target.id: self.ann(st.annotation) for st in x.body
                                                if isinstance(st, ast.AnnAssign) and isinstance(st.target, ast.Name)}
                if isinstance(x, ast.ClassDef):
                    d = self.class_attrs.setdefault(x.name, {})
                    for st in x.body:
                        if isinstance(st, ast.AnnAssign) and isinstance(st.target, ast.Name):
                            ty = self.ann(st.annotation)
                            if ty is not None:
                                d[st.target.id] = ty
                    for y in ast.walk(x):
                        if isinstance(y, ast.AnnAssign) and isinstance(y.target, ast.Attribute) and \
                                isinstance(y.target.value, ast.Name) and y.target.value.id == 'self':
                            ty = self.ann(y.annotation)
                            if ty is not None:
                                d[y.target.attr] = ty
            mv = self.module_vars.setdefault(rel, {})
            for st in t.body:
                if isinstance(st, ast.AnnAssign) and isinstance(st.target, ast.Name):
                    ty = self.ann(st.annotation)
                    if ty is not None:
                        mv[st.target.id] = ty

    def _ctor(self, e):
        if isinstance(e, ast.Call) and isinstance(e.func, ast.Name) and e.func.id in self.cands:
            return e.func.id
        return None

    def ann(self, a):
        """type named by an annotation: 'X' | ('seq', X) | ('map', X) | None"""
        if a is None:
            return None
        if isinstance(a, ast.Constant) and isinstance(a.value, str):
            try:
                return self.ann(ast.parse(a.value, mode='eval').body)
            except SyntaxError:
                return None
        if isinstance(a, ast.Name):
            return a.id if a.id in self.cands else None
        if isinstance(a, ast.Attribute):
            return a.attr if a.attr in self.cands else None
        if isinstance(a, ast.BinOp) and isinstance(a.op, ast.BitOr):
            l, r = self.ann(a.left), self.ann(a.right)
            none_l = isinstance(a.left, ast.Constant) and a.left.value is None
            none_r = isinstance(a.right, ast.Constant) and a.right.value is None
            if none_r:
                return l
            if none_l:
                return r
            return l if l == r else None
        if isinstance(a, ast.Subscript):
            head = a.value.attr if isinstance(a.value, ast.Attribute) else a.value.id if isinstance(a.value, ast.Name) else ''
            sl = a.slice
            if head == 'Optional':
                return self.ann(sl)
            if head in ('list', 'List', 'Sequence', 'Iterable', 'Iterator', 'Collection', 'set', 'Set', 'frozenset',
                        'deque', 'MutableSequence', 'Generator'):
                inner = sl.elts[0] if isinstance(sl, ast.Tuple) and sl.elts else sl
                ty = self.ann(inner)
                return ('seq', ty) if ty is not None else None
            if head in ('tuple', 'Tuple'):
                if isinstance(sl, ast.Tuple) and len(sl.elts) == 2 and isinstance(sl.elts[1], ast.Constant) \
                        and sl.elts[1].value is Ellipsis:
                    ty = self.ann(sl.elts[0])
                    return ('seq', ty) if isinstance(ty, str) else None
                parts = sl.elts if isinstance(sl, ast.Tuple) else [sl]
                tys = tuple(self.ann(x) for x in parts)
                return ('tup', tys) if any(t is not None for t in tys) else None
            if head in ('dict', 'Dict', 'Mapping', 'MutableMapping', 'defaultdict', 'OrderedDict'):
                if isinstance(sl, ast.Tuple) and len(sl.elts) == 2:
                    ty = self.ann(sl.elts[1])
                    return ('map', ty) if isinstance(ty, str) else None
        return None

    # -- per function
    def env_of(self, fn, cls_name, rel, outer=None):
        env = dict(outer or {})
        a = fn.args
        for x in a.posonlyargs + a.args + a.kwonlyargs:
            ty = self.ann(x.annotation)
            if ty is not None:
                env[x.arg] = ty
            else:
                env.pop(x.arg, None)
        self._cls, self._rel = cls_name, rel
        # names that start as an empty list / set / deque: what is put into them says what they hold
        empties = set()
        for x in _scope_nodes(fn):
            if isinstance(x, ast.Assign) and len(x.targets) == 1 and isinstance(x.targets[0], ast.Name):
                v = x.value
                if (isinstance(v, (ast.List, ast.Set)) and not v.elts) or \
                        (isinstance(v, ast.Call) and isinstance(v.func, ast.Name) and v.func.id in ('list', 'set', 'deque')
                         and not v.args):
                    empties.add(x.targets[0].id)
        for _ in range(3):
            for x in _scope_nodes(fn):
                if isinstance(x, ast.AnnAssign) and isinstance(x.target, ast.Name):
                    ty = self.ann(x.annotation)
                    if ty is not None:
                        env[x.target.id] = ty
                elif isinstance(x, ast.Assign):
                    ty = self.typeof(x.value, env)
                    for t in x.targets:
                        if isinstance(t, ast.Name) and ty is not None:
                            env.setdefault(t.id, ty)
                        elif isinstance(t, (ast.Tuple, ast.List)) and isinstance(x.value, (ast.Tuple, ast.List)) \
                                and len(t.elts) == len(x.value.elts):
                            for tt, vv in zip(t.elts, x.value.elts):
                                tv = self.typeof(vv, env)
                                if isinstance(tt, ast.Name) and tv is not None:
                                    env.setdefault(tt.id, tv)
                        elif isinstance(t, (ast.Tuple, ast.List)) and isinstance(ty, tuple) and ty[0] == 'tup' \
                                and len(ty[1]) == len(t.elts):
                            for tt, tv in zip(t.elts, ty[1]):
                                if isinstance(tt, ast.Name) and tv is not None:
                                    env.setdefault(tt.id, tv)
                elif isinstance(x, ast.NamedExpr) and isinstance(x.target, ast.Name):
                    ty = self.typeof(x.value, env)
                    if ty is not None:
                        env.setdefault(x.target.id, ty)
                elif isinstance(x, (ast.For, ast.AsyncFor)):
                    self._bind_iter(x.target, x.iter, env)
                elif isinstance(x, ast.comprehension):
                    self._bind_iter(x.target, x.iter, env)
                elif isinstance(x, ast.Call) and isinstance(x.func, ast.Attribute) and isinstance(x.func.value, ast.Name) \
                        and x.func.attr in ('append', 'add', 'extend', 'insert', 'appendleft') and x.args \
                        and x.func.value.id in empties and x.func.value.id not in env:
                    tv = self.typeof(x.args[-1], env)
                    if x.func.attr == 'extend':
                        if isinstance(tv, tuple) and tv[0] == 'seq':
                            env[x.func.value.id] = tv
                    elif isinstance(tv, str):
                        env[x.func.value.id] = ('seq', tv)
                elif isinstance(x, ast.AugAssign) and isinstance(x.op, ast.Add) and isinstance(x.target, ast.Name) \
                        and x.target.id in empties and x.target.id not in env:
                    tv = self.typeof(x.value, env)
                    if isinstance(tv, tuple) and tv[0] == 'seq':
                        env[x.target.id] = tv
                elif isinstance(x, ast.withitem) and isinstance(x.optional_vars, ast.Name):
                    pass
        return env

    def _bind_iter(self, target, it, env):
        ty = self.typeof(it, env)
        if isinstance(ty, tuple) and ty[0] == 'tup' and len(set(ty[1])) == 1 and ty[1][0] is not None:
            ty = ('seq', ty[1][0])
        if isinstance(target, ast.Name):
            if isinstance(ty, tuple) and ty[0] == 'seq':
                env.setdefault(target.id, ty[1])
            return
        if isinstance(target, (ast.Tuple, ast.List)) and isinstance(ty, tuple) and ty[0] == 'seq' and \
                isinstance(ty[1], tuple) and ty[1][0] == 'tup' and len(ty[1][1]) == len(target.elts):
            for tt, tv in zip(target.elts, ty[1][1]):
                if isinstance(tt, ast.Name) and tv is not None:
                    env.setdefault(tt.id, tv)
            return
        if isinstance(target, (ast.Tuple, ast.List)) and isinstance(it, ast.Call) and isinstance(it.func, ast.Name):
            if it.func.id == 'enumerate' and it.args and len(target.elts) == 2:
                self._bind_iter(target.elts[1], it.args[0], env)
            elif it.func.id == 'zip' and len(it.args) == len(target.elts):
                for t, a in zip(target.elts, it.args):
                    self._bind_iter(t, a, env)
        if isinstance(target, (ast.Tuple, ast.List)) and isinstance(it, ast.Call) and isinstance(it.func, ast.Attribute) \
                and it.func.attr == 'items' and len(target.elts) == 2:
            tm = self.typeof(it.func.value, env)
            if isinstance(tm, tuple) and tm[0] == 'map' and isinstance(target.elts[1], ast.Name):
                env.setdefault(target.elts[1].id, tm[1])

    def typeof(self, e, env):
        if isinstance(e, ast.Name):
            if e.id in env:
                return env[e.id]
            return self.module_vars.get(self._rel, {}).get(e.id)
        if isinstance(e, ast.Call):
            c = self._ctor(e)
            if c:
                return c
            f = e.func
            fname = f.id if isinstance(f, ast.Name) else f.attr if isinstance(f, ast.Attribute) else None
            if isinstance(f, ast.Name) and f.id in ('sorted', 'list', 'tuple', 'reversed', 'iter', 'set', 'frozenset') and e.args:
                ty = self.typeof(e.args[0], env)
                return ty if isinstance(ty, tuple) and ty[0] == 'seq' else None
            if isinstance(f, ast.Name) and f.id in ('min', 'max', 'next') and e.args:
                ty = self.typeof(e.args[0], env)
                return ty[1] if isinstance(ty, tuple) and ty[0] == 'seq' else None
            if isinstance(f, ast.Attribute) and f.attr in ('get', 'pop', 'setdefault'):
                tm = self.typeof(f.value, env)
                if isinstance(tm, tuple) and tm[0] == 'map':
                    return tm[1]
                if isinstance(tm, tuple) and tm[0] == 'seq' and f.attr == 'pop':
                    return tm[1]
            if isinstance(f, ast.Attribute) and f.attr == 'values':
                tm = self.typeof(f.value, env)
                if isinstance(tm, tuple) and tm[0] == 'map':
                    return ('seq', tm[1])
            if isinstance(f, ast.Attribute) and f.attr == 'copy':
                return self.typeof(f.value, env)
            if fname in self.func_returns:
                return self.func_returns[fname]
            return None
        if isinstance(e, ast.Subscript):
            tb = self.typeof(e.value, env)
            if isinstance(tb, tuple) and tb[0] == 'tup':
                if isinstance(e.slice, ast.Constant) and isinstance(e.slice.value, int) and \
                        -len(tb[1]) <= e.slice.value < len(tb[1]):
                    return tb[1][e.slice.value]
                return None
            if isinstance(tb, tuple):
                if isinstance(e.slice, ast.Slice):
                    return tb if tb[0] == 'seq' else None
                return tb[1]
            return None
        if isinstance(e, ast.Tuple) and e.elts and not any(isinstance(x, ast.Starred) for x in e.elts):
            tys = tuple(self.typeof(x, env) for x in e.elts)
            return ('tup', tys) if any(t is not None for t in tys) else None
        if isinstance(e, (ast.List, ast.Set)) and e.elts:
            tys = {self.typeof(x, env) for x in e.elts}
            if len(tys) == 1:
                ty = tys.pop()
                if isinstance(ty, str):
                    return ('seq', ty)
            return None
        if isinstance(e, (ast.ListComp, ast.SetComp, ast.GeneratorExp)):
            env2 = dict(env)
            for g in e.generators:
                self._bind_iter(g.target, g.iter, env2)
            ty = self.typeof(e.elt, env2)
            return ('seq', ty) if isinstance(ty, str) else None
        if isinstance(e, ast.IfExp):
            a, b = self.typeof(e.body, env), self.typeof(e.orelse, env)
            if isinstance(e.orelse, ast.Constant) and e.orelse.value is None:
                return a
            if isinstance(e.body, ast.Constant) and e.body.value is None:
                return b
            return a if a == b else None
        if isinstance(e, ast.BoolOp):
            tys = {self.typeof(v, env) for v in e.values}
            return tys.pop() if len(tys) == 1 else None
        if isinstance(e, ast.Attribute):
            if isinstance(e.value, ast.Name) and e.value.id in ('self', 'cls') and self._cls:
                return self.class_attrs.get(self._cls, {}).get(e.attr)
            tb = self.typeof(e.value, env)
            if isinstance(tb, str):
                return self.field_types.get(tb, {}).get(e.attr)
            return None
        if isinstance(e, ast.NamedExpr):
            return self.typeof(e.value, env)
        if isinstance(e, ast.BinOp) and isinstance(e.op, ast.Add):
            a, b = self.typeof(e.left, env), self.typeof(e.right, env)
            if isinstance(a, tuple) and a[0] == 'seq' and (a == b or (isinstance(e.right, (ast.List, ast.Tuple)) and not e.right.elts)):
                return a
            if isinstance(b, tuple) and b[0] == 'seq' and isinstance(e.left, (ast.List, ast.Tuple)) and not e.left.elts:
                return b
            return None
        if isinstance(e, ast.Await):
            return self.typeof(e.value, env)
        return None


def _own_returns(fn):
    stack = list(fn.body)
    while stack:
        x = stack.pop()
        if isinstance(x, ast.Return):
            yield x
        if isinstance(x, (ast.FunctionDef, ast.AsyncFunctionDef, ast.ClassDef, ast.Lambda)):
            continue
        stack.extend(ast.iter_child_nodes(x))


def _scope_nodes(fn):
    """nodes of the function in source order, nested function scopes not entered (lambdas and comprehensions are)"""
    out = []

    def rec(n):
        for c in ast.iter_child_nodes(n):
            if isinstance(c, (ast.FunctionDef, ast.AsyncFunctionDef, ast.ClassDef)):
                out.append(c)
                continue
            out.append(c)
            rec(c)
    rec(fn)
    return out


def _annotation_nodes(tree) -> set[int]:
    ids = set()

    def mark(a):
        if a is not None:
            for x in ast.walk(a):
                ids.add(id(x))
    for x in ast.walk(tree):
        if isinstance(x, ast.arg):
            mark(x.annotation)
        elif isinstance(x, (ast.FunctionDef, ast.AsyncFunctionDef)):
            mark(x.returns)
        elif isinstance(x, ast.AnnAssign):
            mark(x.annotation)
    return ids


_KEY_FUNCS = {'sorted', 'min', 'max'}


def erase_records(nss: dict[str, _NS], ref_ids: set[str], ref_bound: set[str], ref_attrs: set[str] | None = None):
    ref_attrs = ref_ids if ref_attrs is None else ref_attrs
    trees = {ns.rel: ns.tree for ns in nss.values()}
    cands: dict[str, list] = {}
    where: dict[str, tuple[_NS, ast.ClassDef]] = {}
    seen = {}
    for ns in nss.values():
        for st in ns.tree.body:
            if isinstance(st, ast.ClassDef):
                seen[st.name] = seen.get(st.name, 0) + 1
    for ns in nss.values():
        for st in ns.tree.body:
            if isinstance(st, ast.ClassDef) and st.name not in ref_bound and st.name not in ref_ids and seen[st.name] == 1:
                fs = record_fields(st)
                if fs:
                    cands[st.name] = fs
                    where[st.name] = (ns, st)
    if not cands:
        return {}, None
    ty = _Types(cands, trees)
    _PARAM_TYPES.clear()
    for ns in nss.values():
        for x in ast.walk(ns.tree):
            if isinstance(x, ast.arg) and isinstance(x.annotation, ast.Name) and x.annotation.id in cands:
                _PARAM_TYPES[id(x)] = x.annotation.id
    bad = _Why()
    field_owner: dict[str, set[str]] = {}
    for c, fs in cands.items():
        for f, _ in fs:
            field_owner.setdefault(f, set()).add(c)
    idx = {c: {f: i for i, (f, _) in enumerate(fs)} for c, fs in cands.items()}
    props = {c: record_properties(where[c][1]) for c in cands}
    prop_rewrites = []
    rewrites = []     # (attribute node, class)
    ctor_calls = []   # (call node, class)
    starred_ctors = []
    ann_names = []    # Name / Attribute nodes inside annotations
    import_aliases = []

    for ns in nss.values():
        tree = ns.tree
        ann_ids = _annotation_nodes(tree)
        parents = {}
        for n in ast.walk(tree):
            for ch in ast.iter_child_nodes(n):
                parents[id(ch)] = n
        # a record that another class declares as the type of a field keeps its identity (pydantic / dataclass
        # machinery gives the annotation meaning, and the field's mutability is the class's own)
        for k in ast.walk(tree):
            if isinstance(k, ast.ClassDef) and k.name not in cands:
                for st in k.body:
                    if isinstance(st, ast.AnnAssign):
                        for y in ast.walk(st.annotation):
                            if isinstance(y, ast.Name) and y.id in cands:
                                bad.add(y.id)
                            elif isinstance(y, ast.Constant) and isinstance(y.value, str):
                                for c in cands:
                                    if c in y.value:
                                        bad.add(c)
        # class name uses
        for x in ast.walk(tree):
            if isinstance(x, ast.Name) and x.id in cands:
                if id(x) in ann_ids:
                    ann_names.append(x)
                    continue
                par = parents.get(id(x))
                if isinstance(par, ast.Call) and par.func is x:
                    if len(par.args) == 1 and isinstance(par.args[0], ast.Starred) and not par.keywords:
                        starred_ctors.append((par, x.id))      # X(*e) is tuple(e)
                        continue
                    if any(isinstance(a, ast.Starred) for a in par.args) or any(k.arg is None for k in par.keywords):
                        bad.add(x.id)
                    ctor_calls.append((par, x.id))
                    continue
                if isinstance(par, ast.ClassDef):
                    bad.add(x.id)
                    continue
                bad.add(x.id)
            elif isinstance(x, ast.Attribute) and x.attr in cands and not (id(x) in ann_ids):
                bad.add(x.attr)
            elif isinstance(x, ast.Constant) and isinstance(x.value, str) and id(x) in ann_ids:
                for c in cands:
                    if c in x.value:
                        ann_names.append(x)
            elif isinstance(x, ast.alias) and x.name in cands:
                import_aliases.append((ns, x))
            elif isinstance(x, ast.MatchClass):
                for y in ast.walk(x.cls):
                    if isinstance(y, ast.Name) and y.id in cands:
                        bad.add(y.id)
        # field reads, and the closed-world check: every expression that holds a record (or a sequence / mapping of
        # records) is used only in ways the inference follows, so an expression it gives no type cannot hold one
        def recs_of(t):
            if isinstance(t, str):
                return {t}
            if isinstance(t, tuple) and t[0] == 'tup':
                out = set()
                for x in t[1]:
                    out |= recs_of(x)
                return out
            if isinstance(t, tuple):
                return recs_of(t[1])
            return set()

        class _R(frozenset):
            pass

        def rec_of(t):
            rs = recs_of(t)
            return next(iter(rs)) if len(rs) == 1 else _R(rs)

        def visit_fn(fn, cls_name, outer_env):
            env = ty.env_of(fn, cls_name, ns.rel, outer_env)
            lam_env = {}
            nodes = _scope_nodes(fn)
            fn_ret = ty.func_returns.get(getattr(fn, 'name', None))
            # lambda parameters of key functions
            for x in nodes:
                if isinstance(x, ast.Call):
                    keyl = [k.value for k in x.keywords if k.arg == 'key' and isinstance(k.value, ast.Lambda)]
                    if not keyl:
                        continue
                    seq = None
                    if isinstance(x.func, ast.Name) and x.func.id in _KEY_FUNCS and x.args:
                        seq = ty.typeof(x.args[0], env)
                    elif isinstance(x.func, ast.Attribute) and x.func.attr == 'sort':
                        seq = ty.typeof(x.func.value, env)
                    if isinstance(seq, tuple) and seq[0] == 'seq' and len(keyl[0].args.args) == 1:
                        lam_env[id(keyl[0])] = {keyl[0].args.args[0].arg: seq[1]}

            def T(e, env_):
                ty._cls, ty._rel = cls_name, ns.rel
                return ty.typeof(e, env_)

            def check_use(c, t, par, env_, in_lambda):
                """c holds t (a record / seq / map of records) and is a child of par: is the use one we follow?"""
                r = rec_of(t)
                if isinstance(par, ast.Attribute) and par.value is c:
                    if isinstance(t, str):
                        if par.attr in idx[t]:
                            if not isinstance(par.ctx, ast.Load):
                                bad.add(t)
                            rewrites.append((par, t))
                        elif par.attr in props[t] and isinstance(par.ctx, ast.Load) and _cheap_base(c):
                            prop_rewrites.append((par, t))
                        else:
                            _dbg('other attribute of a record', ns.rel, getattr(c, 'lineno', 0), ast.unparse(par))
                            bad.add(t)
                    return
                if isinstance(par, ast.Subscript) and par.value is c:
                    return
                if isinstance(par, (ast.Assign, ast.AnnAssign, ast.NamedExpr)) and par.value is c:
                    tgts = par.targets if isinstance(par, ast.Assign) else [par.target]
                    for tg in tgts:
                        if isinstance(tg, ast.Name):
                            if env_.get(tg.id, ty.module_vars.get(ns.rel, {}).get(tg.id)) != t:
                                _dbg('assigned to a name of another type', ns.rel, getattr(c, 'lineno', 0), ast.unparse(tg))
                                bad.add(r)
                        elif isinstance(tg, (ast.Tuple, ast.List)) and isinstance(t, str):
                            pass
                        elif isinstance(tg, (ast.Tuple, ast.List)) and isinstance(t, tuple) and t[0] == 'tup' and \
                                len(tg.elts) == len(t[1]) and all(
                                    tv is None or (isinstance(tt, ast.Name) and env_.get(tt.id) == tv)
                                    for tt, tv in zip(tg.elts, t[1])):
                            pass
                        elif isinstance(tg, ast.Attribute) and T(tg, env_) == t:
                            pass
                        elif isinstance(tg, ast.Subscript) and rec_of(T(tg.value, env_)) == r and isinstance(t, str):
                            pass
                        else:
                            _dbg('stored where it is not followed', ns.rel, getattr(c, 'lineno', 0), ast.unparse(tg))
                            bad.add(r)
                    return
                if isinstance(par, ast.AugAssign) and par.value is c:
                    tg = par.target
                    tt = env_.get(tg.id) if isinstance(tg, ast.Name) else T(tg, env_)
                    if not (isinstance(par.op, ast.Add) and isinstance(t, tuple) and tt == t):
                        bad.add(r)
                    return
                if isinstance(par, ast.BinOp) and isinstance(par.op, ast.Add) and isinstance(t, tuple):
                    other = par.right if par.left is c else par.left
                    to = T(other, env_)
                    if to != t and not (isinstance(other, (ast.List, ast.Tuple)) and not other.elts):
                        bad.add(r)
                    return
                if isinstance(par, ast.Return):
                    if in_lambda:
                        return
                    if fn_ret != t:
                        _dbg('returned from a function of another type', ns.rel, getattr(c, 'lineno', 0), getattr(fn, 'name', '?'))
                        bad.add(r)
                    return
                if isinstance(par, ast.Lambda) and par.body is c:
                    _dbg('returned from a lambda', ns.rel, getattr(c, 'lineno', 0))
                    bad.add(r)
                    return
                if isinstance(par, (ast.Compare, ast.BoolOp, ast.IfExp, ast.If, ast.While, ast.Assert, ast.Expr)):
                    if isinstance(par, ast.Compare):
                        others = [par.left] + par.comparators
                        if not all(o is c or (isinstance(o, ast.Constant) and o.value is None) or T(o, env_) == t for o in others):
                            bad.add(r)      # compared with a value that is not a record: tuple equality differs
                    return
                if isinstance(par, ast.UnaryOp) and isinstance(par.op, ast.Not):
                    return
                if isinstance(par, (ast.For, ast.AsyncFor, ast.comprehension)) and par.iter is c:
                    return
                if isinstance(par, ast.Tuple):
                    if any(isinstance(x, ast.Starred) for x in par.elts):
                        bad.add(r)
                    return        # the display has a type of its own and is checked where it is used
                if isinstance(par, (ast.List, ast.Set)) and isinstance(t, str):
                    if T(par, env_) != ('seq', t):
                        bad.add(r)
                    return
                if isinstance(par, ast.Starred) and isinstance(t, str):
                    up = parents.get(id(par))
                    if isinstance(up, ast.Call) and par in up.args:
                        return    # the fields as positional arguments: plain values
                    if isinstance(up, (ast.Tuple, ast.List)) and isinstance(getattr(up, 'ctx', None), ast.Load):
                        return
                    bad.add(r)
                    return
                if isinstance(par, (ast.ListComp, ast.SetComp, ast.GeneratorExp)) and par.elt is c and isinstance(t, str):
                    return          # the comprehension is typed seq and checked where it is used
                if isinstance(par, ast.keyword):
                    return 'arg'
                if isinstance(par, ast.Call) and c in par.args:
                    return 'arg'
                if isinstance(par, ast.Call) and par.func is c:
                    bad.add(r)
                    return
                _dbg('use not followed', ns.rel, getattr(c, 'lineno', 0), type(par).__name__, ast.unparse(c))
                bad.add(r)

            def check_arg(c, t, call, kw, env_):
                r = rec_of(t)
                f = call.func
                if isinstance(f, ast.Name) and f.id in cands:
                    # a record inside a record: the field must be declared to hold it
                    fl = [x for x, _ in cands[f.id]]
                    name = kw.arg if kw is not None else (fl[call.args.index(c)] if call.args.index(c) < len(fl) else None)
                    if name is None or ty.field_types.get(f.id, {}).get(name) != t:
                        bad.add(r)
                        bad.add(f.id)
                    return
                if isinstance(f, ast.Attribute) and isinstance(f.value, ast.Name) and \
                        f.value.id in ('logger', 'log', '_logger', '_log', 'LOGGER', 'LOG', 'logging', 'warnings') and \
                        f.attr in ('debug', 'info', 'warning', 'warn', 'error', 'exception', 'critical', 'log'):
                    return        # only the text of a diagnostic depends on it
                if isinstance(f, ast.Name) and f.id in ('len', 'sorted', 'list', 'tuple', 'reversed', 'enumerate', 'zip', 'iter',
                                                        'next', 'min', 'max', 'bool', 'any', 'all', 'set', 'frozenset'):
                    return
                if isinstance(f, ast.Attribute) and f.attr in ('append', 'add', 'insert', 'extend', 'appendleft', 'index',
                                                               'count', 'remove', 'update', 'setdefault') \
                        and rec_of(T(f.value, env_)) == r:
                    return
                fname = f.id if isinstance(f, ast.Name) else f.attr if isinstance(f, ast.Attribute) else None
                ds = ty.defs.get(fname, [])
                if len(ds) != 1:
                    _dbg('passed to a function that is not followed', ns.rel, getattr(c, 'lineno', 0), ast.unparse(f))
                    bad.add(r)
                    return
                d = ds[0]
                a = d.args
                params = a.posonlyargs + a.args
                if kw is not None:
                    cand = [x for x in params + a.kwonlyargs if x.arg == kw.arg]
                else:
                    i = call.args.index(c)
                    shift = 1 if isinstance(f, ast.Attribute) and params and params[0].arg in ('self', 'cls') and \
                        not (isinstance(f.value, ast.Name) and f.value.id[:1].isupper()) else 0
                    cand = params[i + shift:i + shift + 1]
                if not cand or ty.ann(cand[0].annotation) != t:
                    _dbg('passed to a parameter of another type', ns.rel, getattr(c, 'lineno', 0), ast.unparse(f))
                    bad.add(r)

            def scan(n, env_, in_lambda=False):
                for c in ast.iter_child_nodes(n):
                    if isinstance(c, (ast.FunctionDef, ast.AsyncFunctionDef)):
                        visit_fn(c, cls_name, env_)
                        continue
                    if isinstance(c, ast.ClassDef):
                        continue
                    e2, il = env_, in_lambda
                    if isinstance(c, ast.Lambda):
                        e2 = dict(env_)
                        for a in c.args.args + c.args.kwonlyargs:
                            e2.pop(a.arg, None)
                        e2.update(lam_env.get(id(c), {}))
                        il = True
                    if isinstance(c, (ast.ListComp, ast.SetComp, ast.GeneratorExp, ast.DictComp)):
                        e2 = dict(env_)
                        ty._cls, ty._rel = cls_name, ns.rel
                        for g in c.generators:
                            ty._bind_iter(g.target, g.iter, e2)
                    if isinstance(c, ast.expr) and not isinstance(getattr(c, 'ctx', None), (ast.Store, ast.Del)) \
                            and id(c) not in ann_ids:
                        t = T(c, e2 if not isinstance(c, (ast.ListComp, ast.SetComp, ast.GeneratorExp)) else env_)
                        if t is not None:
                            # the lambda whose body this is, is a key function: its value is only compared
                            if isinstance(n, ast.Lambda) and n.body is c and id(n) in lam_env:
                                pass
                            else:
                                res = check_use(c, t, n, e2, il)
                                if res == 'arg':
                                    call = n if isinstance(n, ast.Call) else parents.get(id(n))
                                    check_arg(c, t, call, n if isinstance(n, ast.keyword) else None, e2)
                    if isinstance(c, ast.Name) and isinstance(c.ctx, ast.Store) and isinstance(n, ast.Assign):
                        # a name that holds a record is only ever given records (or None)
                        t = e2.get(c.id)
                        if t is not None and n.value is not None:
                            tv = T(n.value, e2)
                            empty = (isinstance(n.value, (ast.List, ast.Set, ast.Tuple)) and not n.value.elts) or \
                                (isinstance(n.value, ast.Call) and isinstance(n.value.func, ast.Name)
                                 and n.value.func.id in ('list', 'set', 'deque', 'tuple') and not n.value.args)
                            if tv != t and not (isinstance(n.value, ast.Constant) and n.value.value is None) and \
                                    not (empty and isinstance(t, tuple)):
                                _dbg('record name given another value', ns.rel, getattr(c, 'lineno', 0), c.id)
                                bad.add(rec_of(t))
                    if isinstance(c, (ast.JoinedStr, ast.Yield, ast.YieldFrom)):
                        for y in ast.iter_child_nodes(c):
                            v = y.value if isinstance(y, ast.FormattedValue) else y
                            if isinstance(v, ast.expr):
                                tv = T(v, e2)
                                if tv is not None:
                                    bad.add(rec_of(tv))
                    scan(c, e2, il)
            scan(fn, env)

        def top(body, cls_name):
            for st in body:
                if isinstance(st, (ast.FunctionDef, ast.AsyncFunctionDef)):
                    visit_fn(st, cls_name, {})
                elif isinstance(st, ast.ClassDef):
                    if st.name not in cands:
                        top(st.body, st.name)
                else:
                    # module / class level statements: treat as a parameterless function body
                    holder = ast.FunctionDef(name='<module>', args=ast.arguments(posonlyargs=[], args=[], kwonlyargs=[],
                                             kw_defaults=[], defaults=[]), body=[st], decorator_list=[], returns=None)
                    visit_fn(holder, cls_name, {})
        top(ns.tree.body, None)

    # an unknown-typed old spelling disqualified the record; rewrites of disqualified classes are dropped
    done = {}
    for c in cands:
        if c in bad:
            continue
        fs = cands[c]
        ok = True
        # constructor calls must be complete
        plans = []
        for call, cc in ctor_calls:
            if cc != c:
                continue
            vals = [None] * len(fs)
            if len(call.args) > len(fs):
                ok = False
                break
            for i, a in enumerate(call.args):
                vals[i] = a
            for k in call.keywords:
                if k.arg not in idx[c] or vals[idx[c][k.arg]] is not None:
                    ok = False
                    break
                vals[idx[c][k.arg]] = k.value
            if not ok:
                break
            for i, v in enumerate(vals):
                if v is None:
                    if fs[i][1] is None:
                        ok = False
                        break
                    vals[i] = copy.deepcopy(fs[i][1])
                    for x in ast.walk(vals[i]):
                        ast.copy_location(x, call)
            if not ok:
                break
            plans.append((call, vals))
        if not ok:
            continue
        # apply
        for call, vals in plans:
            tup = ast.Tuple(elts=vals, ctx=ast.Load())
            ast.copy_location(tup, call)
            call.__class__ = ast.Tuple
            for f in ('func', 'args', 'keywords'):
                if hasattr(call, f):
                    delattr(call, f)
            call.elts = vals
            call.ctx = ast.Load()
        for call, cc in starred_ctors:
            if cc != c:
                continue
            call.func = ast.copy_location(ast.Name(id='tuple', ctx=ast.Load()), call.func)
            call.args = [call.args[0].value]
        for node, cc in prop_rewrites:
            if cc != c:
                continue
            try:
                new = _expand_property(node.value, c, node.attr, props, idx)
            except KeyError:
                continue
            node.__class__ = new.__class__
            node.__dict__.clear()
            node.__dict__.update(new.__dict__)
        for node, cc in rewrites:
            if cc != c or not isinstance(node, ast.Attribute):
                continue
            base = node.value
            i = idx[c][node.attr]
            node.__class__ = ast.Subscript
            del node.attr
            node.value = base
            node.slice = ast.copy_location(ast.Constant(value=i), base)
            node.ctx = ast.Load()
        ns, cls = where[c]
        ns.tree.body.remove(cls)
        if not ns.tree.body:
            ns.tree.body.append(ast.Pass(lineno=1, col_offset=0, end_lineno=1, end_col_offset=0))
        done[c] = [f for f, _ in fs]
    if done:
        for x in ann_names:
            if isinstance(x, ast.Name) and x.id in done:
                x.id = 'tuple'
            elif isinstance(x, ast.Constant) and isinstance(x.value, str):
                v = x.value
                for c in done:
                    v = v.replace(c, 'tuple')
                x.value = v
        for ns, al in import_aliases:
            if al.name in done:
                for st in list(ns.tree.body):
                    if isinstance(st, ast.ImportFrom) and al in st.names:
                        st.names.remove(al)
                        if not st.names:
                            ns.tree.body.remove(st)
        for ns in nss.values():
            ns.refresh()
        # results of functions annotated with an erased record (for pass S)
        for name, t in ty.func_returns.items():
            if isinstance(t, str) and t in done:
                RETURNS[name] = t
    return done, ty


# ------------------------------------------------------------------------------------------------ A  parameter objects

def dissolve_parameter_objects(nss: dict[str, _NS], erased: dict[str, list[str]], param_types: dict) -> list[str]:
    """param_types: id(arg node) -> record class, collected before the annotations were rewritten"""
    done = []
    all_defs: dict[str, list] = {}
    for ns in nss.values():
        for x in ast.walk(ns.tree):
            if isinstance(x, (ast.FunctionDef, ast.AsyncFunctionDef)):
                all_defs.setdefault(x.name, []).append((ns, x))
    for fname, ds in sorted(all_defs.items()):
        if len(ds) != 1:
            continue
        ns, fn = ds[0]
        a = fn.args
        if a.vararg or a.kwarg or a.posonlyargs:
            continue
        for arg in list(a.args + a.kwonlyargs):
            c = param_types.get(id(arg))
            if c is None or c not in erased:
                continue
            if _dissolve_one(nss, ns, fn, arg, erased[c]):
                done.append(f'{ns.rel}:{fn.name}({arg.arg})')
    return done


def _is_method(ns: _NS, fn) -> str | None:
    for st in ast.walk(ns.tree):
        if isinstance(st, ast.ClassDef) and fn in st.body:
            decs = {d.id for d in fn.decorator_list if isinstance(d, ast.Name)}
            if 'staticmethod' in decs:
                return 'static'
            return 'method'
    return None


def _dissolve_one(nss, ns: _NS, fn, arg, fields: list[str]) -> bool:
    a = fn.args
    p = arg.arg
    n = len(fields)
    kwonly = arg in a.kwonlyargs
    # no default on p
    if not kwonly:
        pos = a.args.index(arg)
        if pos >= len(a.args) - len(a.defaults):
            return False
    else:
        pos = None
        if a.kw_defaults[a.kwonlyargs.index(arg)] is not None:
            return False
    # uses of p in the callee
    parents = {}
    for x in ast.walk(fn):
        for ch in ast.iter_child_nodes(x):
            parents[id(ch)] = x
    reads, whole, unpack = [], [], []
    for x in ast.walk(fn):
        if isinstance(x, ast.Name) and x.id == p:
            if not isinstance(x.ctx, ast.Load):
                return False
            par = parents.get(id(x))
            if isinstance(par, ast.Assign) and par.value is x and len(par.targets) == 1 and \
                    isinstance(par.targets[0], (ast.Tuple, ast.List)) and len(par.targets[0].elts) == n and \
                    all(isinstance(t, ast.Name) for t in par.targets[0].elts) and par in fn.body:
                unpack.append(par)
            elif isinstance(par, ast.Subscript) and par.value is x and isinstance(par.ctx, ast.Load) \
                    and isinstance(par.slice, ast.Constant) and isinstance(par.slice.value, int) \
                    and 0 <= par.slice.value < n:
                reads.append(par)
            elif isinstance(par, ast.Call) and x in par.args:
                whole.append(x)
            elif isinstance(par, ast.keyword) and par.value is x:
                whole.append(x)
            else:
                return False
        elif isinstance(x, (ast.FunctionDef, ast.AsyncFunctionDef, ast.Lambda)) and x is not fn:
            if any(y.arg == p for y in ast.walk(x.args) if isinstance(y, ast.arg)):
                return False
    # call sites in the program
    kind = _is_method(ns, fn)
    sites = []
    for other in nss.values():
        for x in ast.walk(other.tree):
            if isinstance(x, ast.Name) and x.id == fn.name:
                par = None
                # find the parent cheaply
                pass
        op = {}
        for y in ast.walk(other.tree):
            for ch in ast.iter_child_nodes(y):
                op[id(ch)] = y
        for x in ast.walk(other.tree):
            hit = (isinstance(x, ast.Name) and x.id == fn.name) or (isinstance(x, ast.Attribute) and x.attr == fn.name)
            if not hit:
                continue
            par = op.get(id(x))
            if isinstance(par, ast.Call) and par.func is x:
                if any(isinstance(z, ast.Starred) for z in par.args) or any(k.arg is None for k in par.keywords):
                    return False
                sites.append((par, isinstance(x, ast.Attribute)))
            elif isinstance(x, ast.Name) and isinstance(x.ctx, ast.Store):
                return False
            else:
                return False
        for x in ast.walk(other.tree):
            if isinstance(x, ast.alias) and x.name == fn.name:
                pass     # imports by name are fine
    plans = []
    for call, via_attr in sites:
        shift = 0
        if kind == 'method' and via_attr:
            # bound call: the receiver fills the first parameter - unless the call goes through the class
            recv = call.func.value
            if isinstance(recv, ast.Name) and recv.id[:1].isupper() and recv.id not in ('self', 'cls'):
                shift = 0
            else:
                shift = 1
        val = None
        where = None
        if pos is not None and pos - shift < len(call.args) and pos - shift >= 0:
            val, where = call.args[pos - shift], ('pos', pos - shift)
        else:
            for k in call.keywords:
                if k.arg == p:
                    val, where = k.value, ('kw', k)
        if val is None:
            return False
        if isinstance(val, ast.Tuple) and len(val.elts) == n and not any(isinstance(e, ast.Starred) for e in val.elts):
            elts = val.elts
        elif isinstance(val, ast.Name):
            elts = [ast.copy_location(ast.Subscript(value=ast.copy_location(ast.Name(id=val.id, ctx=ast.Load()), val),
                                                     slice=ast.copy_location(ast.Constant(value=i), val), ctx=ast.Load()), val)
                    for i in range(n)]
        else:
            return False
        plans.append((call, where, elts))
    # names for the new parameters
    taken = {x.id for x in ast.walk(fn) if isinstance(x, ast.Name)} | {x.arg for x in ast.walk(fn.args) if isinstance(x, ast.arg)}
    taken.discard(p)
    names = []
    if len(unpack) > 1:
        return False
    if unpack:
        # `a, b = p` at the top of the body, a and b bound nowhere else: a and b are the parameters
        tn = [t.id for t in unpack[0].targets[0].elts]
        stores = [x.id for x in ast.walk(fn) if isinstance(x, ast.Name) and not isinstance(x.ctx, ast.Load)]
        if len(set(tn)) != n or any(stores.count(t) != 1 for t in tn) or \
                any(y.arg in tn for y in ast.walk(fn.args) if isinstance(y, ast.arg)):
            return False
        names = tn
    else:
        for f in fields:
            nm = f if f not in taken and f not in names else f'{p}_{f}'
            if nm in taken or nm in names:
                return False
            names.append(nm)
    # rewrite the callee
    for st in unpack:
        fn.body.remove(st)
        if not fn.body:
            fn.body.append(ast.copy_location(ast.Pass(), st))
    for x in whole:
        par = parents.get(id(x))
        tup = ast.Tuple(elts=[ast.copy_location(ast.Name(id=nm, ctx=ast.Load()), x) for nm in names], ctx=ast.Load())
        ast.copy_location(tup, x)
        if isinstance(par, ast.Call):
            par.args[par.args.index(x)] = tup
        else:
            par.value = tup
    for sub in reads:
        nm = names[sub.slice.value]
        sub.__class__ = ast.Name
        for f in ('value', 'slice'):
            delattr(sub, f)
        sub.id = nm
        sub.ctx = ast.Load()
    # `L = <new parameter>` at the top level of the body, L bound nowhere else and not a parameter: L is the parameter
    for _ in range(len(names)):
        changed = False
        allstores = [x.id for x in ast.walk(fn) if isinstance(x, ast.Name) and not isinstance(x.ctx, ast.Load)]
        pnames = {y.arg for y in ast.walk(fn.args) if isinstance(y, ast.arg)} - {p}
        for st in list(fn.body):
            pairs = []
            if isinstance(st, ast.Assign) and len(st.targets) == 1:
                t, v = st.targets[0], st.value
                if isinstance(t, ast.Name) and isinstance(v, ast.Name):
                    pairs = [(t, v)]
                elif isinstance(t, ast.Tuple) and isinstance(v, ast.Tuple) and len(t.elts) == len(v.elts) and \
                        all(isinstance(a_, ast.Name) for a_ in t.elts) and all(isinstance(b_, ast.Name) for b_ in v.elts):
                    pairs = list(zip(t.elts, v.elts))
            if not pairs or not all(v.id in names and allstores.count(t.id) == 1 and t.id not in pnames and t.id not in names
                                    and allstores.count(v.id) == 0 for t, v in pairs):
                continue
            if len({v.id for _, v in pairs}) != len(pairs) or len({t.id for t, _ in pairs}) != len(pairs):
                continue
            mp = {v.id: t.id for t, v in pairs}
            fn.body.remove(st)
            for x in ast.walk(fn):
                if isinstance(x, ast.Name) and x.id in mp:
                    x.id = mp[x.id]
            names = [mp.get(nm, nm) for nm in names]
            changed = True
            break
        if not changed:
            break
    if not fn.body:
        fn.body.append(ast.copy_location(ast.Pass(), fn))
    new_args = [ast.copy_location(ast.arg(arg=nm, annotation=None), arg) for nm in names]
    if kwonly:
        i = a.kwonlyargs.index(arg)
        a.kwonlyargs[i:i + 1] = new_args
        a.kw_defaults[i:i + 1] = [None] * n
    else:
        i = a.args.index(arg)
        a.args[i:i + 1] = new_args
    # rewrite the call sites
    for call, where, elts in plans:
        if where[0] == 'pos':
            j = where[1]
            # later positional arguments keep their places
            call.args[j:j + 1] = elts
        else:
            k = where[1]
            j = call.keywords.index(k)
            call.keywords[j:j + 1] = [ast.copy_location(ast.keyword(arg=nm, value=e), k) for nm, e in zip(names, elts)]
    return True


# ------------------------------------------------------------------------------------------------ entry point

def apply(files, R: dict, moved: dict | None = None) -> dict:
    """files: [(rel, modname, tree, src)]; called by globalnorm.apply after the rename pass"""
    global ERASED, RETURNS, INFO
    ERASED, RETURNS = {}, {}
    PULLED.clear()
    info = {}
    nss = {rel: _NS(rel, mod, tree) for rel, mod, tree, _ in files}
    _BY_MOD.clear()
    _BY_MOD.update({ns.modname: ns for ns in nss.values()})
    ref_top = R.get('__toplevel__') or {}
    ref_funcs = R.get('__funcs__', {})
    ref_ids = set(R.get('__idents__', []))
    ref_bound = set(R.get('__bound__', []))
    if ref_top:
        info['by_name'] = name_imports_of_new_modules(nss, ref_top)
        info['moved_back'] = restore_moved_definitions(nss, ref_top, moved)
        if moved:
            info['methods_back'] = restore_moved_methods(nss, moved, R)
            info['functions_back'] = restore_methodised_functions(nss, moved)
        info['bases_flattened'] = flatten_new_bases(nss, ref_top, ref_bound)
        keep = {(rb, qb) for (_, _), (rb, qb) in (moved or {}).items()}
        info['pulled'] = pull_new_helpers(nss, ref_top, ref_funcs, keep)
        if moved:
            # a moved function that only a pulled helper refers to is imported into the file now
            again = restore_moved_methods(nss, moved, R) + restore_moved_definitions(nss, ref_top, moved)
            if again:
                info['moved_back_after_pull'] = again
    done, _ = erase_records(nss, ref_ids, ref_bound, set(R['__attrs__']) if '__attrs__' in R else None)
    if done:
        ERASED = done
        info['erased'] = sorted(done)
        info['dissolved'] = dissolve_parameter_objects(nss, done, _PARAM_TYPES)
    INFO = info
    return info


_PARAM_TYPES: dict = {}
