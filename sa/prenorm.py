"""Reference-guided pre-normalisation of a changed file (runs before alpha / temps).

Three behaviour-preserving refactorings are undone here, because rules are written against the functions the
reference tree has:

  L  logging: `logger.debug(...)` / `logger.info(...)` expression statements are dropped (the logging module
     swallows formatting and handler errors; a diagnostic line has no effect the properties talk about).
  H  extracted helpers: a function that the reference tree does not have (new name in this file), private to the
     file, is inlined at its call sites inside the file - parameters bound to the arguments, early returns turned
     into if/else, the result bound to the call's target - and its definition is dropped once nothing refers to it.
     The callers are then compared with the reference like any other edited function.
  Q  new properties: `@property def p(self): return <expression over self.attributes, no calls>` that the reference
     class does not have is opened at its reads `self.p` inside the class.
  U  unrolled loops: a `for` over a literal display of up to four stable operands that the reference function does
     not have (no break / continue / else, no closures) is unrolled with per-iteration names; V substitutes them.
  V  hoisted values: a local that the reference function does not have, bound exactly once by `v = E` with E free
     of effects, is substituted into its uses when nothing between the binding and the uses can change what E
     reads (no rebinding of a name in E; no store, mutating call or - for attributes that the file mutates
     somewhere outside constructors - any call on the object E reads from).

Each step rewrites the program into an equivalent one under the stated conditions; where a condition cannot be
shown the code is left as it is and the rules see it as written.
"""

from __future__ import annotations

import ast
import copy

EXTERNAL_REFS: dict = {}   # file -> identifiers used in other files (filled by globalnorm.apply)

LOGGERS = {'logger', 'log', '_logger', '_log', 'LOGGER', 'LOG', 'logging'}
LOG_LEVELS = {'debug', 'info'}
_SCOPES = (ast.FunctionDef, ast.AsyncFunctionDef, ast.ClassDef, ast.Lambda)
MUTATORS = {'append', 'extend', 'insert', 'pop', 'popitem', 'clear', 'update', 'add', 'remove', 'discard', 'sort',
            'reverse', 'fill', 'resize', 'setdefault', 'put', 'itemset', 'setflags', 'partition', 'byteswap',
            '__setitem__', '__delitem__', 'move_to_end', 'appendleft', 'popleft', 'setncattr', 'set_auto_mask'}
PURE_FUNCS = {'len', 'set', 'list', 'tuple', 'dict', 'sorted', 'frozenset', 'Path', 'getattr', 'isinstance', 'int',
              'float', 'str', 'abs', 'min', 'max', 'sum', 'range', 'enumerate', 'zip', 'bool', 'type', 'hasattr',
              'reversed', 'round', 'any', 'all', 'repr', 'id', 'date', 'datetime', 'timedelta', 'slice'}
IMPURE_NAMES = {'open', 'print', 'next', 'iter', 'input', 'exec', 'eval', 'setattr', 'delattr', 'super', 'vars',
                'locals', 'globals'}
PURE_METHODS = {'keys', 'values', 'items', 'get', 'copy', 'astype', 'lower', 'upper', 'strip', 'split', 'startswith',
                'endswith', 'format', 'join', 'total_seconds', 'isoformat', 'as_posix', 'with_suffix', 'tolist',
                'any', 'all', 'sum', 'min', 'max', 'mean', 'ravel', 'flatten', 'reshape', 'squeeze', 'view',
                'unique', 'to_numpy', 'index', 'count'}
PURE_MODULES = {'np', 'numpy', 'math', 'os.path', 'operator', 'itertools'}


# ------------------------------------------------------------------------------------------------ utilities

def _txt(n) -> str:
    return ' '.join(ast.unparse(n).split())


def _walk_scope(n):
    """nodes of n's own scope (nested functions / classes / lambdas are not entered)"""
    stack = list(ast.iter_child_nodes(n))
    while stack:
        x = stack.pop()
        yield x
        if not isinstance(x, _SCOPES):
            stack.extend(ast.iter_child_nodes(x))


def _preorder(n):
    yield n
    for c in ast.iter_child_nodes(n):
        yield from _preorder(c)


def _blocks(fn):
    from .temps import blocks
    return blocks(fn)


def _heads(st):
    from .temps import heads
    return heads(st)


def _params(fn) -> list[str]:
    a = fn.args
    out = [x.arg for x in a.posonlyargs + a.args + a.kwonlyargs]
    if a.vararg:
        out.append(a.vararg.arg)
    if a.kwarg:
        out.append(a.kwarg.arg)
    return out


def _stored_names(fn) -> set[str]:
    return {x.id for x in _walk_scope(fn) if isinstance(x, ast.Name) and isinstance(x.ctx, (ast.Store, ast.Del))}


def _root(e):
    while isinstance(e, (ast.Attribute, ast.Subscript, ast.Starred)):
        e = e.value
    return e.id if isinstance(e, ast.Name) else None


class _Rename(ast.NodeTransformer):
    def __init__(self, mapping):
        self.mapping = mapping

    def visit_Name(self, n):
        if n.id in self.mapping:
            n.id = self.mapping[n.id]
        return n

    def visit_arg(self, n):
        return n


class _Subst(ast.NodeTransformer):
    """replace loads of names by (copies of) expressions"""

    def __init__(self, mapping):
        self.mapping = mapping
        self.n = 0

    def visit_Name(self, n):
        if isinstance(n.ctx, ast.Load) and n.id in self.mapping:
            self.n += 1
            new = copy.deepcopy(self.mapping[n.id])
            for x in ast.walk(new):
                if hasattr(x, 'lineno') or isinstance(x, (ast.expr, ast.stmt)):
                    x.lineno, x.col_offset = getattr(n, 'lineno', 0), getattr(n, 'col_offset', 0)
                    x.end_lineno, x.end_col_offset = getattr(n, 'end_lineno', None), getattr(n, 'end_col_offset', None)
            return new
        return n


def _set_lines(nodes, lo: float, hi: float):
    """give the nodes (pre-order) strictly increasing line numbers in the open interval (lo, hi)"""
    allnodes = [x for st in nodes for x in _preorder(st) if isinstance(x, (ast.stmt, ast.expr, ast.excepthandler,
                                                                              ast.arg, ast.keyword, ast.alias,
                                                                              ast.match_case, ast.pattern))]
    k = len(allnodes) + 1
    for i, x in enumerate(allnodes):
        x.lineno = lo + (hi - lo) * (i + 1) / k
        x.end_lineno = x.lineno
        x.col_offset = getattr(x, 'col_offset', 0) or 0
        x.end_col_offset = getattr(x, 'end_col_offset', 0) or 0


# ------------------------------------------------------------------------------------------------ L  logging

def _is_log_stmt(st) -> bool:
    if not (isinstance(st, ast.Expr) and isinstance(st.value, ast.Call)):
        return False
    f = st.value.func
    return isinstance(f, ast.Attribute) and f.attr in LOG_LEVELS and isinstance(f.value, ast.Name) \
        and f.value.id in LOGGERS


def strip_logging(tree) -> int:
    n = 0
    for node in ast.walk(tree):
        for f in ('body', 'orelse', 'finalbody'):
            b = getattr(node, f, None)
            if isinstance(b, list) and b and isinstance(b[0], ast.stmt):
                nb = [st for st in b if not _is_log_stmt(st)]
                if len(nb) != len(b):
                    n += len(b) - len(nb)
                    if not nb and f == 'body':
                        nb = [ast.copy_location(ast.Pass(), b[0])]
                    setattr(node, f, nb)
    # an `if` left with nothing but `pass` in it (and no else) only evaluated its test
    return n


# ------------------------------------------------------------------------------------------------ H  helpers

class _FoldConstantTests(ast.NodeTransformer):
    """after a constant argument was substituted for a parameter: `if False:` arms, `not True`, `None is None` ..."""

    def __init__(self):
        self.n = 0

    @staticmethod
    def _const(e):
        return isinstance(e, ast.Constant) and (e.value is None or isinstance(e.value, (bool, int, float, str)))

    def visit_UnaryOp(self, n):
        self.generic_visit(n)
        if isinstance(n.op, ast.Not) and self._const(n.operand):
            self.n += 1
            return ast.copy_location(ast.Constant(value=not n.operand.value), n)
        return n

    def visit_Compare(self, n):
        self.generic_visit(n)
        if len(n.ops) == 1 and self._const(n.left) and self._const(n.comparators[0]):
            a, b, op = n.left.value, n.comparators[0].value, n.ops[0]
            if isinstance(op, (ast.Is, ast.IsNot)) and (a is None or b is None or isinstance(a, bool) or isinstance(b, bool)):
                v = (a is b) if isinstance(op, ast.Is) else (a is not b)
            elif isinstance(op, (ast.Eq, ast.NotEq)) and type(a) is type(b):
                v = (a == b) if isinstance(op, ast.Eq) else (a != b)
            else:
                return n
            self.n += 1
            return ast.copy_location(ast.Constant(value=v), n)
        if len(n.ops) == 1 and isinstance(n.ops[0], (ast.In, ast.NotIn)) and self._const(n.left) and \
                isinstance(n.comparators[0], (ast.Tuple, ast.List, ast.Set)) and \
                all(self._const(e) for e in n.comparators[0].elts):
            a = n.left.value
            hit = any(type(e.value) is type(a) and e.value == a for e in n.comparators[0].elts)
            self.n += 1
            return ast.copy_location(ast.Constant(value=hit if isinstance(n.ops[0], ast.In) else not hit), n)
        return n

    def visit_BoolOp(self, n):
        self.generic_visit(n)
        vals = []
        for v in n.values:
            if self._const(v):
                t = bool(v.value)
                if isinstance(n.op, ast.And):
                    if t:
                        if v is n.values[-1] and not vals:
                            vals.append(v)
                        elif v is n.values[-1]:
                            vals.append(v)
                        continue
                    vals.append(v)
                    break
                else:
                    if not t:
                        if v is n.values[-1]:
                            vals.append(v)
                        continue
                    vals.append(v)
                    break
            else:
                vals.append(v)
        if len(vals) != len(n.values):
            self.n += 1
            if len(vals) == 1:
                return vals[0]
            n.values = vals
        return n

    def visit_IfExp(self, n):
        self.generic_visit(n)
        if self._const(n.test):
            self.n += 1
            return n.body if n.test.value else n.orelse
        return n

    def _block(self, body):
        out = []
        for st in body:
            r = self.visit(st)
            if r is None:
                continue
            if isinstance(r, list):
                out.extend(r)
            else:
                out.append(r)
        # what follows an unconditional return / raise / continue / break (left by a folded test) is never executed
        for i, st in enumerate(out):
            if isinstance(st, (ast.Return, ast.Raise, ast.Continue, ast.Break)) and i + 1 < len(out) and self.n:
                del out[i + 1:]
                break
        return out

    def visit_If(self, n):
        n.test = self.visit(n.test)
        n.body = self._block(n.body)
        n.orelse = self._block(n.orelse)
        if self._const(n.test):
            self.n += 1
            chosen = n.body if n.test.value else n.orelse
            return chosen if chosen else None
        if not n.body:
            n.body = [ast.copy_location(ast.Pass(), n)]
        return n


def fold_constant_tests(stmts: list) -> list:
    f = _FoldConstantTests()
    out = f._block(stmts)
    for st in out:
        for x in ast.walk(st):
            for fld in ('body', 'orelse', 'finalbody'):
                b = getattr(x, fld, None)
                if isinstance(b, list) and not b and fld == 'body' and isinstance(x, (ast.For, ast.While, ast.With, ast.Try,
                                                                                         ast.ExceptHandler)):
                    x.body = [ast.copy_location(ast.Pass(), x)]
    return out or [ast.Pass()]



def _top_functions(tree):
    """(qualname, fn, class node or None, owner body list) for module functions and methods (not nested)"""
    def rec(body, prefix, cls):
        for s in body:
            if isinstance(s, (ast.FunctionDef, ast.AsyncFunctionDef)):
                yield prefix + s.name, s, cls, body
            elif isinstance(s, ast.ClassDef):
                yield from rec(s.body, prefix + s.name + '.', s)
            elif isinstance(s, (ast.If, ast.Try, ast.With)) and cls is None:
                yield from rec(s.body, prefix, cls)
                yield from rec(getattr(s, 'orelse', []), prefix, cls)
    yield from rec(tree.body, '', None)


def _falls_through(block) -> bool:
    if not block:
        return True
    last = block[-1]
    if isinstance(last, (ast.Return, ast.Raise, ast.Continue, ast.Break)):
        return False
    if isinstance(last, ast.If):
        return _falls_through(last.body) or _falls_through(last.orelse)
    return True


def _has_return(st) -> bool:
    return any(isinstance(x, ast.Return) for x in [st, *_walk_scope(st)])


def _eliminate_returns(stmts, sink, budget=[0]):
    """rewrite a statement list in which every path ends in return/raise so that `return E` becomes sink(E) and
    nothing follows it; returns None when a return sits in a loop / try / with / match"""
    out = []
    for i, st in enumerate(stmts):
        if isinstance(st, ast.Return):
            return out + sink(st.value)
        if isinstance(st, ast.If) and _has_return(st):
            rest = stmts[i + 1:]
            bf, ef = _falls_through(st.body), _falls_through(st.orelse)
            if bf and ef and len(rest) > 3:
                return None
            nb = _eliminate_returns(st.body + (copy.deepcopy(rest) if bf else []), sink)
            no = _eliminate_returns(st.orelse + (copy.deepcopy(rest) if ef else []), sink)
            if nb is None or no is None:
                return None
            if not nb and not no:
                out.append(ast.copy_location(ast.Expr(value=st.test), st))
            elif not nb:
                from .alpha import negated
                out.append(ast.copy_location(ast.If(test=negated(st.test), body=no, orelse=[]), st))
            else:
                out.append(ast.copy_location(ast.If(test=st.test, body=nb, orelse=no), st))
            return out
        if _has_return(st):
            return None
        out.append(st)
        if isinstance(st, ast.Raise):
            return out
    return out


def _eligible_helper(fn) -> bool:
    if isinstance(fn, ast.AsyncFunctionDef):
        return False
    for d in fn.decorator_list:
        if not (isinstance(d, ast.Name) and d.id in ('staticmethod', 'classmethod')):
            return False
    a = fn.args
    if a.vararg or a.kwarg or a.posonlyargs:
        return False
    for x in _walk_scope(fn):
        if isinstance(x, (ast.Yield, ast.YieldFrom, ast.Await, ast.Global, ast.Nonlocal, ast.FunctionDef,
                          ast.AsyncFunctionDef, ast.ClassDef)):
            return False
        if isinstance(x, ast.Call):
            f = x.func
            if (isinstance(f, ast.Name) and f.id == fn.name) or (isinstance(f, ast.Attribute) and f.attr == fn.name):
                return False  # recursive
            if isinstance(f, ast.Name) and f.id in ('locals', 'vars', 'super'):
                return False
    return True


def _kind(fn) -> str:
    ds = {d.id for d in fn.decorator_list if isinstance(d, ast.Name)}
    return 'static' if 'staticmethod' in ds else 'class' if 'classmethod' in ds else 'plain'


def _match_call(c: ast.Call, hname: str, cls, caller_cls, caller_fn) -> str | None:
    """how the call refers to the helper: 'func' | 'self' | 'cls' | 'Class' | None"""
    f = c.func
    if cls is None:
        return 'func' if isinstance(f, ast.Name) and f.id == hname else None
    if isinstance(f, ast.Attribute) and f.attr == hname and isinstance(f.value, ast.Name):
        r = f.value.id
        if r == cls.name:
            return 'Class'
        if caller_cls is cls and caller_fn.args.args and r == caller_fn.args.args[0].arg:
            cd = {d.id for d in caller_fn.decorator_list if isinstance(d, ast.Name)}
            if 'staticmethod' in cd:
                return None
            return 'cls' if 'classmethod' in cd else 'self'
    return None


def _bind_arguments(helper, c: ast.Call, how: str):
    """[(param, arg expr)] in evaluation order, or None"""
    a = helper.args
    ps = [x.arg for x in a.args]
    kind = _kind(helper)
    first = None
    if helper_is_method(helper, how):
        if kind == 'plain':
            if how not in ('self',):
                return None
            first = (ps[0], ast.Name(id=c.func.value.id, ctx=ast.Load()))
            ps = ps[1:]
        elif kind == 'class':
            if how == 'cls':
                first = (ps[0], ast.Name(id=c.func.value.id, ctx=ast.Load()))
            elif how == 'Class':
                first = (ps[0], ast.Name(id=c.func.value.id, ctx=ast.Load()))
            else:
                return None
            ps = ps[1:]
    if any(isinstance(x, ast.Starred) for x in c.args) or any(k.arg is None for k in c.keywords):
        return None
    if len(c.args) > len(ps):
        return None
    val = {}
    order = []
    for i, v in enumerate(c.args):
        val[ps[i]] = v
        order.append(ps[i])
    kwonly = [x.arg for x in a.kwonlyargs]
    for k in c.keywords:
        if k.arg in val or k.arg not in ps + kwonly:
            return None
        val[k.arg] = k.value
        order.append(k.arg)
    defaults = dict(zip(ps[len(ps) - len(a.defaults):], a.defaults)) if a.defaults else {}
    for p, d in zip(kwonly, a.kw_defaults):
        if d is not None:
            defaults[p] = d
    for p in ps + kwonly:
        if p not in val:
            d = defaults.get(p)
            if d is None or not isinstance(d, (ast.Constant, ast.Name, ast.Attribute, ast.UnaryOp, ast.Tuple)):
                return None
            val[p] = d
            order.append(p)
    out = [(p, val[p]) for p in order]
    if first is not None:
        out.insert(0, first)
    return out


def helper_is_method(helper, how: str) -> bool:
    return how != 'func' and _kind(helper) != 'static'


def _cheap(e) -> bool:
    """an argument that may be substituted for its parameter at every use (a name, a constant, a dotted name)"""
    if isinstance(e, ast.Constant):
        return True
    if isinstance(e, ast.UnaryOp) and isinstance(e.operand, ast.Constant):
        return True
    while isinstance(e, ast.Attribute):
        e = e.value
    return isinstance(e, ast.Name)


def _loads_after(fn, st, name) -> bool:
    """is `name` loaded in fn after statement st, or in a loop that encloses st?"""
    end = getattr(st, 'end_lineno', None) or st.lineno
    for x in _walk_scope(fn):
        if isinstance(x, ast.Name) and x.id == name and isinstance(x.ctx, ast.Load) and getattr(x, 'lineno', 0) > end:
            return True
    for x in _walk_scope(fn):
        if isinstance(x, (ast.For, ast.While, ast.AsyncFor)) and any(y is st for y in ast.walk(x)):
            if any(isinstance(y, ast.Name) and y.id == name and isinstance(y.ctx, ast.Load) for y in ast.walk(x)):
                return True
    return False


def _inline_call(caller, body, idx, st, c, helper, how, where):
    """replace statement body[idx] (whose head contains call c of helper) by the inlined body; True on success"""
    binds = _bind_arguments(helper, c, how)
    if binds is None:
        return False
    h = copy.deepcopy(helper)
    hbody = [s for i, s in enumerate(h.body)
             if not (i == 0 and isinstance(s, ast.Expr) and isinstance(s.value, ast.Constant)
                     and isinstance(s.value.value, str))]
    if not hbody:
        hbody = [ast.Pass()]
    # --- name hygiene ---------------------------------------------------------------------------
    caller_names = {x.id for x in _walk_scope(caller) if isinstance(x, ast.Name)} | set(_params(caller))
    targets = set()
    if where in ('assign',):
        for t in (st.targets if isinstance(st, ast.Assign) else [st.target]):
            targets |= {x.id for x in ast.walk(t) if isinstance(x, ast.Name)}
    hparams = set(_params(h))
    hlocals = _stored_names(h) - hparams
    ren = {}
    if where == 'nested':
        # the returned expression stays inside the host statement and may read the helper's locals: a second call
        # inlined into the same statement must not rebind them, so every site gets names of its own
        _inline_call.counter = getattr(_inline_call, 'counter', 0) + 1
        for L in sorted(hlocals | hparams):
            if L in hparams and any(p == L and isinstance(a, ast.Name) and a.id == L for p, a in binds):
                continue
            ren[L] = f'{L}__{helper.name.strip("_")}{_inline_call.counter}'
    for L in sorted(hlocals | hparams):
        if L in ren:
            continue
        if L in caller_names and L not in targets and _loads_after(caller, st, L):
            if L in hparams and any(p == L and isinstance(a, ast.Name) and a.id == L for p, a in binds):
                continue  # parameter bound to the caller's variable of the same name
            ren[L] = f'{L}__{helper.name.strip("_")}'
    if ren:
        for s in hbody:
            _Rename(ren).visit(s)
        binds = [(ren.get(p, p), a) for p, a in binds]
        hlocals = {ren.get(x, x) for x in hlocals}
    # a parameter that needs a binding statement never reuses a name of the caller (it would clobber it)
    ren2 = {}
    stored0 = _stored_names(ast.Module(body=hbody, type_ignores=[]))
    for p, a in binds:
        if isinstance(a, ast.Name) and a.id == p:
            continue
        r = _root(a) if not isinstance(a, ast.Constant) else None
        will_sub = _cheap(a) and p not in stored0 and (r is None or r not in stored0)
        if not will_sub and p in caller_names:
            ren2[p] = f'{p}__{helper.name.strip("_")}'
    if ren2:
        for s_ in hbody:
            _Rename(ren2).visit(s_)
        binds = [(ren2.get(p, p), a) for p, a in binds]
    stored_in_h = _stored_names(ast.Module(body=hbody, type_ignores=[]))
    pre, sub = [], {}
    for p, a in binds:
        r = _root(a) if not isinstance(a, ast.Constant) else None
        if isinstance(a, ast.Name) and a.id == p:
            continue
        if _cheap(a) and p not in stored_in_h and (r is None or r not in stored_in_h):
            sub[p] = a
        else:
            pre.append(ast.Assign(targets=[ast.Name(id=p, ctx=ast.Store())], value=copy.deepcopy(a)))
    if sub:
        s_ = _Subst(sub)
        hbody = [s_.visit(s) for s in hbody]
        if any(isinstance(a, ast.Constant) for a in sub.values()):
            hbody = fold_constant_tests(hbody)
    # --- result ---------------------------------------------------------------------------------
    if where == 'return':
        new = hbody + ([ast.Return(value=ast.Constant(value=None))] if _falls_through(hbody) else [])
        keep = []
    else:
        if where == 'assign':
            def sink(v):
                v = v if v is not None else ast.Constant(value=None)
                if isinstance(st, ast.Assign):
                    if len(st.targets) == 1 and isinstance(st.targets[0], ast.Name) and isinstance(v, ast.Name) \
                            and v.id == st.targets[0].id:
                        return []
                    t0 = st.targets[0]
                    if len(st.targets) == 1 and isinstance(t0, ast.Tuple) and isinstance(v, ast.Tuple) \
                            and len(t0.elts) == len(v.elts) and all(isinstance(e, ast.Name) for e in t0.elts) \
                            and not any(isinstance(e, ast.Starred) for e in v.elts):
                        # a, b = x, y  ->  a = x; b = y   when no value reads a target bound earlier in the sequence
                        tn = [e.id for e in t0.elts]
                        indep = True
                        for i, e in enumerate(v.elts):
                            used = {x.id for x in ast.walk(e) if isinstance(x, ast.Name)}
                            if used & (set(tn[:i]) - ({tn[i]} if isinstance(e, ast.Name) and e.id == tn[i] else set())):
                                indep = False
                        if indep:
                            out = []
                            for tgt, e in zip(t0.elts, v.elts):
                                if isinstance(e, ast.Name) and e.id == tgt.id:
                                    continue
                                out.append(ast.Assign(targets=[copy.deepcopy(tgt)], value=e))
                            return out
                    return [ast.Assign(targets=copy.deepcopy(st.targets), value=v)]
                return [ast.AnnAssign(target=copy.deepcopy(st.target), annotation=st.annotation, value=v, simple=st.simple)]
        elif where == 'expr':
            def sink(v):
                if v is None or not any(isinstance(x, (ast.Call, ast.Await)) for x in ast.walk(v)):
                    return []
                return [ast.Expr(value=v)]
        else:  # nested: single trailing return
            if not (isinstance(hbody[-1], ast.Return) and hbody[-1].value is not None
                    and not any(_has_return(s) for s in hbody[:-1])):
                return False
            ret = hbody[-1].value
            new = hbody[:-1]
            # put the returned expression where the call was
            from .temps import _path_to, _set_at, legal_site
            path = _path_to(st, c)
            if not path or not legal_site(st, path, ret):
                return False
            if new and not legal_site(st, path, ast.Call(func=ast.Name(id='f', ctx=ast.Load()), args=[], keywords=[])):
                # the helper's statements would run before the host statement although the call itself is only
                # evaluated under a condition (an arm of a conditional expression, a later operand of and / or)
                return False
            _set_at(st, path, ret)
            keep = [st]
            sink = None
        if sink is not None:
            full = hbody + ([ast.Return(value=None)] if _falls_through(hbody) else [])
            new = _eliminate_returns(full, sink)
            if new is None:
                return False
            keep = []
    new = pre + new
    lo = st.lineno - 1
    # keep lines increasing: spliced statements live between the previous line and the call statement's line
    prev_end = 0
    if idx > 0:
        prev_end = max((getattr(x, 'lineno', 0) for x in ast.walk(body[idx - 1])), default=0)
    lo = max(lo, prev_end if prev_end < st.lineno else lo)
    _set_lines(new, lo, st.lineno)
    if where != 'nested':
        # the sink statements stand for the call statement itself
        pass
    body[idx:idx + 1] = new + keep
    if not body:
        body.append(ast.copy_location(ast.Pass(), st))
    return True


def _sites(caller, hname, cls, caller_cls):
    """[(body, idx, stmt, call, how, where)] call sites of the helper in caller, in the heads of statements"""
    out = []
    for _, _, body in _blocks(caller):
        for i, st in enumerate(body):
            for hd in _heads(st):
                for x in [hd, *_walk_scope(hd)]:
                    if isinstance(x, ast.Call):
                        how = _match_call(x, hname, cls, caller_cls, caller)
                        if how is None:
                            continue
                        if isinstance(st, ast.Return) and st.value is x:
                            where = 'return'
                        elif isinstance(st, ast.Expr) and st.value is x:
                            where = 'expr'
                        elif isinstance(st, ast.Assign) and st.value is x:
                            where = 'assign'
                        elif isinstance(st, ast.AnnAssign) and st.value is x:
                            where = 'assign'
                        else:
                            where = 'nested'
                        out.append((body, i, st, x, how, where))
    return out


def _references(tree, hname, skip) -> int:
    n = 0
    for x in ast.walk(tree):
        if x is skip:
            continue
        if isinstance(x, ast.Name) and x.id == hname:
            n += 1
        elif isinstance(x, ast.Attribute) and x.attr == hname:
            n += 1
        elif isinstance(x, ast.Constant) and x.value == hname:
            n += 1
    return n


def inline_new_helpers(tree, known: set[str], external: set[str] = frozenset()) -> int:
    done = 0
    for _ in range(6):  # helpers calling helpers
        progress = False
        funcs = list(_top_functions(tree))
        new = [(q, fn, cls, owner) for q, fn, cls, owner in funcs if q not in known and _eligible_helper(fn)]
        for q, helper, cls, owner in new:
            # a helper that itself calls another new helper is handled once that one is gone
            others = [(f, c2) for _, f, c2, _ in new if f is not helper]
            if any(isinstance(x, ast.Call) and any(_match_call(x, f.name, c2, cls, helper) is not None for f, c2 in others)
                   for x in _walk_scope(helper)):
                if len(new) > 1:
                    continue
            n_inl = 0
            for cq, caller, ccls, _ in funcs:
                if caller is helper:
                    continue
                guard = 0
                while guard < 50:
                    guard += 1
                    sites = _sites(caller, helper.name, cls, ccls)
                    ok = False
                    for body, i, st, c, how, where in sites:
                        if _inline_call(caller, body, i, st, c, helper, how, where):
                            ok = True
                            n_inl += 1
                            break
                    if not ok:
                        break
            if n_inl:
                progress = True
                done += n_inl
                if _references(tree, helper.name, helper) == 0 and helper.name not in external:
                    owner.remove(helper)
                    if not owner:
                        owner.append(ast.Pass())
        if not progress:
            break
    return done


# ------------------------------------------------------------------------------------------------ V  hoisted values

def _mutated_attrs(tree) -> set[str]:
    """attribute names that the file stores to / mutates outside constructors"""
    out = set()
    for q, fn, cls, _ in _top_functions(tree):
        init = fn.name in ('__init__', '__post_init__', '__new__')
        for x in _walk_scope(fn):
            tg = []
            if isinstance(x, ast.Assign):
                tg = x.targets
            elif isinstance(x, (ast.AugAssign, ast.AnnAssign)):
                tg = [x.target]
            elif isinstance(x, ast.Delete):
                tg = x.targets
            for t in tg:
                for y in ([t] if not isinstance(t, (ast.Tuple, ast.List)) else t.elts):
                    b = y
                    chain = []
                    while isinstance(b, (ast.Attribute, ast.Subscript)):
                        if isinstance(b, ast.Attribute):
                            chain.append(b.attr)
                        b = b.value
                    if chain and not (init and isinstance(b, ast.Name) and b.id == 'self' and len(chain) == 1
                                      and isinstance(y, ast.Attribute)):
                        out |= set(chain)
            if isinstance(x, ast.Call) and isinstance(x.func, ast.Attribute) and x.func.attr in MUTATORS:
                b = x.func.value
                while isinstance(b, (ast.Attribute, ast.Subscript)):
                    if isinstance(b, ast.Attribute):
                        out.add(b.attr)
                    b = b.value
            if isinstance(x, ast.Call) and isinstance(x.func, ast.Name) and x.func.id in ('setattr', 'delattr') \
                    and len(x.args) >= 2:
                out.add(x.args[1].value if isinstance(x.args[1], ast.Constant) else '*')
    return out


def _effect_free(e) -> bool:
    for x in ast.walk(e):
        if isinstance(x, (ast.Await, ast.Yield, ast.YieldFrom, ast.NamedExpr, ast.Lambda, ast.Starred)):
            return False
        if isinstance(x, ast.Call):
            f = x.func
            if isinstance(f, ast.Name):
                # plain functions only: a constructor makes an object with an identity of its own
                if f.id in IMPURE_NAMES or (f.id not in PURE_FUNCS and not f.id.islower()):
                    return False
                continue
            if isinstance(f, ast.Attribute):
                from .loader import dotted_name
                d = dotted_name(f.value)
                if d in PURE_MODULES or (d or '').split('.')[0] in ('np', 'numpy', 'math'):
                    continue
                if f.attr in PURE_METHODS:
                    continue
            return False
    return True


def _stmt_range(fn, def_st, uses):
    """statements of def_st's block from the one after def_st up to the one containing the last use; None if a use
    is not inside a later statement of that block"""
    for _, _, body in _blocks(fn):
        if any(s is def_st for s in body):
            i = next(k for k, s in enumerate(body) if s is def_st)
            last = i
            for u in uses:
                found = None
                for k in range(i + 1, len(body)):
                    if any(y is u for y in ast.walk(body[k])):
                        found = k
                        break
                if found is None:
                    return None
                last = max(last, found)
            return body[i + 1:last + 1]
    return None


SCALAR_FUNCS = {'len', 'int', 'float', 'str', 'bool', 'abs', 'min', 'max', 'round', 'isinstance', 'getattr', 'hasattr',
                'sum', 'any', 'all', 'repr', 'id', 'type'}
ONE_SHOT = {'zip', 'enumerate', 'map', 'filter', 'iter', 'reversed'}


def _parent_map(fn):
    pm = {}
    for n in ast.walk(fn):
        for c in ast.iter_child_nodes(n):
            pm[id(c)] = n
    return pm


def _uses_allow_substitution(fn, def_st, E, loads) -> bool:
    """the name stands for one object; the expression makes a new one at every evaluation.  Substituting is only
    the same program when nobody can tell: the object is never written through the name, and - if E builds a fresh
    object - every use only reads it (or there is a single use evaluated once per binding)."""
    pm = _parent_map(fn)
    fresh = one_shot = False
    if isinstance(E, ast.Name):
        # an alias: the expression IS the object (the caller has shown that the name is not rebound in between)
        return True
    for x in ast.walk(E):
        if isinstance(x, (ast.List, ast.Dict, ast.Set, ast.ListComp, ast.DictComp, ast.SetComp)):
            fresh = True
        if isinstance(x, (ast.BinOp, ast.UnaryOp)) and not all(
                isinstance(y, (ast.Constant, ast.operator, ast.unaryop, ast.expr_context, ast.BinOp, ast.UnaryOp))
                for y in ast.walk(x)):
            fresh = True       # arithmetic on arrays builds a new array at every evaluation
        if isinstance(x, ast.GeneratorExp):
            fresh = one_shot = True
        if isinstance(x, ast.Call):
            f = x.func
            if isinstance(f, ast.Name) and f.id in SCALAR_FUNCS:
                continue
            fresh = True
            if isinstance(f, ast.Name) and f.id in ONE_SHOT:
                one_shot = True
    for ld in loads:
        par = pm.get(id(ld))
        # (i) never written through the name
        top = ld
        while isinstance(pm.get(id(top)), (ast.Attribute, ast.Subscript)) and pm[id(top)].value is top:
            top = pm[id(top)]
        if top is not ld and isinstance(getattr(top, 'ctx', None), (ast.Store, ast.Del)):
            return False
        up = pm.get(id(top))
        if isinstance(up, ast.AugAssign) and up.target is top:
            return False
        if isinstance(top, ast.Attribute) and isinstance(up, ast.Call) and up.func is top and top.attr in MUTATORS:
            return False
        if isinstance(par, ast.Compare) and any(isinstance(o, (ast.Is, ast.IsNot)) for o in par.ops) and fresh:
            return False
    if not fresh:
        return True

    def in_repeated_region(ld) -> bool:
        a = pm.get(id(ld))
        child = ld
        while a is not None and a is not fn:
            if isinstance(a, (ast.For, ast.AsyncFor)) and child is not a.iter and not any(y is def_st for y in ast.walk(a)):
                return True
            if isinstance(a, ast.While) and not any(y is def_st for y in ast.walk(a)):
                return True
            if isinstance(a, (ast.ListComp, ast.SetComp, ast.DictComp, ast.GeneratorExp)):
                if not (a.generators and child is a.generators[0] and False):
                    first_iter = a.generators[0].iter
                    if not any(y is ld for y in ast.walk(first_iter)):
                        return True
            child = a
            a = pm.get(id(a))
        return False

    if len(loads) == 1:
        return not in_repeated_region(loads[0])
    if one_shot:
        return False
    # a call of a function of the program is never evaluated more often than it was written
    from .loader import dotted_name
    for x in ast.walk(E):
        if isinstance(x, ast.Call):
            f = x.func
            if isinstance(f, ast.Name) and (f.id in PURE_FUNCS or f.id in SCALAR_FUNCS):
                continue
            if isinstance(f, ast.Attribute) and ((dotted_name(f.value) or '').split('.')[0] in ('np', 'numpy', 'math')
                                                 or f.attr in PURE_METHODS):
                continue
            return False
    for ld in loads:
        par = pm.get(id(ld))
        ok = False
        if isinstance(par, (ast.Attribute, ast.Subscript)) and par.value is ld and isinstance(par.ctx, ast.Load):
            up = pm.get(id(par))
            ok = not (isinstance(par, ast.Attribute) and isinstance(up, ast.Call) and up.func is par
                      and par.attr not in PURE_METHODS)
        elif isinstance(par, ast.Subscript) and par.slice is ld:
            ok = True
        elif isinstance(par, (ast.BinOp, ast.UnaryOp, ast.Compare, ast.BoolOp, ast.FormattedValue, ast.JoinedStr)):
            ok = True
        elif isinstance(par, ast.IfExp) and par.test is ld:
            ok = True
        elif isinstance(par, (ast.If, ast.While, ast.Assert)) and par.test is ld:
            ok = True
        elif isinstance(par, (ast.For, ast.comprehension)) and par.iter is ld:
            ok = True
        elif isinstance(par, ast.Call) and ld in par.args:
            f = par.func
            from .loader import dotted_name
            d = dotted_name(f) or ''
            ok = (isinstance(f, ast.Name) and (f.id in PURE_FUNCS or f.id in SCALAR_FUNCS)) or d.split('.')[0] in ('np', 'numpy', 'math')
        if not ok:
            return False
    return True


def inline_new_locals(fn, ref_names: set[str], ref_sigs: set[str], mutated: set[str], only_aliases: bool = False) -> int:
    from .alpha import function_locals, signatures
    done = 0
    if not only_aliases:
        # plain aliases (`v = name`) first: afterwards a store made through the alias is a store on the name itself,
        # which the checks below must see when they look for what can change between a binding and its uses
        done += inline_new_locals(fn, ref_names, ref_sigs, mutated, only_aliases=True)
    for _ in range(40):
        locs = function_locals(fn) - ref_names
        if not locs:
            break
        sigs = signatures(fn)
        progress = False
        for v in sorted(locs):
            if sigs.get(v) in ref_sigs:
                continue  # a renamed reference local: alpha.py gives it its name back
            stores = [x for x in _walk_scope(fn) if isinstance(x, ast.Name) and x.id == v
                      and isinstance(x.ctx, (ast.Store, ast.Del))]
            if len(stores) != 1:
                continue
            def_st = None
            for _, _, body in _blocks(fn):
                for s in body:
                    if isinstance(s, ast.Assign) and len(s.targets) == 1 and s.targets[0] is stores[0]:
                        def_st = s
                    elif isinstance(s, ast.AnnAssign) and s.target is stores[0] and s.value is not None:
                        def_st = s
            if def_st is None:
                continue
            E = def_st.value
            if only_aliases and not isinstance(E, ast.Name):
                continue
            if not _effect_free(E):
                continue
            # every load of v, none in a deferred scope
            loads, deferred = [], False
            stack = [(c, False) for c in ast.iter_child_nodes(fn)]
            while stack:
                n, d = stack.pop()
                d = d or isinstance(n, _SCOPES)
                if isinstance(n, ast.Name) and n.id == v and isinstance(n.ctx, ast.Load):
                    loads.append(n)
                    deferred = deferred or d
                stack.extend((c, d) for c in ast.iter_child_nodes(n))
            if deferred or not loads:
                continue
            if not _uses_allow_substitution(fn, def_st, E, loads):
                continue
            rng = _stmt_range(fn, def_st, loads)
            if rng is None:
                continue
            free = {x.id for x in ast.walk(E) if isinstance(x, ast.Name)}
            roots = {}
            for x in ast.walk(E):
                if isinstance(x, (ast.Attribute, ast.Subscript)):
                    r = _root(x)
                    if r:
                        first = x
                        chain = []
                        while isinstance(first, (ast.Attribute, ast.Subscript)):
                            chain.append(first.attr if isinstance(first, ast.Attribute) else '[]')
                            first = first.value
                        roots.setdefault(r, set()).update(chain)
            if not isinstance(E, ast.Name):
                # a bare name read through a call or an operator (`len(data)`, `sum(xs)`, `a + b`): what E yields also
                # changes when the object behind the name is altered in place
                for x in ast.walk(E):
                    if isinstance(x, ast.Name) and isinstance(x.ctx, ast.Load):
                        roots.setdefault(x.id, set())
            ok = True
            for st in rng:
                for x in [st, *_walk_scope(st)]:
                    if isinstance(x, ast.Name) and isinstance(x.ctx, (ast.Store, ast.Del)) and x.id in free:
                        ok = False
                    if isinstance(x, ast.comprehension):
                        if {y.id for y in ast.walk(x.target) if isinstance(y, ast.Name)} & free:
                            ok = False
                    tg = []
                    if isinstance(x, ast.Assign):
                        tg = x.targets
                    elif isinstance(x, (ast.AugAssign, ast.AnnAssign)):
                        tg = [x.target]
                    elif isinstance(x, ast.Delete):
                        tg = x.targets
                    for t in tg:
                        for y in ([t] if not isinstance(t, (ast.Tuple, ast.List)) else t.elts):
                            if isinstance(y, (ast.Attribute, ast.Subscript)) and _root(y) in roots:
                                ok = False
                    if isinstance(x, ast.Call):
                        f = x.func
                        if isinstance(f, ast.Attribute) and f.attr in MUTATORS and _root(f.value) in roots:
                            ok = False
                        # attributes the file mutates somewhere: any call on / with the object may do it
                        for r, chain in roots.items():
                            if (chain & mutated or '*' in mutated) and chain - {'[]'}:
                                if (isinstance(f, ast.Attribute) and _root(f.value) == r and f.attr not in PURE_METHODS) \
                                        or any(_root(a) == r and isinstance(a, ast.Name) for a in x.args):
                                    ok = False
                if not ok:
                    break
            if not ok:
                continue
            # substitute
            for ld in loads:
                pass
            sub = _Subst({v: E})
            for st in rng:
                new = sub.visit(st)
                assert new is st
            for _, _, body in _blocks(fn):
                if any(s is def_st for s in body):
                    body.remove(def_st)
                    if not body:
                        body.append(ast.copy_location(ast.Pass(), def_st))
                    break
            done += 1
            progress = True
            break
        if not progress:
            break
    return done



# ------------------------------------------------------------------------------------------------ U  unrolled loops

def _loop_heads(fn) -> set[str]:
    """what the loops of fn iterate over (a renamed loop variable does not make a loop new; local names inside the
    display may be renamed too, so displays are also compared by length and element kinds)"""
    out = set()
    for x in ast.walk(fn):
        if isinstance(x, (ast.For, ast.AsyncFor)):
            out.add(_txt(x.iter))
            if isinstance(x.iter, (ast.Tuple, ast.List)):
                out.add('#display:%d' % len(x.iter.elts))
    return out


def _own_jumps(loop) -> bool:
    """a break / continue that belongs to this loop (nested loops keep theirs)"""
    stack = list(loop.body)
    while stack:
        x = stack.pop()
        if isinstance(x, (ast.Break, ast.Continue)):
            return True
        if isinstance(x, (ast.For, ast.AsyncFor, ast.While)):
            stack.extend(x.orelse)
            continue
        if isinstance(x, _SCOPES):
            continue
        stack.extend(ast.iter_child_nodes(x))
    return False


def _stable_operand(e, stored: set[str], stored_attrs: set[str]) -> bool:
    """e reads the same object whenever it is evaluated inside the loop body"""
    if isinstance(e, ast.Constant):
        return True
    if isinstance(e, ast.Name):
        return e.id not in stored
    if isinstance(e, ast.Attribute):
        return e.attr not in stored_attrs and _stable_operand(e.value, stored, stored_attrs)
    if isinstance(e, ast.UnaryOp) and isinstance(e.op, ast.USub):
        return isinstance(e.operand, ast.Constant)
    return False


def _loaded_beyond(fn, loop, name) -> bool:
    """is `name` read outside the loop after it (or anywhere in a loop that encloses it)?"""
    inside = {id(x) for x in ast.walk(loop)}
    end = max((getattr(x, 'lineno', 0) or 0 for x in ast.walk(loop)), default=loop.lineno)
    outer = [x for x in _walk_scope(fn) if isinstance(x, (ast.For, ast.While, ast.AsyncFor)) and x is not loop
             and any(y is loop for y in ast.walk(x))]
    for x in _walk_scope(fn):
        if isinstance(x, ast.Name) and x.id == name and isinstance(x.ctx, ast.Load) and id(x) not in inside:
            if (getattr(x, 'lineno', 0) or 0) > end or any(any(y is x for y in ast.walk(o)) for o in outer):
                return True
    return False


def unroll_new_display_loops(fn, ref_heads: set[str]) -> int:
    """`for T in (e1, .., en): body`, a loop the reference function does not have, over a literal display of at most
    four stable operands, without break / continue / else and without closures in the body: the same program as
    `T1 = e1; body[T:=T1]; ...; Tn = en; body[T:=Tn]` (the display is evaluated before the first iteration, so the
    operands must not be rebound or re-stored by the body).  Pass V then substitutes the per-iteration names."""
    done = 0
    for _ in range(8):
        hit = None
        for _, _, body in _blocks(fn):
            for i, st in enumerate(body):
                if not isinstance(st, ast.For) or st.orelse or not isinstance(st.iter, (ast.Tuple, ast.List)):
                    continue
                elts = st.iter.elts
                if not (1 <= len(elts) <= 4) or _txt(st.iter) in ref_heads or '#display:%d' % len(elts) in ref_heads:
                    continue
                if _own_jumps(st):
                    continue
                inner = [x for b in st.body for x in _preorder(b)]
                if any(isinstance(x, (*_SCOPES, ast.Yield, ast.YieldFrom, ast.Await, ast.NamedExpr, ast.Global,
                                      ast.Nonlocal)) for x in inner):
                    continue
                if isinstance(st.target, ast.Name):
                    tnames = [st.target.id]
                    rows = [[e] for e in elts]
                elif isinstance(st.target, (ast.Tuple, ast.List)) and all(isinstance(t, ast.Name) for t in st.target.elts):
                    tnames = [t.id for t in st.target.elts]
                    if not all(isinstance(e, (ast.Tuple, ast.List)) and len(e.elts) == len(tnames) for e in elts):
                        continue
                    rows = [list(e.elts) for e in elts]
                else:
                    continue
                if len(set(tnames)) != len(tnames):
                    continue
                stored = {x.id for x in inner if isinstance(x, ast.Name) and isinstance(x.ctx, (ast.Store, ast.Del))}
                stored_attrs = {x.attr for x in inner if isinstance(x, ast.Attribute)
                                and isinstance(x.ctx, (ast.Store, ast.Del))}
                if any(isinstance(x, ast.Call) and isinstance(x.func, ast.Name) and x.func.id in ('setattr', 'delattr')
                       for x in inner):
                    continue
                if not all(_stable_operand(e, stored | set(tnames), stored_attrs) for r in rows for e in r):
                    continue
                hit = (body, i, st, tnames, rows)
                break
            if hit:
                break
        if not hit:
            break
        body, i, st, tnames, rows = hit
        unroll_new_display_loops.counter += 1
        tag = unroll_new_display_loops.counter
        new = []
        last = {}
        for k, row in enumerate(rows):
            mp = {t: f'{t}__u{tag}_{k}' for t in tnames}
            for t, e in zip(tnames, row):
                new.append(ast.Assign(targets=[ast.Name(id=mp[t], ctx=ast.Store())], value=copy.deepcopy(e)))
            for b in st.body:
                new.append(_Rename(mp).visit(copy.deepcopy(b)))
            last = mp
        for t in tnames:
            if _loaded_beyond(fn, st, t):
                new.append(ast.Assign(targets=[ast.Name(id=t, ctx=ast.Store())],
                                      value=ast.Name(id=last[t], ctx=ast.Load())))
        nxt = getattr(body[i + 1], 'lineno', None) if i + 1 < len(body) else None
        end = max((getattr(x, 'lineno', 0) or 0 for x in ast.walk(st)), default=st.lineno)
        hi = nxt if nxt is not None and nxt > end else end + 1
        _set_lines(new, st.lineno - 0.5, hi - 0.25)
        body[i:i + 1] = new
        done += 1
    return done


unroll_new_display_loops.counter = 0



# ------------------------------------------------------------------------------------------------ S  results by field

def split_record_results(fn, ref_names: set[str]) -> int:
    """`r = f(..)` where f returns an erased record of n fields (structnorm.RETURNS), r is a local the reference
    function does not have, bound once, and every use of r is the load `r[k]` with constant k: the same program as
    `r_0, .., r_n-1 = f(..)` with the uses replaced by the names."""
    from . import structnorm
    if not structnorm.RETURNS:
        return 0
    done = 0
    for _ in range(20):
        hit = None
        pm = _parent_map(fn)
        names_used = {x.id for x in ast.walk(fn) if isinstance(x, ast.Name)} | {x.arg for x in ast.walk(fn.args)
                                                                                if isinstance(x, ast.arg)}
        for _, _, body in _blocks(fn):
            for st in body:
                if not (isinstance(st, ast.Assign) and len(st.targets) == 1 and isinstance(st.targets[0], ast.Name)
                        and isinstance(st.value, ast.Call)):
                    continue
                r = st.targets[0].id
                if r in ref_names:
                    continue
                f = st.value.func
                fname = f.id if isinstance(f, ast.Name) else f.attr if isinstance(f, ast.Attribute) else None
                rec = structnorm.RETURNS.get(fname)
                if rec is None or rec not in structnorm.ERASED:
                    continue
                fields = structnorm.ERASED[rec]
                occ = [x for x in ast.walk(fn) if isinstance(x, ast.Name) and x.id == r]
                if sum(1 for x in occ if not isinstance(x.ctx, ast.Load)) != 1:
                    continue
                loads = [x for x in occ if isinstance(x.ctx, ast.Load)]
                if not loads or any(x not in list(_walk_scope(fn)) for x in loads):
                    continue
                subs = []
                for x in loads:
                    par = pm.get(id(x))
                    if isinstance(par, ast.Subscript) and par.value is x and isinstance(par.ctx, ast.Load) and \
                            isinstance(par.slice, ast.Constant) and isinstance(par.slice.value, int) and \
                            0 <= par.slice.value < len(fields):
                        subs.append(par)
                    else:
                        subs = None
                        break
                if not subs:
                    continue
                hit = (st, r, fields, subs)
                break
            if hit:
                break
        if not hit:
            break
        st, r, fields, subs = hit
        names = []
        for f in fields:
            nm = f if f not in names_used and f not in names else f'{r}_{f}'
            while nm in names_used or nm in names:
                nm += '_'
            names.append(nm)
        tgt = ast.Tuple(elts=[ast.copy_location(ast.Name(id=nm, ctx=ast.Store()), st.targets[0]) for nm in names],
                        ctx=ast.Store())
        st.targets = [ast.copy_location(tgt, st.targets[0])]
        for sub in subs:
            nm = names[sub.slice.value]
            sub.__class__ = ast.Name
            del sub.value, sub.slice
            sub.id = nm
            sub.ctx = ast.Load()
        done += 1
    return done


class _FoldDisplaySubscripts(ast.NodeTransformer):
    """(a, b, c)[1] -> b when the other elements are effect-free"""

    def __init__(self):
        self.n = 0

    def visit_Subscript(self, n):
        self.generic_visit(n)
        if isinstance(n.ctx, ast.Load) and isinstance(n.value, (ast.Tuple, ast.List)) and isinstance(n.slice, ast.Constant) \
                and isinstance(n.slice.value, int) and not any(isinstance(e, ast.Starred) for e in n.value.elts) \
                and -len(n.value.elts) <= n.slice.value < len(n.value.elts):
            k = n.slice.value
            if all(_effect_free(e) for i, e in enumerate(n.value.elts) if i != k % len(n.value.elts)):
                self.n += 1
                return n.value.elts[k]
        return n


# ------------------------------------------------------------------------------------------------ Q  new properties

def open_new_properties(tree, known: set[str]) -> int:
    """`@property def p(self): return <effect-free expression over self.attributes>` that the reference class does not
    have: a read `self.p` inside the class is that expression (evaluated at the read, as the property is)."""
    done = 0
    for cls in [x for x in ast.walk(tree) if isinstance(x, ast.ClassDef)]:
        props = {}
        for st in cls.body:
            if not isinstance(st, ast.FunctionDef) or f'{cls.name}.{st.name}' in known:
                continue
            if len(st.decorator_list) != 1 or not (isinstance(st.decorator_list[0], ast.Name)
                                                   and st.decorator_list[0].id == 'property'):
                continue
            a = st.args
            if len(a.args) != 1 or a.posonlyargs or a.kwonlyargs or a.vararg or a.kwarg:
                continue
            body = [b for i, b in enumerate(st.body)
                    if not (i == 0 and isinstance(b, ast.Expr) and isinstance(b.value, ast.Constant)
                            and isinstance(b.value.value, str))]
            if len(body) != 1 or not isinstance(body[0], ast.Return) or body[0].value is None:
                continue
            e = body[0].value
            me = a.args[0].arg
            if not _effect_free(e) or any(isinstance(x, (ast.Call, ast.Lambda, ast.ListComp, ast.SetComp, ast.DictComp,
                                                         ast.GeneratorExp)) for x in ast.walk(e)):
                continue
            props[st.name] = (me, e, st)
        if not props:
            continue
        # a setter / deleter of the same name, or a store to it, means it is not a plain read-only view
        for nm in list(props):
            for x in ast.walk(cls):
                if isinstance(x, ast.Attribute) and x.attr == nm and not isinstance(x.ctx, ast.Load):
                    props.pop(nm, None)
                if isinstance(x, ast.Attribute) and isinstance(x.value, ast.Name) and x.value.id == nm and \
                        x.attr in ('setter', 'deleter'):
                    props.pop(nm, None)
        for fn in cls.body:
            if not isinstance(fn, (ast.FunctionDef, ast.AsyncFunctionDef)) or not fn.args.args:
                continue
            recv = fn.args.args[0].arg
            if any(isinstance(d, ast.Name) and d.id in ('staticmethod', 'classmethod') for d in fn.decorator_list):
                continue
            for _ in range(4):
                hit = False
                for x in ast.walk(fn):
                    if isinstance(x, ast.Attribute) and isinstance(x.ctx, ast.Load) and isinstance(x.value, ast.Name) \
                            and x.value.id == recv and x.attr in props and props[x.attr][2] is not fn:
                        me, e, _d = props[x.attr]
                        new = copy.deepcopy(e)
                        for y in ast.walk(new):
                            if isinstance(y, ast.Name) and y.id == me:
                                y.id = recv
                            if isinstance(y, (ast.expr,)):
                                ast.copy_location(y, x)
                        x.__class__ = new.__class__
                        x.__dict__.clear()
                        x.__dict__.update(new.__dict__)
                        done += 1
                        hit = True
                        break
                if not hit:
                    break
    return done



# ------------------------------------------------------------------------------------------------ entry point

def prenormalise(tree, rel: str, R: dict):
    from .alpha import _functions
    from .loader import _Canon
    from . import alpha
    known = set(R.get('__funcs__', {}).get(rel, [])) | {q for (r, q) in alpha._MOVED_INV if r == rel}
    if not known:
        return tree, 0
    n = strip_logging(tree)
    n += open_new_properties(tree, known)
    from . import structnorm
    pulled_here = {nm for (r, nm) in structnorm.PULLED if r == rel}
    n += inline_new_helpers(tree, known, set(EXTERNAL_REFS.get(rel, frozenset())) - pulled_here)
    mutated = _mutated_attrs(tree)
    for q, fn in list(_functions(tree)):
        if q not in known:
            continue
        sg, fsg = alpha._rd(R, None, rel, q) or {}, alpha._rd(R, '__flat__', rel, q) or {}
        ref_names = set(sg) | set(fsg)
        ref_sigs = set(sg.values()) | set(fsg.values())
        src = alpha._rd(R, '__src__', rel, q)
        if src is not None and not isinstance(fn, ast.AsyncFunctionDef):
            try:
                n += unroll_new_display_loops(fn, _loop_heads(ast.parse(src)))
            except SyntaxError:
                pass
        n += split_record_results(fn, ref_names)
        n += inline_new_locals(fn, ref_names, ref_sigs, mutated)
        fold = _FoldDisplaySubscripts()
        fold.visit(fn)
        if fold.n:
            n += fold.n
            n += inline_new_locals(fn, ref_names, ref_sigs, mutated)
    if n:
        tree = _Canon().visit(tree)
        ast.fix_missing_locations(tree)
    return tree, n
