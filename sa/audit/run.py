"""Sensitivity audit of a property's checker (thorough tier).

(1) behaviour-preserving variants of /repo's current tree (reformat, rename every
    local, x op= e spelled out, flipped comparisons, inverted if/else, no-op noise)
    must give the same verdict as the tree itself;
(2) breaking variants — the seeded changes recorded for this property under
    /verif/seeded and the reverted repairs under /verif/regress/fixes — must be
    reported as violations.

The audit validates the *checker*, not the property: a preserving variant that
alarms, or a breaking variant that is missed, is an ANALYSIS-ERROR (exit 2),
never a VIOLATION line.  Variants whose patch no longer applies to the tree
being checked are skipped and counted as skipped.
"""

from __future__ import annotations

import json
import os
import re
import shutil
import subprocess
import tempfile
from concurrent.futures import ThreadPoolExecutor
from pathlib import Path

from ..loader import repo_root

V = Path(__file__).resolve().parent.parent.parent
PRESERVING = ['reformat', 'rename-locals', 'augassign', 'flip-compare', 'invert-if', 'noise', 'kwargs', 'extract-locals',
              'inline-locals']
PY = '/venv/bin/python'


def _copy_tree(dst: Path):
    root = repo_root()
    for sub in ('src', 'scripts', 'notebooks'):
        s = root / sub
        if s.is_dir():
            shutil.copytree(s, dst / sub, ignore=shutil.ignore_patterns('__pycache__', '*.pyc'))


def _run_check(prop: str, tree: Path, evdir: Path):
    env = dict(os.environ, AEIC_VERIF_EVIDENCE_DIR=str(evdir))
    r = subprocess.run([str(V / 'check'), prop, '--tier', 'quick', '--repo', str(tree)],
                       capture_output=True, text=True, env=env)
    keys = set()
    try:
        for f in (evdir / 'replay').glob(f'{prop}-*.json'):
            keys |= {x['key'] for x in json.load(open(f))['findings']}
    except Exception:
        pass
    rules = sorted(set(re.findall(r'\s(C\d\d-[RMO][\w/]+)\s', r.stdout)))
    return r.returncode, keys, rules, r.stdout.strip().split('\n')[-1][:200]


def _one(prop, kind, ident, patch, reverse):
    d = Path(tempfile.mkdtemp(prefix='aeic-audit-'))
    try:
        tree, ev = d / 'tree', d / 'ev'
        _copy_tree(tree)
        if kind == 'preserving' and patch is None:
            r = subprocess.run([PY, str(V / 'sa' / 'audit' / 'preserve.py'), ident, str(tree)], capture_output=True, text=True)
            if r.returncode:
                return kind, ident, 'skipped', f'transform failed: {r.stderr[-150:]}'
        else:
            r = subprocess.run(['git', 'apply'] + (['-R'] if reverse else []) + [str(patch)], cwd=tree, capture_output=True, text=True)
            if r.returncode:
                return kind, ident, 'skipped', 'patch does not apply to the tree being checked'
        rc, keys, rules, last = _run_check(prop, tree, ev)
        return kind, ident, rc, {'keys': sorted(keys), 'rules': rules, 'last': last}
    finally:
        shutil.rmtree(d, ignore_errors=True)


def run(prop: str, base_violations: int, consulted=None) -> dict:
    if base_violations:
        return {'audit': 'skipped: the tree itself violates the property; variants are only meaningful on a clean verdict'}
    jobs = [(prop, 'preserving', k, None, False) for k in PRESERVING]
    # realistic behaviour-preserving maintenance commits (regress/benign): every (patch, property) pair that is not
    # listed in EXPECTED.json as a known brittleness must be silent
    bd = V / 'regress' / 'benign'
    known_brittle = {}
    try:
        known_brittle = json.load(open(bd / 'EXPECTED.json')).get('not_silent', {})
    except Exception:
        pass
    brittle_here = sorted(b for b, d in known_brittle.items() if prop in d)
    untouched = []
    if bd.is_dir() and os.environ.get('AEIC_VERIF_AUDIT_NO_BENIGN') != '1':
        for b in sorted(bd.iterdir()):
            if (b / 'patch.diff').exists() and b.name not in brittle_here:
                if consulted is not None:
                    touched = set(re.findall(r'^(?:\+\+\+ b/|--- a/)(\S+)', (b / 'patch.diff').read_text(), re.M))
                    if not (touched & set(consulted)):
                        untouched.append(b.name)
                        continue
                jobs.append((prop, 'preserving', f'benign/{b.name}', b / 'patch.diff', False))
    sd = V / 'seeded'
    if sd.is_dir():
        for s in sorted(sd.iterdir()):
            try:
                meta = json.load(open(s / 'meta.json'))
            except Exception:
                continue
            if meta.get('property') == prop and (s / 'patch.diff').exists():
                jobs.append((prop, 'breaking', f'seeded/{s.name}', s / 'patch.diff', False))
    fx = V / 'regress' / 'fixes'
    if fx.is_dir():
        for f in sorted(fx.glob(f'{prop}*.patch')):
            jobs.append((prop, 'breaking', f'revert/{f.stem}', f, True))
    with ThreadPoolExecutor(min(16, len(jobs))) as ex:
        res = list(ex.map(lambda j: _one(*j), jobs))
    out = {'preserving': {}, 'breaking': {}, 'skipped': 0, 'false_alarms': [], 'missed': []}
    for kind, ident, rc, info in res:
        if rc == 'skipped':
            out['skipped'] += 1
            out[kind][ident] = f'skipped ({info})'
            continue
        if kind == 'preserving':
            ok = rc == 0
            out[kind][ident] = 'silent' if ok else f'exit {rc}: {info["last"]}'
            if not ok:
                out['false_alarms'].append(ident)
        else:
            ok = rc == 1
            out[kind][ident] = ('caught by ' + ' '.join(info['rules'])) if ok else f'exit {rc}: {info["last"]}'
            if not ok:
                out['missed'].append(ident)
    out['benign_not_touching_consulted_files'] = len(untouched)
    out['known_brittle_benign'] = {b: f'exit {known_brittle[b][prop]}' for b in brittle_here}
    out['applied'] = len(res) - out['skipped']
    out['detected'] = sum(1 for v in out['breaking'].values() if v.startswith('caught'))
    out['silent_ok'] = sum(1 for v in out['preserving'].values() if v == 'silent')
    return {'audit': out}
