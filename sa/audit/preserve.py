"""Behaviour-preserving source transformations used to audit the checker for
brittleness (a rule that fires on one of these is a false alarm in waiting).

  reformat       re-emit every module through ast.unparse (comments, layout, quotes, redundant parentheses go)
  rename-locals  consistently rename every local variable of every function (suffix _rn)
  augassign      rewrite `x op= e` on plain names/attributes as `x = x op e`
"""

from __future__ import annotations

import ast
import sys
from pathlib import Path


def _locals_of(fn: ast.AST) -> set[str]:
    params = set()
    a = fn.args
    for x in a.posonlyargs + a.args + a.kwonlyargs:
        params.add(x.arg)
    if a.vararg:
        params.add(a.vararg.arg)
    if a.kwarg:
        params.add(a.kwarg.arg)
    out, banned = set(), set()
    stack = list(fn.body)
    while stack:
        n = stack.pop()
        if isinstance(n, (ast.FunctionDef, ast.AsyncFunctionDef, ast.ClassDef)):
            banned.add(n.name)
            continue
        if isinstance(n, ast.Lambda):
            continue
        if isinstance(n, (ast.Global, ast.Nonlocal)):
            banned |= set(n.names)
        if isinstance(n, ast.Name) and isinstance(n.ctx, (ast.Store, ast.Del)):
            out.add(n.id)
        if isinstance(n, (ast.Import, ast.ImportFrom)):
            for al in n.names:
                banned.add((al.asname or al.name).split('.')[0])
        if isinstance(n, ast.ExceptHandler) and n.name:
            banned.add(n.name)
        if isinstance(n, (ast.MatchAs, ast.MatchStar)) and getattr(n, 'name', None):
            banned.add(n.name)
        if isinstance(n, ast.MatchMapping) and n.rest:
            banned.add(n.rest)
        stack.extend(ast.iter_child_nodes(n))
    return {x for x in out - params - banned if not x.startswith('__') and x != '_'}


class _Rename(ast.NodeTransformer):
    def __init__(self, names, suffix):
        self.names, self.suffix = names, suffix

    def visit_Name(self, n):
        if n.id in self.names:
            n.id = n.id + self.suffix
        return n


def rename_locals(tree: ast.Module, suffix='_rn') -> ast.Module:
    funcs = [n for n in ast.walk(tree) if isinstance(n, (ast.FunctionDef, ast.AsyncFunctionDef))]
    # outermost first; a nested function's own params/locals shadowing an outer local of the same
    # name would be renamed twice consistently only if handled once: collect per function, skip names
    # already renamed by an enclosing function
    done: dict[int, set[str]] = {}
    for fn in funcs:
        names = _locals_of(fn)
        # exclude names that are parameters of nested functions/lambdas (shadowing)
        for sub in ast.walk(fn):
            if sub is not fn and isinstance(sub, (ast.FunctionDef, ast.AsyncFunctionDef, ast.Lambda)):
                a = sub.args
                for x in a.posonlyargs + a.args + a.kwonlyargs:
                    names.discard(x.arg)
        names = {n for n in names if not n.endswith(suffix)}
        for st in fn.body:
            _Rename(names, suffix).visit(st)
    return tree


class _Aug(ast.NodeTransformer):
    def visit_AugAssign(self, n):
        self.generic_visit(n)
        if isinstance(n.target, (ast.Name, ast.Attribute)):
            import copy
            load = copy.deepcopy(n.target)
            for x in ast.walk(load):
                if hasattr(x, 'ctx'):
                    x.ctx = ast.Load()
            return ast.copy_location(ast.Assign(targets=[n.target], value=ast.BinOp(left=load, op=n.op, right=n.value)), n)
        return n


_FLIP = {ast.Lt: ast.Gt, ast.Gt: ast.Lt, ast.LtE: ast.GtE, ast.GtE: ast.LtE, ast.Eq: ast.Eq, ast.NotEq: ast.NotEq}
_NEG = {ast.Lt: ast.GtE, ast.GtE: ast.Lt, ast.Gt: ast.LtE, ast.LtE: ast.Gt, ast.Eq: ast.NotEq, ast.NotEq: ast.Eq,
        ast.Is: ast.IsNot, ast.IsNot: ast.Is, ast.In: ast.NotIn, ast.NotIn: ast.In}


class _FlipCmp(ast.NodeTransformer):
    """a < b  ->  b > a   (single-operator comparisons of side-effect-free operands)"""

    def visit_Compare(self, n):
        self.generic_visit(n)
        if len(n.ops) == 1 and type(n.ops[0]) in _FLIP and not any(isinstance(x, ast.Call) for x in ast.walk(n)):
            return ast.copy_location(ast.Compare(left=n.comparators[0], ops=[_FLIP[type(n.ops[0])]()], comparators=[n.left]), n)
        return n


def negate(t):
    if isinstance(t, ast.UnaryOp) and isinstance(t.op, ast.Not):
        return t.operand
    if isinstance(t, ast.Compare) and len(t.ops) == 1 and type(t.ops[0]) in _NEG:
        return ast.copy_location(ast.Compare(left=t.left, ops=[_NEG[type(t.ops[0])]()], comparators=t.comparators), t)
    return ast.copy_location(ast.UnaryOp(op=ast.Not(), operand=t), t)


class _InvertIf(ast.NodeTransformer):
    """if c: A else: B  ->  if not c: B else: A   (only plain if/else, no elif chains)"""

    def visit_If(self, n):
        self.generic_visit(n)
        if n.orelse and not (len(n.orelse) == 1 and isinstance(n.orelse[0], ast.If)) \
                and not (len(n.body) == 1 and isinstance(n.body[0], ast.If)):
            return ast.copy_location(ast.If(test=negate(n.test), body=n.orelse, orelse=n.body), n)
        return n


class _Noise(ast.NodeTransformer):
    """insert a no-op expression statement before every statement of every function body"""

    def _pad(self, body):
        out = []
        for st in body:
            if not (isinstance(st, ast.Expr) and isinstance(st.value, ast.Constant)):
                out.append(ast.Expr(value=ast.Constant(value=Ellipsis)))
            out.append(st)
        return out

    def visit_FunctionDef(self, n):
        self.generic_visit(n)
        doc = n.body[:1] if n.body and isinstance(n.body[0], ast.Expr) and isinstance(n.body[0].value, ast.Constant) \
            and isinstance(n.body[0].value.value, str) else []
        n.body = doc + self._pad(n.body[len(doc):])
        return n

    def generic_visit(self, n):
        super().generic_visit(n)
        if isinstance(n, (ast.If, ast.For, ast.While, ast.With, ast.Try)):
            for f in ('body', 'orelse', 'finalbody'):
                b = getattr(n, f, None)
                if b and not (f == 'orelse' and len(b) == 1 and isinstance(b[0], ast.If)):
                    setattr(n, f, self._pad(b))
        return n


def unique_signatures(root: Path) -> dict[str, list[str]]:
    """function/method name -> positional parameter names (without self/cls), for names
    defined exactly once under src/AEIC with no *args and no positional-only params"""
    seen: dict[str, list] = {}
    for p in sorted((root / 'src' / 'AEIC').rglob('*.py')):
        for n in ast.walk(ast.parse(p.read_text())):
            if isinstance(n, (ast.FunctionDef, ast.AsyncFunctionDef)):
                a = n.args
                if a.vararg or a.posonlyargs:
                    seen.setdefault(n.name, []).append(None)
                    continue
                ps = [x.arg for x in a.args]
                if ps[:1] in (['self'], ['cls']):
                    ps = ps[1:]
                seen.setdefault(n.name, []).append(ps)
    return {k: v[0] for k, v in seen.items() if len(v) == 1 and v[0] is not None and not k.startswith('__')}


class _KwArgs(ast.NodeTransformer):
    """f(a, b) -> f(x=a, y=b) for calls of uniquely named repository functions"""

    def __init__(self, sigs, local_defs=()):
        self.sigs = sigs
        self.local_defs = set(local_defs)

    def visit_Call(self, n):
        self.generic_visit(n)
        name = None
        if isinstance(n.func, ast.Attribute) and isinstance(n.func.value, ast.Name) and n.func.value.id in ('self', 'cls'):
            name = n.func.attr
        elif isinstance(n.func, ast.Name) and n.func.id in self.local_defs:
            name = n.func.id
        ps = self.sigs.get(name)
        if ps and n.args and not any(isinstance(a, ast.Starred) for a in n.args) and len(n.args) <= len(ps) \
                and not any(k.arg is None for k in n.keywords):
            kws = [ast.keyword(arg=ps[i], value=a) for i, a in enumerate(n.args)]
            if not ({k.arg for k in kws} & {k.arg for k in n.keywords}):
                n.keywords = kws + n.keywords
                n.args = []
        return n


def _pure(e) -> bool:
    return not any(isinstance(x, (ast.Call, ast.Await, ast.Yield, ast.YieldFrom, ast.NamedExpr, ast.Lambda,
                                  ast.ListComp, ast.SetComp, ast.DictComp, ast.GeneratorExp, ast.Starred))
                   for x in ast.walk(e))


def _blocks(fn):
    """every statement list of fn (not of nested functions/classes)"""
    out, stack = [], [fn]
    while stack:
        n = stack.pop()
        for f in ('body', 'orelse', 'finalbody'):
            b = getattr(n, f, None)
            if isinstance(b, list) and b and isinstance(b[0], ast.stmt):
                out.append((n, f, b))
                for st in b:
                    if not isinstance(st, (ast.FunctionDef, ast.AsyncFunctionDef, ast.ClassDef)):
                        stack.append(st)
        for h in getattr(n, 'handlers', []) or []:
            stack.append(h)
        for c in getattr(n, 'cases', []) or []:
            stack.append(c)
    return out


def extract_locals(tree: ast.Module) -> ast.Module:
    """return E -> _rv = E; return _rv;  if T: (not an elif) -> _cN = T; if _cN:;
    x = A op (B) with call-free operands -> _tN = B; x = A op _tN"""
    for fn in [n for n in ast.walk(tree) if isinstance(n, (ast.FunctionDef, ast.AsyncFunctionDef))]:
        if any(isinstance(x, (ast.Yield, ast.YieldFrom)) for x in ast.walk(fn)):
            continue
        k = 0
        for owner, field, body in _blocks(fn):
            out = []
            for st in body:
                if isinstance(st, ast.Return) and st.value is not None and not isinstance(st.value, (ast.Name, ast.Constant)):
                    k += 1
                    nm = f'_rv{k}'
                    out.append(ast.copy_location(ast.Assign(targets=[ast.Name(id=nm, ctx=ast.Store())], value=st.value), st))
                    st.value = ast.Name(id=nm, ctx=ast.Load())
                elif isinstance(st, ast.If) and not isinstance(st.test, (ast.Name, ast.Constant)) \
                        and not (field == 'orelse' and isinstance(owner, ast.If) and len(body) == 1) \
                        and not any(isinstance(x, ast.NamedExpr) for x in ast.walk(st.test)):
                    k += 1
                    nm = f'_c{k}'
                    out.append(ast.copy_location(ast.Assign(targets=[ast.Name(id=nm, ctx=ast.Store())], value=st.test), st))
                    st.test = ast.Name(id=nm, ctx=ast.Load())
                elif isinstance(st, ast.Assign) and isinstance(st.value, ast.BinOp) and _pure(st.value) \
                        and isinstance(st.value.right, ast.BinOp):
                    k += 1
                    nm = f'_t{k}'
                    out.append(ast.copy_location(ast.Assign(targets=[ast.Name(id=nm, ctx=ast.Store())], value=st.value.right), st))
                    st.value.right = ast.Name(id=nm, ctx=ast.Load())
                out.append(st)
            setattr(owner, field, out)
    return tree


class _Subst(ast.NodeTransformer):
    def __init__(self, name, value):
        self.name, self.value = name, value

    def visit_Name(self, n):
        if n.id == self.name and isinstance(n.ctx, ast.Load):
            return self.value
        return n


def inline_locals(tree: ast.Module) -> ast.Module:
    """v = E; S(v)  ->  S(E)  when v has one definition and one use in the whole function, the use is in the
    statement right after the definition (same block) and E is call-free"""
    for fn in [n for n in ast.walk(tree) if isinstance(n, (ast.FunctionDef, ast.AsyncFunctionDef))]:
        names = _locals_of(fn)
        loads, stores = {}, {}
        for x in ast.walk(fn):
            if isinstance(x, ast.Name):
                d = loads if isinstance(x.ctx, ast.Load) else stores
                d[x.id] = d.get(x.id, 0) + 1
        nested = set()
        for sub in ast.walk(fn):
            if sub is not fn and isinstance(sub, (ast.FunctionDef, ast.AsyncFunctionDef, ast.Lambda, ast.ListComp, ast.SetComp,
                                                  ast.DictComp, ast.GeneratorExp)):
                nested |= {x.id for x in ast.walk(sub) if isinstance(x, ast.Name)}
        for owner, field, body in _blocks(fn):
            i = 0
            while i + 1 < len(body):
                st, nx = body[i], body[i + 1]
                if isinstance(st, ast.Assign) and len(st.targets) == 1 and isinstance(st.targets[0], ast.Name):
                    v = st.targets[0].id
                    if v in names and v not in nested and stores.get(v) == 1 and loads.get(v) == 1 and _pure(st.value) \
                            and isinstance(nx, (ast.Assign, ast.AugAssign, ast.Return, ast.Expr, ast.If, ast.AnnAssign)):
                        head = nx.test if isinstance(nx, ast.If) else nx
                        uses = [x for x in ast.walk(head) if isinstance(x, ast.Name) and x.id == v and isinstance(x.ctx, ast.Load)]
                        # evaluation order: E must not read anything the rest of the using statement writes (it cannot:
                        # stores happen after the value is evaluated), and E is pure, so moving it is safe
                        if len(uses) == 1:
                            if isinstance(nx, ast.If):
                                nx.test = _Subst(v, st.value).visit(nx.test)
                            else:
                                _Subst(v, st.value).visit(nx)
                            del body[i]
                            continue
                i += 1
    return tree


_SIGS = None


def transform(path: Path, kind: str):
    src = path.read_text()
    tree = ast.parse(src)
    if kind == 'rename-locals':
        tree = rename_locals(tree)
    elif kind == 'augassign':
        tree = _Aug().visit(tree)
    elif kind == 'flip-compare':
        tree = _FlipCmp().visit(tree)
    elif kind == 'kwargs':
        global _SIGS
        if _SIGS is None:
            root = path
            while root.name != 'src':
                root = root.parent
            _SIGS = unique_signatures(root.parent)
        tree = _KwArgs(_SIGS, [x.name for x in tree.body if isinstance(x, ast.FunctionDef)]).visit(tree)
    elif kind == 'extract-locals':
        tree = extract_locals(tree)
    elif kind == 'inline-locals':
        tree = inline_locals(tree)
    elif kind == 'noise':
        tree = _Noise().visit(tree)
    elif kind == 'invert-if':
        tree = _InvertIf().visit(tree)
    ast.fix_missing_locations(tree)
    path.write_text(ast.unparse(tree) + '\n')


if __name__ == '__main__':
    kind, root = sys.argv[1], Path(sys.argv[2])
    for p in sorted((root / 'src' / 'AEIC').rglob('*.py')):
        transform(p, kind)
