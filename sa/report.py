"""Findings, obligations, known-findings matching and evidence writing."""

from __future__ import annotations

import hashlib
import json
import os
import time
from dataclasses import dataclass, field, asdict
from pathlib import Path

from .loader import AnalysisError, Program

VERIF = Path(__file__).resolve().parent.parent
KNOWN_FILE = VERIF / 'known_findings.json'


@dataclass
class Obligation:
    rule: str
    file: str
    function: str
    construct: str
    ok: bool
    why: str
    line: int = 0
    nontrivial: bool = True
    path: list[str] = field(default_factory=list)

    @property
    def key(self) -> str:
        return f'{self.rule} :: {self.file} :: {self.function} :: {self.construct}'


class RuleCtx:
    """What a property's rule module receives."""

    def __init__(self, prop: str, prog: Program, tier: str):
        self.prop = prop
        self.prog = prog
        self.tier = tier
        self.obligations: list[Obligation] = []
        self.notes: list[str] = []
        self.stats: dict[str, object] = {}
        self.rules_run: dict[str, dict] = {}
        self.assumptions: list[str] = []
        self.controls: list[dict] = []

    # one instance of a rule examined
    def ob(self, rule, where, construct, ok, why, line=0, nontrivial=True, path=None):
        """where: FunctionInfo | (file, qualname)."""
        if hasattr(where, 'qualname'):
            file, fn = where.file, where.qualname
            if not line and hasattr(where, 'node'):
                line = where.node.lineno
        else:
            file, fn = where
        o = Obligation(rule, file, fn, ' '.join(str(construct).split()), bool(ok), why,
                       int(-(-(line or 0) // 1)), nontrivial, list(path or []))
        self.obligations.append(o)
        if file in self.prog.modules:
            self.prog.consulted.add(file)
        return o

    def floor(self, rule: str, found: int, expected: int, what: str = 'instances'):
        """Instance floor: a rule that matches fewer sites than were confirmed by
        hand has lost its anchor; that is never a pass and never a violation."""
        r = self.rules_run.setdefault(rule, {})
        r['found'] = found
        r['floor'] = expected
        if found < expected:
            raise AnalysisError(
                f'rule={rule} expected>={expected} {what}, found={found} '
                f'(anchor vanished or idiom not recognised)'
            )

    def control(self, rule: str, matched: bool, what: str):
        """Positive control for zero-expected rules: the matcher must still
        match an embedded example."""
        self.controls.append({'rule': rule, 'matched': bool(matched), 'what': what})
        if not matched:
            raise AnalysisError(f'rule={rule} positive control did not match: {what}')

    def undecided(self, rule: str, where, construct: str, why: str):
        file, fn = (where.file, where.qualname) if hasattr(where, 'qualname') else where
        raise AnalysisError(f'UNDECIDED rule={rule} {file} {fn} :: {construct} — {why}')

    def note(self, s: str):
        self.notes.append(s)


def load_known() -> list[dict]:
    if not KNOWN_FILE.exists():
        return []
    return json.loads(KNOWN_FILE.read_text())['findings']


def finish(ctx: RuleCtx, t0: float, seed: int, extra_cov: dict | None = None) -> int:
    """Print the report, write evidence, return the exit code."""
    known = [k for k in load_known() if k.get('property') == ctx.prop]
    known_keys = {k['key']: k for k in known if k.get('status') == 'known'}
    failed = [o for o in ctx.obligations if not o.ok]
    seen_keys = set()
    new: list[Obligation] = []
    known_hit: list[tuple[Obligation, dict]] = []
    for o in failed:
        if o.key in seen_keys:
            continue
        seen_keys.add(o.key)
        if o.key in known_keys:
            known_hit.append((o, known_keys[o.key]))
        else:
            new.append(o)

    for o, k in known_hit:
        print(f'KNOWN-FINDING: property={ctx.prop} {k["what"]}  [{o.file}:{o.line} {o.rule} {o.function}]')
    replay_path = None
    if new:
        rdir = Path(os.environ.get('AEIC_VERIF_EVIDENCE_DIR') or (VERIF / 'evidence')) / 'replay'
        rdir.mkdir(parents=True, exist_ok=True)
        h = hashlib.sha256('|'.join(sorted(o.key for o in new)).encode()).hexdigest()[:12]
        replay_path = rdir / f'{ctx.prop}-{h}.json'
        replay_path.write_text(json.dumps({
            'property': ctx.prop,
            'tier': ctx.tier,
            'findings': [asdict(o) | {'key': o.key} for o in new],
        }, indent=1))
        for o in new:
            print(f'{o.file}:{o.line}  {o.rule}  {o.function}  {o.construct} — {o.why}')
            for p in o.path:
                print(f'      path: {p}')

    obs = ctx.obligations
    distinct = {o.key for o in obs if o.nontrivial}
    samples = []
    per_rule_seen: dict[str, int] = {}
    for o in obs:
        c = per_rule_seen.get(o.rule, 0)
        if c < 3 or not o.ok:
            samples.append({
                'rule': o.rule, 'file': o.file, 'function': o.function, 'line': o.line,
                'construct': o.construct[:200], 'verdict': 'holds' if o.ok else
                ('known-finding' if o.key in known_keys else 'VIOLATION'),
                'why': o.why[:300],
            })
        per_rule_seen[o.rule] = c + 1
    by_rule: dict[str, dict] = {}
    for o in obs:
        r = by_rule.setdefault(o.rule, {'instances': 0, 'held': 0})
        r['instances'] += 1
        r['held'] += 1 if o.ok else 0
    for r, d in ctx.rules_run.items():
        by_rule.setdefault(r, {'instances': 0, 'held': 0}).update(d)
    cov = {
        'explanation': (
            f'Static analysis of /repo working tree (ast, never imported or run). '
            f'{len(obs)} rule instances examined over {len(ctx.prog.consulted)} files; '
            f'rules: {", ".join(sorted(by_rule))}. '
            f'Each obligation is a specific construct (file, function, call site / '
            f'statement / path) checked against the rule named in DESIGN.md section 4 '
            f'({ctx.prop}).'
        ),
        'obligations': len(obs),
        'discharged': sum(1 for o in obs if o.ok),
        'evaluations': len(obs),
        'distinct_nontrivial': len(distinct),
        'rule': 'one evaluation = one rule instance at one construct; distinct by '
                '(rule, file, function, normalised construct); non-trivial = the verdict '
                'needed more than locating the anchor (dataflow / dominance / algebra / '
                'table comparison), as flagged by the rule itself',
        'samples': samples[:60],
        'per_rule': by_rule,
        'files_consulted': sorted(ctx.prog.consulted),
        'files_digest': ctx.prog.files_digest(),
        'positive_controls': ctx.controls,
        'known_findings_printed': [k['key'] for _, k in known_hit],
        'notes': ctx.notes,
        'stats': ctx.stats,
        'exhaustive': True,
        'trusted_base': ['CPython ast parser', 'sa engine (loader, cfg, resolver)'],
        'checker_cmd': f'./check {ctx.prop} --tier {ctx.tier}',
    }
    if extra_cov:
        cov.update(extra_cov)
    ev = {
        'property_id': ctx.prop,
        'tier': ctx.tier,
        'seed': seed,
        'level': 'other',
        'coverage': cov,
        'assumptions': ctx.assumptions,
        'wall_s': round(time.time() - t0, 3),
        'violations': len(new),
    }
    edir = Path(os.environ.get("AEIC_VERIF_EVIDENCE_DIR") or (VERIF / "evidence"))
    edir.mkdir(parents=True, exist_ok=True)
    (edir / f'{ctx.prop}.json').write_text(json.dumps(ev, indent=1, default=str))

    held = sum(1 for o in obs if o.ok)
    print(f'{ctx.prop} [{ctx.tier}] {len(obs)} rule instances, {held} hold, '
          f'{len(known_hit)} known finding(s), {len(new)} violation(s); '
          f'{len(ctx.prog.consulted)} files consulted')
    if new:
        print(f'VIOLATION property={ctx.prop} replay={replay_path}')
        return 1
    return 0
