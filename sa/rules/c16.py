"""C16 — ground speed is the length of airspeed vector plus wind vector.

R1  component roles (T-ROLE): heading is degrees clockwise from north, wind
    `u` is eastward and `v` northward, so the air-speed term added to the value
    read from dataset variable 'u' must derive from sin(heading) and the one
    added to 'v' from cos(heading).
R2  the result is hypot of exactly those two *sums*.
R3  the return is dominated by the NaN test (on both wind components) that
    raises: points outside the data domain are refused.
R4  altitude -> Pa -> hPa uses the ISA function divided by 100 for both
    components; interpolation coordinates receive matching roles.
R5  the trigonometric argument is the heading converted to radians; the
    explicit azimuth overrides the ground-track azimuth only when given.
R6  the hourly slice cache is keyed on what it was sliced by.
"""

from __future__ import annotations

import ast

from ..astutil import call_name, calls_in, guards_of, kwarg, norm, single_def_value, stores_to, walk_no_nested
from ..cfg import CFG
from ..roles import expr_role

W = 'weather.py'
EXPECT = {'u': 'sin', 'v': 'cos'}


def _trig_of(fn, e, depth=0):
    """which of sin/cos an air-speed term derives from (through single-def locals)"""
    found = set()
    for x in ast.walk(e):
        if isinstance(x, ast.Call) and call_name(x).split('.')[-1] in ('sin', 'cos'):
            found.add((call_name(x).split('.')[-1], x))
    if found:
        return found
    if depth < 3:
        for x in ast.walk(e):
            if isinstance(x, ast.Name):
                d = single_def_value(fn, x.id)
                if d is not None:
                    found |= _trig_of(fn, d, depth + 1)
    return found


def _wind_var(fn, e, depth=0):
    """dataset variable ('u'/'v') a wind term is read from"""
    for x in ast.walk(e):
        if isinstance(x, ast.Subscript) and isinstance(x.slice, ast.Constant) and x.slice.value in ('u', 'v') \
                and '_ds' in norm(x.value):
            return x.slice.value
    if depth < 3:
        for x in ast.walk(e):
            if isinstance(x, ast.Name):
                d = single_def_value(fn, x.id)
                if d is not None:
                    r = _wind_var(fn, d, depth + 1)
                    if r:
                        return r
    return None


def run(ctx):
    prog = ctx.prog
    m = prog.module(W)
    gs = m.func('Weather.get_ground_speed')
    fn = gs.node
    rets = [n for n in walk_no_nested(fn) if isinstance(n, ast.Return) and n.value is not None]
    if len(rets) != 1:
        ctx.undecided('C16-R2', gs, 'return', f'{len(rets)} return statements')
    rv = rets[0].value
    hyp = None
    for x in ast.walk(rv):
        if isinstance(x, ast.Call) and call_name(x).split('.')[-1] == 'hypot' and len(x.args) == 2:
            hyp = x
    if hyp is None:
        # sqrt(a**2 + b**2) form
        ctx.undecided('C16-R2', gs, norm(rv), 'result is not hypot(a, b)')
    comps = []
    for i, a in enumerate(hyp.args):
        e = a
        if isinstance(e, ast.Name):
            d = single_def_value(fn, e.id)
            e = d if d is not None else e
        is_sum = isinstance(e, ast.BinOp) and isinstance(e.op, ast.Add)
        ctx.ob('C16-R2', gs, f'hypot argument {i}: {norm(a)}', is_sum,
               'sum of an air-speed component and a wind component' if is_sum else
               'a hypot argument is not the sum of air-speed and wind components (wind is not added)',
               line=a.lineno)
        if not is_sum:
            continue
        sides = [e.left, e.right]
        wind = [s for s in sides if _wind_var(fn, s)]
        air = [s for s in sides if not _wind_var(fn, s)]
        if len(wind) != 1 or len(air) != 1:
            ctx.undecided('C16-R1', gs, norm(e), 'cannot tell the wind term from the air-speed term')
        wv = _wind_var(fn, wind[0])
        trig = _trig_of(fn, air[0])
        kinds = {k for k, _ in trig}
        if len(kinds) != 1:
            ctx.undecided('C16-R1', gs, norm(air[0]), f'air-speed term derives from {sorted(kinds)}')
        k = kinds.pop()
        comps.append((wv, k, air[0], wind[0], trig))
        ok = EXPECT[wv] == k
        axis = 'east' if wv == 'u' else 'north'
        ctx.ob('C16-R1', gs, f"{axis} component pairs wind '{wv}' with {k}(heading)", ok,
               f"heading clockwise from north: {axis} = TAS·{EXPECT[wv]}(heading)" if ok else
               (f"heading is measured clockwise from north, so the {axis}ward air-speed component is "
                f"TAS·{EXPECT[wv]}(heading); the code adds TAS·{k}(heading) to the {axis}ward wind "
                f"'{wv}': a pure tailwind on heading 090 does not add its full speed"),
               line=a.lineno)
        # air term = TAS * trig(heading)
        aexpr = air[0]
        if isinstance(aexpr, ast.Name):
            aexpr = single_def_value(fn, aexpr.id) or aexpr
        okm = isinstance(aexpr, ast.BinOp) and isinstance(aexpr.op, ast.Mult) and \
            'true_airspeed' in {norm(aexpr.left), norm(aexpr.right)}
        ctx.ob('C16-R2', gs, f'air-speed term {norm(aexpr)}', okm,
               'true airspeed times the trigonometric factor' if okm else
               'air-speed component is not TAS × sin/cos(heading)', line=aexpr.lineno, nontrivial=False)
    ctx.floor('C16-R1', len(comps), 2, 'wind/air component pairs')
    if {c[0] for c in comps} != {'u', 'v'}:
        ctx.ob('C16-R2', gs, f'components use winds {sorted(c[0] for c in comps)}', False,
               "both 'u' and 'v' must enter the vector sum", line=hyp.lineno)

    # R5 heading
    for wv, k, air, wind, trig in comps:
        for kind, call in trig:
            arg = call.args[0]
            d = arg
            defs = [st for t, st, how in stores_to(fn) if isinstance(arg, ast.Name) and isinstance(t, ast.Name) and t.id == arg.id]
            okd = bool(defs) and all(isinstance(s.value, ast.Call) and call_name(s.value).split('.')[-1] in ('deg2rad', 'radians')
                                     for s in defs)
            ctx.ob('C16-R5', gs, f'{kind}({norm(arg)}) takes radians', okd,
                   'heading converted with deg2rad on every path' if okd else
                   'trigonometric argument is not the heading converted to radians', line=call.lineno)
            for s in defs:
                src = norm(s.value.args[0]) if isinstance(s.value, ast.Call) and s.value.args else '?'
                g = [(norm(t), pol) for t, pol, _ in guards_of(s)]
                if ('azimuth is None', True) in g:
                    ok = src == 'gt_point.azimuth'
                elif ('azimuth is None', False) in g:
                    ok = src == 'azimuth'
                else:
                    ok = src in ('azimuth', 'gt_point.azimuth')
                ctx.ob('C16-R5', gs, f'heading source {src} under {g}', ok,
                       'explicit azimuth when given, else the ground-track azimuth' if ok else
                       'wrong heading source for this branch', line=s.lineno, nontrivial=False)
            break

    # R3 NaN refusal
    g = CFG(fn)
    dom = g.dominators(edge_ok=lambda a, b, lab: lab != 'e')
    gate = None
    for n in g.nodes:
        if n.kind == 'stmt' and isinstance(n.stmt, ast.Raise):
            gsx = guards_of(n.stmt)
            for t, pol, o in gsx:
                txt = norm(t)
                if 'isnull()' in txt or 'isnan' in txt:
                    both = all(v in txt for v in ('wind_u', 'wind_v')) and isinstance(t, ast.BoolOp) and isinstance(t.op, ast.Or)
                    gate = (g.nodes_of(o), both, txt)
    rn = [n for n in g.nodes if n.stmt is rets[0]]
    ok = gate is not None and gate[1] and any(x in dom[rn[0].id] for x in gate[0])
    ctx.ob('C16-R3', gs, 'points outside the weather domain are refused', ok,
           f'`if {gate[2]}: raise` dominates the return' if ok else
           ('no NaN test' if gate is None else 'the NaN test does not cover both components or does not dominate the return'))

    # R4 pressure level and coordinate roles
    interps = [c for c in calls_in(fn) if isinstance(c.func, ast.Attribute) and c.func.attr == 'interp']
    ctx.floor('C16-R4', len(interps), 2, 'wind interpolation calls')
    for c in interps:
        pl = kwarg(c, 'pressure_level')
        ok = pl is not None and norm(pl) in ('pressure_at_altitude_isa_bada4(altitude) / 100.0',
                                             'pressure_at_altitude_isa_bada4(altitude) / 100',
                                             'pressure_at_altitude_isa_bada4(altitude) * 0.01')
        ctx.ob('C16-R4', gs, f'pressure_level={norm(pl) if pl is not None else "?"}', ok,
               'ISA pressure in Pa converted to hPa' if ok else
               'pressure level is not ISA pressure(altitude) / 100 (files are in hPa)', line=c.lineno)
        for kw in ('latitude', 'longitude'):
            v = kwarg(c, kw)
            r = expr_role(fn, v) if v is not None else None
            want = 'lat' if kw == 'latitude' else 'lon'
            ok = r == want and 'gt_point' in norm(v)
            ctx.ob('C16-R4', gs, f'{kw}={norm(v) if v is not None else "?"}', ok,
                   'coordinate receives the matching component of the ground-track point' if ok else
                   f'{kw} coordinate receives `{norm(v) if v is not None else None}`', line=c.lineno,
                   nontrivial=False)
    vars_ = sorted(_wind_var(fn, c.func.value) or '?' for c in interps)
    ctx.ob('C16-R4', gs, f'interpolated variables {vars_}', vars_ == ['u', 'v'],
           "one interpolation each for 'u' and 'v'" if vars_ == ['u', 'v'] else 'wind variables read are not u and v',
           nontrivial=False)

    # the altitude -> pressure conversion itself (shared with C12-R1/R2: canonical-form comparison with ISA)
    from .c12 import rule_isa
    sub = type(ctx)(ctx.prop, ctx.prog, ctx.tier)
    try:
        rule_isa(sub)
    finally:
        for o in sub.obligations:
            if 'pressure_at_altitude' in o.function or 'temperature_at_altitude' in o.function or o.function == '<module>':
                o.rule = 'C16-R4'
                ctx.obligations.append(o)

    # R6 slice cache key
    rd = m.func('Weather._require_data')
    src = ' '.join(norm(s) for s in rd.node.body)
    ok = 'self._ds_time_idx == time.hour' in src and 'isel(valid_time=time.hour)' in src and \
        'self._ds_time_idx = time.hour' in src
    ctx.ob('C16-R6', rd, 'hourly slice cached under the hour it was cut for', ok,
           'slice index, cache key and cache test all use time.hour' if ok else
           'slice cache key and slice index disagree: a later query reuses the wrong hour')
    rm = m.func('Weather._require_main_ds')
    src = ' '.join(norm(s) for s in rm.node.body)
    ok = 'self._ds = None' in src and 'self._ds_time_idx = None' in src and 'self._ds_date = time' in src
    ctx.ob('C16-R6', rm, 'opening another file invalidates the slice', ok,
           'slice and its key cleared before the new file is read' if ok else
           'a slice of the previous day survives opening a new file')
    ctx.assumptions += ["ERA5 convention: 'u' eastward, 'v' northward wind; pressure_level in hPa",
                        'xarray interp returns NaN outside the coordinate range']
