"""C16 — ground speed is the length of airspeed vector plus wind vector.

All rules read Weather.get_ground_speed through its *value flow* (c12.ValueCase):
locals are followed through their unique reaching definition, tuple unpacking
component-wise, helpers of the module through their single `return` with the
arguments substituted, loops over a literal tuple through their unrolling — so
the verdicts do not depend on whether a step is written inline, in a local, in
a loop or in a helper method.

R1  component roles (T-ROLE): heading is degrees clockwise from north, wind
    `u` is eastward and `v` northward, so the air-speed term added to the value
    read from dataset variable 'u' must derive from sin(heading) and the one
    added to 'v' from cos(heading).
R2  the result is the norm (hypot / sqrt of squares / linalg.norm) of exactly
    those two *sums*; the air-speed term is exactly TAS x sin|cos.
R3  both wind values are known NaN-free at the return on every path (must-
    dataflow over the CFG): a branch on a NaN test (`isnull`/`isnan`/`x != x`,
    or `notnull`/`isfinite` with the opposite sense; `and`/`or`/`not`, named
    conditions, `any(... for w in (a, b))`, one test per component, a loop over
    the components) proves it on the edge where the test says "no NaN"; values
    are identified by the binding they come from, through copies and scalar
    conversions; a helper that returns the winds proves it if its own analysis
    does at its `return`, a helper that cannot return normally unless its
    arguments are NaN-free proves it for them.
R4  altitude -> Pa -> hPa: the `pressure_level` of each wind interpolation is
    exactly ISA pressure(altitude) / 100 (algebraic comparison; module
    constants folded) for both components; interpolation coordinates receive
    matching roles; one interpolation each for 'u' and 'v'.
R5  the trigonometric argument is the heading converted to radians (deg2rad /
    radians / x·pi/180); the selection of the heading is *run* for an absent
    azimuth, an explicit azimuth of 0 (falsy) and an ordinary explicit azimuth
    (if/else, conditional expression, `or`, rebinding of the parameter, match):
    the ground-track azimuth must be used exactly when no azimuth is given.
R6  the hourly slice cache is keyed on what it was sliced by.
"""

from __future__ import annotations

import ast

from ..algebra import AlgebraError, normal_form, poly_equal
from ..astutil import call_name, kwarg, norm, walk_no_nested
from ..conform import ref_normal_form
from ..resolve import resolve_call
from ..roles import expr_role
from .c12 import Undecidable, ValueCase, _cp, unroll_literal_loops, visible_constants

W = 'weather.py'
EXPECT = {'u': 'sin', 'v': 'cos'}


def _last(c):
    return call_name(c).split('.')[-1]


def _wind_vars(e):
    """dataset variables ('u' / 'v') an expression reads: ds['u'], ds.get('u'), ds.u"""
    out = set()
    for x in ast.walk(e):
        if isinstance(x, ast.Subscript) and isinstance(x.slice, ast.Constant) and x.slice.value in ('u', 'v'):
            out.add(x.slice.value)
        elif isinstance(x, ast.Call) and isinstance(x.func, ast.Attribute) and x.func.attr in ('get', 'variables', '__getitem__') \
                and x.args and isinstance(x.args[0], ast.Constant) and x.args[0].value in ('u', 'v'):
            out.add(x.args[0].value)
        elif isinstance(x, ast.Attribute) and x.attr in ('u', 'v') and isinstance(x.value, (ast.Attribute, ast.Name)) \
                and norm(x.value) not in ('np', 'numpy', 'math'):
            out.add(x.attr)
    return out


def _trig_calls(e):
    return [x for x in ast.walk(e) if isinstance(x, ast.Call) and _last(x) in ('sin', 'cos')]


def _vector_norm(e):
    """[a, b] when e computes sqrt(a² + b²): hypot(a, b), sqrt(a**2 + b**2), linalg.norm([a, b])"""
    for x in ast.walk(e):
        if not isinstance(x, ast.Call):
            continue
        nm = _last(x)
        if nm == 'hypot' and len(x.args) == 2 and not x.keywords:
            return list(x.args), x
        if nm == 'norm' and len(x.args) == 1 and isinstance(x.args[0], (ast.List, ast.Tuple)) and len(x.args[0].elts) == 2 \
                and not x.keywords:
            return list(x.args[0].elts), x
        if nm == 'sqrt' and len(x.args) == 1 and isinstance(x.args[0], ast.BinOp) and isinstance(x.args[0].op, ast.Add):
            sq = []
            for t in (x.args[0].left, x.args[0].right):
                if isinstance(t, ast.BinOp) and isinstance(t.op, ast.Pow) and isinstance(t.right, ast.Constant) and t.right.value == 2:
                    sq.append(t.left)
                elif isinstance(t, ast.BinOp) and isinstance(t.op, ast.Mult) and norm(t.left) == norm(t.right):
                    sq.append(t.left)
            if len(sq) == 2:
                return sq, x
    return None, None


def _find_norm(F, e, at, depth=0):
    """the vector norm the returned value is, looking through locals: (components, anchor call, CFG node)"""
    comps, call = _vector_norm(e)
    if comps is not None:
        return comps, call, at
    if depth < 4:
        for x in ast.walk(e):
            if isinstance(x, ast.Name):
                b = F.binding(x.id, at)
                if b is not None and b[2] is None:
                    r = _find_norm(F, b[0], b[1], depth + 1)
                    if r[0] is not None:
                        return r
    return None, None, None


def _step(F, e, at):
    """a local name replaced by its one definition (one step, for display and structure)"""
    if isinstance(e, ast.Name):
        b = F.binding(e.id, at)
        if b is not None and b[2] is None:
            return b[0], b[1]
    return e, at


def _radians_of(e):
    """X when e is X converted from degrees to radians: deg2rad(X), radians(X), X·π/180 in any arrangement"""
    if isinstance(e, ast.Call) and _last(e) in ('deg2rad', 'radians') and len(e.args) == 1 and not e.keywords:
        return e.args[0]
    cands = [x for x in ast.walk(e) if isinstance(x, (ast.Name, ast.Attribute, ast.IfExp, ast.BoolOp, ast.Subscript))
             and norm(x) not in ('np.pi', 'math.pi', 'pi', 'numpy.pi', 'np', 'math', 'numpy')]
    # structural attempt: replace each candidate by a symbol and compare with symbol·π/180
    for c in cands:
        txt = norm(c)

        class T(ast.NodeTransformer):
            def visit(self, n):
                if isinstance(n, ast.expr) and norm(n) == txt:
                    return ast.Name('HEADING_DEG', ast.Load())
                if isinstance(n, (ast.Attribute, ast.Name)) and norm(n) in ('np.pi', 'math.pi', 'pi', 'numpy.pi'):
                    return ast.Name('PI', ast.Load())
                return super().visit(n)
        try:
            if poly_equal(normal_form(T().visit(_cp(e))), ref_normal_form('HEADING_DEG * PI / 180', {})):
                return c
        except AlgebraError:
            pass
    return None


def _mod360(e):
    """X for `X % 360` / `np.mod(X, 360)` (the trigonometric functions do not see the difference), else e"""
    if isinstance(e, ast.BinOp) and isinstance(e.op, ast.Mod) and isinstance(e.right, ast.Constant) and e.right.value in (360, 360.0):
        return e.left
    if isinstance(e, ast.Call) and _last(e) in ('mod', 'fmod', 'remainder') and len(e.args) == 2 \
            and isinstance(e.args[1], ast.Constant) and e.args[1].value in (360, 360.0):
        return e.args[0]
    return e


# ---------------------------------------------------------------------------------------------- R3: NaN refusal

NAN_TESTS = ('isnull', 'isna', 'isnan')
FINITE_TESTS = ('notnull', 'notna', 'isfinite')


def _classify(e):
    """('nan' | 'finite', [tested values], reductions) for an atomic test of NaN-ness, else None"""
    red = []
    neg = False
    while True:
        if isinstance(e, ast.Call) and isinstance(e.func, ast.Attribute) and e.func.attr in ('any', 'all') and not e.args:
            red.append(e.func.attr)
            e = e.func.value
        elif isinstance(e, ast.Call) and _last(e) in ('any', 'all') and len(e.args) == 1 and not isinstance(e.args[0], (ast.GeneratorExp, ast.ListComp)):
            red.append(_last(e))
            e = e.args[0]
        elif isinstance(e, ast.Call) and isinstance(e.func, ast.Attribute) and e.func.attr in ('item', 'to_numpy', 'squeeze', 'compute', 'load') and not e.args:
            e = e.func.value
        elif isinstance(e, ast.Call) and _last(e) in ('bool', 'asarray', 'squeeze') and len(e.args) == 1:
            e = e.args[0]
        elif isinstance(e, ast.Attribute) and e.attr in ('values', 'data'):
            e = e.value
        elif isinstance(e, ast.UnaryOp) and isinstance(e.op, ast.Invert):
            neg = not neg
            e = e.operand
        else:
            break
    kind = vals = None
    if isinstance(e, ast.Call):
        nm = _last(e)
        if nm in NAN_TESTS or nm in FINITE_TESTS:
            kind = 'nan' if nm in NAN_TESTS else 'finite'
            if isinstance(e.func, ast.Attribute) and not e.args and norm(e.func.value) not in ('np', 'numpy', 'math', 'pd', 'pandas', 'xr'):
                vals = [e.func.value]
            elif len(e.args) == 1:
                a = e.args[0]
                vals = list(a.elts) if isinstance(a, (ast.List, ast.Tuple)) else [a]
    elif isinstance(e, ast.Compare) and len(e.ops) == 1 and isinstance(e.ops[0], ast.NotEq) and norm(e.left) == norm(e.comparators[0]):
        kind, vals = 'nan', [e.left]
    if kind is None or vals is None:
        return None
    if neg:
        kind = 'finite' if kind == 'nan' else 'nan'
        red = ['all' if r == 'any' else 'any' for r in red]
    return kind, vals, red


def _mentions_nan_test(e):
    return any(isinstance(x, ast.Call) and _last(x) in NAN_TESTS + FINITE_TESTS for x in ast.walk(e))


class NanRefusal:
    """Must-analysis: the set of values (by origin) known to be free of NaN at each CFG node of a function — a branch
    on a NaN test proves it for the values tested on the edge where the test says "no NaN"; `and` / `or` / `not` and
    named conditions compose; a value returned by a helper of the module is NaN-free if the helper's own analysis
    proves it at its `return`; a call of a helper that cannot return normally unless its argument is NaN-free proves
    it for the argument."""

    def __init__(self, F: ValueCase, helper, depth=0):
        self.F, self.helper, self.depth = F, helper, depth
        self.unknown = []
        g = F.g
        self.ins, _ = g.forward(frozenset(), self._transfer, lambda a, b: a & b, branch_transfer=self._branch)

    def facts(self, e, pol, at, depth=0):
        F = self.F
        if isinstance(e, ast.Name) and depth < 4:
            b = F.binding(e.id, at)
            if b is not None and b[2] is None:
                return self.facts(b[0], pol, b[1], depth + 1)
            return frozenset()
        if isinstance(e, ast.UnaryOp) and isinstance(e.op, ast.Not):
            return self.facts(e.operand, not pol, at, depth)
        if isinstance(e, ast.BoolOp):
            parts = [self.facts(v, pol, at, depth) for v in e.values]
            every = isinstance(e.op, ast.And) == pol       # `a and b` true / `a or b` false: every operand has that value
            return frozenset().union(*parts) if every else frozenset.intersection(*parts)
        if isinstance(e, ast.Call) and _last(e) == 'bool' and len(e.args) == 1:
            return self.facts(e.args[0], pol, at, depth)
        c = _classify(e)
        if c is None:
            if _mentions_nan_test(e):
                self.unknown.append(norm(e)[:80])
            return frozenset()
        kind, vals, red = c
        proves = (kind == 'nan' and not pol and 'all' not in red) or (kind == 'finite' and pol and 'any' not in red)
        if not proves:
            if (kind == 'nan' and not pol) or (kind == 'finite' and pol):
                self.unknown.append(norm(e)[:80])
            return frozenset()
        return frozenset(o for o in (F.origin(v, at) for v in vals) if o is not None)

    def _branch(self, node, lab, st):
        if node.kind == 'test':
            return st | self.facts(node.stmt.test, lab == 't', node.id)
        return st

    def _transfer(self, node, st):
        if node.kind != 'stmt' or self.depth > 2:
            return st
        s = node.stmt
        v = s.value if isinstance(s, (ast.Assign, ast.AnnAssign, ast.Expr)) else None
        if not isinstance(v, ast.Call):
            return st
        sub = self.helper(v, self.depth + 1)
        if sub is None:
            return st
        callee, ret_free, params_free, binder = sub
        add = set()
        if isinstance(s, ast.Assign):
            for idx in ret_free:
                add.add((self.F.fn.name, node.id, idx))
        for p in params_free:
            a = binder(p)
            o = self.F.origin(a, node.id) if a is not None else None
            if o is not None:
                add.add(o)
        return st | frozenset(add)

    def summary(self):
        """(components of the returned value that are NaN-free at every `return`; parameters that are NaN-free
        whenever the function returns normally)"""
        F = self.F
        rets = [n for n in F.g.nodes if n.kind == 'stmt' and isinstance(n.stmt, ast.Return) and n.id in self.ins]
        free = None
        for n in rets:
            v = n.stmt.value
            if v is None:
                here = set()
            elif isinstance(v, ast.Tuple):
                here = {i for i, e in enumerate(v.elts) if F.origin(e, n.id) in self.ins[n.id]}
            else:
                here = {None} if F.origin(v, n.id) in self.ins[n.id] else set()
            free = here if free is None else free & here
        ex = self.ins.get(F.g.exit)
        pfree = {o[1] for o in ex if o[0] == 'param'} if ex is not None else set()
        return free or set(), pfree


def _arg_binder(callee, call):
    a = callee.args
    names = [p.arg for p in a.posonlyargs + a.args]
    if isinstance(call.func, ast.Attribute) and names and names[0] in ('self', 'cls'):
        names = names[1:]
    bind = dict(zip(names, call.args))
    for k in call.keywords:
        if k.arg:
            bind[k.arg] = k.value
    return bind.get


def _run_ground_speed(ctx, m, gs, fn, callee_of):
    F = ValueCase(fn, None, None, m.tree, callee_of)
    rets = [n for n in walk_no_nested(fn) if isinstance(n, ast.Return) and n.value is not None]
    if len(rets) != 1:
        ctx.undecided('C16-R2', gs, 'return', f'{len(rets)} return statements')
    ret = rets[0]
    at_ret = F.node_of(ret)
    args, hyp, at_h = _find_norm(F, ret.value, at_ret)
    if args is None:
        ctx.undecided('C16-R2', gs, norm(ret.value), 'result is not hypot(a, b) / sqrt(a² + b²)')

    # R2 / R1: each component is (air-speed term) + (wind term); which wind variable, which trigonometric function
    comps = []
    for i, a in enumerate(args):
        e, at_e = _step(F, a, at_h)
        is_sum = isinstance(e, ast.BinOp) and isinstance(e.op, ast.Add)
        ctx.ob('C16-R2', gs, f'hypot argument {i}: {norm(a)}', is_sum,
               'sum of an air-speed component and a wind component' if is_sum else
               'a hypot argument is not the sum of air-speed and wind components (wind is not added)',
               line=a.lineno)
        if not is_sum:
            continue
        sides = [(sd, F.resolve(sd, at_e)) for sd in (e.left, e.right)]
        wind = [(sd, r) for sd, r in sides if _wind_vars(r) and not _trig_calls(r)]
        air = [(sd, r) for sd, r in sides if _trig_calls(r) and not _wind_vars(r)]
        if len(wind) != 1 or len(air) != 1:
            ctx.undecided('C16-R1', gs, norm(e), 'cannot tell the wind term from the air-speed term')
        wvs = _wind_vars(wind[0][1])
        if len(wvs) != 1:
            ctx.undecided('C16-R1', gs, norm(wind[0][0]), f'wind term reads dataset variables {sorted(wvs)}')
        wv = wvs.pop()
        kinds = {_last(c) for c in _trig_calls(air[0][1])}
        if len(kinds) != 1:
            ctx.undecided('C16-R1', gs, norm(air[0][0]), f'air-speed term derives from {sorted(kinds)}')
        k = kinds.pop()
        comps.append((wv, k, air[0], wind[0], at_e))
        ok = EXPECT[wv] == k
        axis = 'east' if wv == 'u' else 'north'
        ctx.ob('C16-R1', gs, f"{axis} component pairs wind '{wv}' with {k}(heading)", ok,
               f"heading clockwise from north: {axis} = TAS·{EXPECT[wv]}(heading)" if ok else
               (f"heading is measured clockwise from north, so the {axis}ward air-speed component is "
                f"TAS·{EXPECT[wv]}(heading); the code adds TAS·{k}(heading) to the {axis}ward wind "
                f"'{wv}': a pure tailwind on heading 090 does not add its full speed"),
               line=a.lineno)
        # air term = TAS * trig(heading), as an exact product
        shown, _ = _step(F, air[0][0], at_e)
        tc = _trig_calls(air[0][1])[0]
        ttxt = norm(tc)

        class K(ast.NodeTransformer):
            def visit_Call(self, n):
                return ast.Name('TRIG', ast.Load()) if norm(n) == ttxt else self.generic_visit(n)
        try:
            okm = poly_equal(normal_form(K().visit(_cp(air[0][1]))), ref_normal_form('true_airspeed * TRIG', {}))
        except AlgebraError:
            okm = False
        okm = okm and 'true_airspeed' in F.params
        ctx.ob('C16-R2', gs, f'air-speed term {norm(shown)}', okm,
               'true airspeed times the trigonometric factor' if okm else
               'air-speed component is not TAS × sin/cos(heading)', line=shown.lineno, nontrivial=False)
    ctx.floor('C16-R1', len(comps), 2, 'wind/air component pairs')
    if {c[0] for c in comps} != {'u', 'v'}:
        ctx.ob('C16-R2', gs, f'components use winds {sorted(c[0] for c in comps)}', False,
               "both 'u' and 'v' must enter the vector sum", line=hyp.lineno)

    # R5 heading: for an absent azimuth, an explicit azimuth of 0 (falsy) and an ordinary explicit azimuth, run the
    # selection of the heading as that value runs it (if/else, conditional expression, `or`, rebinding of the parameter,
    # match) and look at what reaches the trigonometric function
    if 'azimuth' not in F.params:
        ctx.undecided('C16-R5', gs, 'azimuth', 'get_ground_speed no longer takes the optional azimuth')
    for wv, k, (air_sd, air_r), wind_, at_e in comps:
        st_e = F.g.nodes[at_e].stmt
        shown, _ = _step(F, air_sd, at_e)
        tshown = (_trig_calls(shown) or _trig_calls(air_r))[0]
        srcs = []
        for val in (None, 0.0, 90.0):
            try:
                Fv = ValueCase(fn, 'azimuth', val, m.tree, callee_of)
                at_v = Fv.node_of(st_e)
                if at_v is None:
                    ctx.undecided('C16-R5', gs, norm(st_e)[:60], f'not reached when azimuth = {val}')
                rv = Fv.resolve(air_sd, at_v)
            except Undecidable as ex:
                ctx.undecided('C16-R5', gs, f'heading when azimuth = {val}', str(ex))
            tcs = _trig_calls(rv)
            x = _radians_of(tcs[0].args[0]) if tcs and len(tcs[0].args) == 1 else None
            srcs.append((val, x))
        okd = all(x is not None for _, x in srcs)
        ctx.ob('C16-R5', gs, f'{k}({norm(tshown.args[0]) if tshown.args else "?"}) takes radians', okd,
               'heading converted from degrees to radians on every path' if okd else
               'trigonometric argument is not the heading converted to radians', line=tshown.lineno)
        for val, x in srcs:
            if x is None:
                continue
            src = norm(_mod360(x))
            want = 'gt_point.azimuth' if val is None else 'azimuth'
            ok = src == want
            when = 'no azimuth is given' if val is None else f'azimuth = {val}'
            ctx.ob('C16-R5', gs, f'heading source when {when}: {src}', ok,
                   'explicit azimuth when given, else the ground-track azimuth' if ok else
                   (f'with {when} the heading must be `{want}`, the code uses `{src}`' +
                    (': a heading of exactly 0° (due north) is replaced by the ground-track azimuth' if val == 0.0 else '')),
                   line=tshown.lineno, nontrivial=False)

    # R3 NaN refusal: both wind values are known NaN-free at the return, on every path
    cache = {}

    def helper(call, depth):
        callee = callee_of(call)
        if callee is None:
            return None
        if id(callee) not in cache:
            cfn = unroll_literal_loops(callee)
            nr_ = NanRefusal(ValueCase(cfn, None, None, m.tree, callee_of), helper, depth)
            cache[id(callee)] = (cfn,) + nr_.summary()
        cfn, rfree, pfree = cache[id(callee)]
        return cfn, rfree, pfree, _arg_binder(cfn, call)

    nr = NanRefusal(F, helper)
    state = nr.ins.get(at_ret, frozenset())
    missing = []
    for wv, k, air_, (wind_sd, wind_r), at_e in comps:
        o = F.origin(wind_sd, at_e)
        if o is None:
            ctx.undecided('C16-R3', gs, norm(wind_sd)[:60], 'the wind term is not a named value a NaN test could refer to')
        if o not in state:
            missing.append(wv)
    ok = not missing and len(comps) == 2
    if not ok and nr.unknown:
        ctx.undecided('C16-R3', gs, nr.unknown[0], 'a NaN test of a form that is not recognised')
    ctx.ob('C16-R3', gs, 'points outside the weather domain are refused', ok,
           'a NaN test on both wind components that raises precedes the return on every path' if ok else
           (f"the wind component(s) {sorted(missing)} reach the result without a NaN test that raises on every path: "
            'a point outside the data domain yields NaN instead of being refused'), line=ret.lineno)

    # R4 pressure level and coordinate roles
    interps = []
    for wv, k, air_, (wind_sd, wind_r), at_e in comps:
        interps += [c for c in ast.walk(wind_r) if isinstance(c, ast.Call) and isinstance(c.func, ast.Attribute)
                    and c.func.attr == 'interp']
    ctx.floor('C16-R4', len(interps), 2, 'wind interpolation calls')
    want_pl = ref_normal_form('pressure_at_altitude_isa_bada4(altitude) / 100', {})
    vis = visible_constants(ctx.prog, m)
    for c in interps:
        pl = kwarg(c, 'pressure_level')
        try:
            ok = pl is not None and 'altitude' in F.params and poly_equal(normal_form(pl, {}, vis), want_pl)
        except AlgebraError:
            ok = False
        ctx.ob('C16-R4', gs, f'pressure_level={norm(pl) if pl is not None else "?"}', ok,
               'ISA pressure in Pa converted to hPa' if ok else
               'pressure level is not ISA pressure(altitude) / 100 (files are in hPa)', line=c.lineno)
        for kw in ('latitude', 'longitude'):
            v = kwarg(c, kw)
            r = expr_role(None, v) if v is not None else None
            want = 'lat' if kw == 'latitude' else 'lon'
            ok = r == want and 'gt_point' in F.params and any(isinstance(x, ast.Name) and x.id == 'gt_point' for x in ast.walk(v))
            ctx.ob('C16-R4', gs, f'{kw}={norm(v) if v is not None else "?"}', ok,
                   'coordinate receives the matching component of the ground-track point' if ok else
                   f'{kw} coordinate receives `{norm(v) if v is not None else None}`', line=c.lineno,
                   nontrivial=False)
    vars_ = sorted(''.join(sorted(_wind_vars(c.func.value))) or '?' for c in interps)
    ctx.ob('C16-R4', gs, f'interpolated variables {vars_}', vars_ == ['u', 'v'],
           "one interpolation each for 'u' and 'v'" if vars_ == ['u', 'v'] else 'wind variables read are not u and v',
           nontrivial=False)


def run(ctx):
    prog = ctx.prog
    m = prog.module(W)
    gs = m.func('Weather.get_ground_speed')
    fn = unroll_literal_loops(gs.node)

    def callee_of(call):
        """helpers of this module are followed; everything else is a primitive"""
        try:
            fi = resolve_call(prog, gs, call)
        except Exception:
            fi = None
        return fi.node if fi is not None and fi.file == gs.file and fi.node is not gs.node else None

    try:
        _run_ground_speed(ctx, m, gs, fn, callee_of)
    except Undecidable as ex:
        ctx.undecided('C16-R1', gs, 'value flow', str(ex))

    # the altitude -> pressure conversion itself (shared with C12-R1/R2: canonical-form comparison with ISA)
    from .c12 import rule_isa
    sub = type(ctx)(ctx.prop, ctx.prog, ctx.tier)
    try:
        rule_isa(sub)
    finally:
        for o in sub.obligations:
            if 'pressure_at_altitude' in o.function or 'temperature_at_altitude' in o.function or o.function == '<module>':
                o.rule = 'C16-R4'
                ctx.obligations.append(o)

    # R6 slice cache key
    rd = m.func('Weather._require_data')
    src = ' '.join(norm(s) for s in rd.node.body)
    ok = 'self._ds_time_idx == time.hour' in src and 'isel(valid_time=time.hour)' in src and \
        'self._ds_time_idx = time.hour' in src
    ctx.ob('C16-R6', rd, 'hourly slice cached under the hour it was cut for', ok,
           'slice index, cache key and cache test all use time.hour' if ok else
           'slice cache key and slice index disagree: a later query reuses the wrong hour')
    rm = m.func('Weather._require_main_ds')
    src = ' '.join(norm(s) for s in rm.node.body)
    ok = 'self._ds = None' in src and 'self._ds_time_idx = None' in src and 'self._ds_date = time' in src
    ctx.ob('C16-R6', rm, 'opening another file invalidates the slice', ok,
           'slice and its key cleared before the new file is read' if ok else
           'a slice of the previous day survives opening a new file')
    ctx.assumptions += ["ERA5 convention: 'u' eastward, 'v' northward wind; pressure_level in hPa",
                        'xarray interp returns NaN outside the coordinate range']
