"""C16 — ground speed is the length of airspeed vector plus wind vector.

All rules read Weather.get_ground_speed through its *value flow* (c12.ValueCase):
locals are followed through their unique reaching definition, tuple unpacking
component-wise, helpers of the module through their single `return` with the
arguments substituted, loops over a literal tuple through their unrolling, a
local dict used only under constant keys as one local per key, a local
record of the module (NamedTuple / dataclass of annotated fields, built once
and used only through its fields and one-expression properties / methods) as
one local per field with the members opened where they are read — so the
verdicts do not depend on whether a step is written inline, in a local, in a
loop, in a dict of components (display or comprehension over constant keys),
in a record of components or in a helper method.  When the function ends in several `return` statements
(a guard clause or a dispatcher per way of calling it, whose variants the
loader put back) every reachable one is held to R1-R5 for the cases of the
azimuth (absent, 0, ordinary) that reach it, and every case must reach one;
a result joined from the branches on the azimuth (`if azimuth is None: gs =
... else: gs = ...; return gs`) is read with the common tail moved into the
branches.

R1  component roles (T-ROLE): heading is degrees clockwise from north, wind
    `u` is eastward and `v` northward, so the air-speed term added to the value
    read from dataset variable 'u' must derive from sin(heading) and the one
    added to 'v' from cos(heading).
R2  the result is the norm (hypot / sqrt of squares / linalg.norm) of exactly
    those two *sums*; the air-speed term is exactly TAS x sin|cos.
R3  both wind values are known NaN-free at the return on every path (must-
    dataflow over the CFG): a branch on a NaN test (`isnull`/`isnan`/`x != x`,
    or `notnull`/`isfinite` with the opposite sense; `and`/`or`/`not`, named
    conditions, `any(... for w in (a, b))`, one test per component, a loop over
    the components) proves it on the edge where the test says "no NaN"; values
    are identified by the binding they come from, through copies and scalar
    conversions; a helper that returns the winds proves it if its own analysis
    does at its `return`, a helper that cannot return normally unless its
    arguments are NaN-free proves it for them (a `*rest` parameter is the
    tuple of the values this call passes, `*(a, b)` arguments written out,
    constant slices of displays folded).  A test on the elements of a loop
    that is not over a display, here or in a helper, is undecided, not a
    violation.
R4  altitude -> Pa -> hPa: the `pressure_level` of each wind interpolation is
    exactly ISA pressure(altitude) / 100 (algebraic comparison; module
    constants folded) for both components; interpolation coordinates receive
    matching roles; one interpolation each for 'u' and 'v'.  The coordinates
    are read by name however they are passed: keywords, `**` of a dict
    display / `dict(...)` shared by both calls, xarray's mapping argument.
R5  the trigonometric argument is the heading converted to radians (deg2rad /
    radians / x·pi/180); the selection of the heading is *run* for an absent
    azimuth, an explicit azimuth of 0 (falsy) and an ordinary explicit azimuth
    (if/else, conditional expression, `or`, rebinding of the parameter, match):
    the ground-track azimuth must be used exactly when no azimuth is given.
    Values bound once per branch of the heading selection (`air = ...` under
    `if azimuth is None` and under `else`) are read once per case of the
    azimuth, on the graph pruned for that case (R1, R2, R5 alike).
R6  every query interpolates both wind components in the dataset of *its*
    time: the file YYYYMMDD.nc of the query's day under the data directory,
    sliced with isel(valid_time=time.hour) if and only if that file has a
    time axis.  Decided on *sequences* of queries on one object (the state
    kept between calls - open file, cached slice, their keys, wherever they
    live: attributes of Weather, a cache class of another module, dicts - is
    what can go stale): the program's own statements are executed on a model
    of the environment (calendar times that really normalise / round /
    format; `xr.open_dataset(path)` a handle of that path with or without a
    time axis; `.isel` a slice of a handle; numbers opaque and finite;
    `*rest` / `**rest` parameters bound as Python binds them): the
    states the object reaches within three queries are explored breadth-first
    (equal states - same values, same sharing - once), and in every state
    every query time is asked, over times that separate what a cache key can
    confuse (other minute of the hour, other hour of the day, same hour of
    another day, same day-of-month of another month, same date of another
    year) and over mixes of files with and without a time axis.  A wrong
    dataset is reported at the statement that put it into the state (stale
    cache) or made it (wrong index / wrong file), with the shortest query
    history that shows it.  Constructs the model cannot execute are undecided.
"""

from __future__ import annotations

import ast

from ..algebra import AlgebraError, normal_form, poly_equal
from ..astutil import call_name, norm, walk_no_nested
from ..conform import ref_normal_form
from ..resolve import resolve_call
from ..roles import expr_role
from .c12 import Undecidable, ValueCase, _cp, unroll_literal_loops, visible_constants

W = 'weather.py'
EXPECT = {'u': 'sin', 'v': 'cos'}


def _last(c):
    return call_name(c).split('.')[-1]


def _wind_vars(e):
    """dataset variables ('u' / 'v') an expression reads: ds['u'], ds.get('u'), ds.u"""
    out = set()
    for x in ast.walk(e):
        if isinstance(x, ast.Subscript) and isinstance(x.slice, ast.Constant) and x.slice.value in ('u', 'v'):
            out.add(x.slice.value)
        elif isinstance(x, ast.Call) and isinstance(x.func, ast.Attribute) and x.func.attr in ('get', 'variables', '__getitem__') \
                and x.args and isinstance(x.args[0], ast.Constant) and x.args[0].value in ('u', 'v'):
            out.add(x.args[0].value)
        elif isinstance(x, ast.Attribute) and x.attr in ('u', 'v') and isinstance(x.value, (ast.Attribute, ast.Name)) \
                and norm(x.value) not in ('np', 'numpy', 'math'):
            out.add(x.attr)
    return out


def _trig_calls(e):
    return [x for x in ast.walk(e) if isinstance(x, ast.Call) and _last(x) in ('sin', 'cos')]


def _vector_norm(e):
    """[a, b] when e computes sqrt(a² + b²): hypot(a, b), sqrt(a**2 + b**2), linalg.norm([a, b])"""
    for x in ast.walk(e):
        if not isinstance(x, ast.Call):
            continue
        nm = _last(x)
        if nm == 'hypot' and len(x.args) == 2 and not x.keywords:
            return list(x.args), x
        if nm == 'norm' and len(x.args) == 1 and isinstance(x.args[0], (ast.List, ast.Tuple)) and len(x.args[0].elts) == 2 \
                and not x.keywords:
            return list(x.args[0].elts), x
        if nm == 'sqrt' and len(x.args) == 1 and isinstance(x.args[0], ast.BinOp) and isinstance(x.args[0].op, ast.Add):
            sq = []
            for t in (x.args[0].left, x.args[0].right):
                if isinstance(t, ast.BinOp) and isinstance(t.op, ast.Pow) and isinstance(t.right, ast.Constant) and t.right.value == 2:
                    sq.append(t.left)
                elif isinstance(t, ast.BinOp) and isinstance(t.op, ast.Mult) and norm(t.left) == norm(t.right):
                    sq.append(t.left)
            if len(sq) == 2:
                return sq, x
    return None, None


def _find_norm(F, e, at, depth=0):
    """the vector norm the returned value is, looking through locals: (components, anchor call, CFG node)"""
    comps, call = _vector_norm(e)
    if comps is not None:
        return comps, call, at
    if depth < 4:
        for x in ast.walk(e):
            if isinstance(x, ast.Name):
                b = F.binding(x.id, at)
                if b is not None and b[2] is None:
                    r = _find_norm(F, b[0], b[1], depth + 1)
                    if r[0] is not None:
                        return r
    return None, None, None


def _step(F, e, at):
    """a local name replaced by its one definition (one step, for display and structure)"""
    if isinstance(e, ast.Name):
        b = F.binding(e.id, at)
        if b is not None and b[2] is None:
            return b[0], b[1]
    return e, at


def _fold(e):
    """constant subscripts of displays folded: `(a, b)[0]` is `a`, `{'k': v}['k']` is `v` (records erased to tuples and
    results read by field leave such terms behind once the locals are followed)"""
    class Fd(ast.NodeTransformer):
        def visit_Subscript(self, n):
            n = self.generic_visit(n)
            k = n.slice.value if isinstance(n.slice, ast.Constant) else None
            if isinstance(n.value, (ast.Tuple, ast.List)) and isinstance(k, int) and not isinstance(k, bool) \
                    and -len(n.value.elts) <= k < len(n.value.elts) and not any(isinstance(x, ast.Starred) for x in n.value.elts):
                return n.value.elts[k]
            if isinstance(n.value, ast.Dict) and isinstance(k, str) and None not in n.value.keys:
                hits = [v for kk, v in zip(n.value.keys, n.value.values) if isinstance(kk, ast.Constant) and kk.value == k]
                if hits and all(isinstance(kk, ast.Constant) for kk in n.value.keys):
                    return hits[-1]
            return n

        def visit_Lambda(self, n):
            return n
    return Fd().visit(e)


def _call_kwargs(c):
    """keyword arguments of a call by name, `**` of a dict display / `dict(...)` call / `{**a, ...}` merged in the order
    Python merges them; None when an argument set cannot be read (a `**` of something that is not a display)"""
    out = {}

    def spread(v):
        if isinstance(v, ast.Dict):
            for k, x in zip(v.keys, v.values):
                if k is None:
                    if not spread(x):
                        return False
                elif isinstance(k, ast.Constant) and isinstance(k.value, str):
                    out[k.value] = x
                else:
                    return False
            return True
        if isinstance(v, ast.Call) and isinstance(v.func, ast.Name) and v.func.id == 'dict' and len(v.args) <= 1:
            if v.args and not spread(v.args[0]):
                return False
            return keywords(v)
        return False

    def keywords(call):
        for k in call.keywords:
            if k.arg is None:
                if not spread(k.value):
                    return False
            else:
                out[k.arg] = k.value
        return True
    # xarray: interp(coords=None, method=..., **coords_kwargs) - the mapping may also be the first argument
    pos = list(c.args[:1]) if isinstance(c.func, ast.Attribute) and c.func.attr == 'interp' else []
    if len(c.args) > len(pos) or any(isinstance(a, ast.Starred) for a in c.args):
        return None
    for a in pos:
        if not spread(a):
            return None
    if not keywords(c):
        return None
    if isinstance(c.func, ast.Attribute) and c.func.attr == 'interp' and 'coords' in out:
        given = out.pop('coords')
        rest = dict(out)
        out.clear()
        if not spread(given):
            return None
        out.update(rest)
    return out


def scalarize_local_dicts(fn):
    """`fn` (a private copy) with every local dict that is only ever used element-wise under constant keys - bound once
    to a dict display / `dict(...)` with constant keys (or empty), every other occurrence `d['k']` read or stored -
    replaced by one local per key (`d['k']` becomes `d__k`).  Such a dict is a bundle of independent variables; as
    variables the value flow and the NaN analysis follow them."""
    names = {}
    for x in walk_no_nested(fn):
        if isinstance(x, ast.Name):
            names.setdefault(x.id, []).append(x)
    nested = {y.id for x in ast.walk(fn) if isinstance(x, (ast.FunctionDef, ast.AsyncFunctionDef, ast.Lambda, ast.ClassDef)) and x is not fn
              for y in ast.walk(x) if isinstance(y, ast.Name)}
    params = {a.arg for a in fn.args.posonlyargs + fn.args.args + fn.args.kwonlyargs}
    parent = {}
    for x in ast.walk(fn):
        for ch in ast.iter_child_nodes(x):
            parent[id(ch)] = x

    def items_of(v):
        if isinstance(v, ast.Dict) and all(isinstance(k, ast.Constant) and isinstance(k.value, (str, int)) for k in v.keys):
            return [(k.value, x) for k, x in zip(v.keys, v.values)]
        if isinstance(v, ast.Call) and isinstance(v.func, ast.Name) and v.func.id == 'dict' and not v.args and all(k.arg for k in v.keywords):
            return [(k.arg, k.value) for k in v.keywords]
        return None

    done = False
    for d, occ in names.items():
        if d in nested or d in params:
            continue
        stores = [x for x in occ if isinstance(x.ctx, ast.Store)]
        if len(stores) != 1 or any(isinstance(x.ctx, ast.Del) for x in occ):
            continue
        st = parent.get(id(stores[0]))
        if isinstance(st, ast.Assign) and len(st.targets) == 1 and st.targets[0] is stores[0]:
            items = items_of(st.value)
        elif isinstance(st, ast.AnnAssign) and st.target is stores[0] and st.value is not None:
            items = items_of(st.value)
        else:
            continue
        if items is None:
            continue
        uses = [x for x in occ if x is not stores[0]]
        subs = [parent.get(id(x)) for x in uses]
        if not uses or not all(isinstance(p, ast.Subscript) and p.value is u and isinstance(p.slice, ast.Constant)
                               and isinstance(p.slice.value, (str, int)) and not isinstance(p.slice.value, bool) for p, u in zip(subs, uses)):
            continue
        new = {k: f'{d}__{k}' for k in {p.slice.value for p in subs} | {k for k, _ in items}}
        if any(n in names or not n.isidentifier() for n in new.values()):
            continue
        for p in subs:
            holder = parent[id(p)]
            repl = ast.copy_location(ast.Name(new[p.slice.value], p.ctx), p)
            for f_, val in ast.iter_fields(holder):
                if val is p:
                    setattr(holder, f_, repl)
                elif isinstance(val, list) and any(y is p for y in val):
                    val[:] = [repl if y is p else y for y in val]
        body_holder = parent[id(st)]
        repl_st = [ast.copy_location(ast.Assign([ast.Name(new[k], ast.Store())], v, lineno=st.lineno), st) for k, v in items] \
            or [ast.copy_location(ast.Pass(), st)]
        for f_, val in ast.iter_fields(body_holder):
            if isinstance(val, list) and any(y is st for y in val):
                i = next(j for j, y in enumerate(val) if y is st)
                val[i:i + 1] = repl_st
        done = True
    if done:
        ast.fix_missing_locations(fn)
        for x in ast.walk(fn):
            for ch in ast.iter_child_nodes(x):
                ch._parent = x
    return fn


def open_local_records(fn, m):
    """`fn` (a private copy) with every local that holds an immutable value object of a class of the module - bound once,
    by a statement of the function's own block, to `K(e1, e2, ..)`, K a NamedTuple / dataclass of annotated fields whose
    properties and methods each return one expression over the fields, used only through its fields and members - read
    as the values it carries: the arguments are first bound to locals of their own, in the order Python evaluates them
    (`w = K(u=e1, v=e2)` is `w__u = e1; w__v = e2; w = K(u=w__u, v=w__v)`), then `astutil.open_value_objects` puts
    `w__u` where `w.u` stands and the returned expression of a property where the property is read.  The record is a way
    of passing values, not a computation; as locals the value flow and the NaN analysis follow them.  Anything that
    is not of that kind is left as it is."""
    from ..astutil import _value_class_layout, open_value_objects
    classes = {k: c.node for k, c in m.classes.items() if c.module is m and '.' not in k}
    if not classes:
        return fn
    names = {x.id for x in ast.walk(fn) if isinstance(x, ast.Name)} | {a.arg for a in ast.walk(fn) if isinstance(a, ast.arg)}

    def simple(e):
        return isinstance(e, (ast.Constant, ast.Name)) or (isinstance(e, ast.UnaryOp) and isinstance(e.operand, ast.Constant))

    body, changed = [], False
    for st in fn.body:
        t = st.targets[0] if isinstance(st, ast.Assign) and len(st.targets) == 1 else \
            st.target if isinstance(st, ast.AnnAssign) and st.value is not None else None
        v = getattr(st, 'value', None)
        if isinstance(t, ast.Name) and isinstance(v, ast.Call) and isinstance(v.func, ast.Name) and v.func.id in classes \
                and v.func.id not in {a.arg for a in ast.walk(fn) if isinstance(a, ast.arg)} \
                and not any(isinstance(a, ast.Starred) for a in v.args) and not any(k.arg is None for k in v.keywords):
            lay = _value_class_layout(classes[v.func.id])
            if lay is not None and len(v.args) <= len(lay[0]):
                slots = [(lay[0][j][0], v.args, j) for j in range(len(v.args))] + [(k.arg, k, None) for k in v.keywords]
                slots = [s for s in slots if not simple(s[1][s[2]] if s[2] is not None else s[1].value)]
                fresh = [f'{t.id}__{f}' for f, _, _ in slots]
                if len(set(fresh)) != len(fresh) or any(n in names or not n.isidentifier() for n in fresh):
                    slots = []           # all the arguments or none: the order of evaluation stays what it is
                for f, holder, j in slots:
                    e = holder[j] if j is not None else holder.value
                    new = f'{t.id}__{f}'
                    names.add(new)
                    # (the new binding stands before the construction; open_value_objects tells "bound before" by the
                    # line of the target, so the target reports one line above the statement it was taken out of)
                    tg = ast.copy_location(ast.Name(new, ast.Store()), e)
                    tg.lineno = tg.end_lineno = st.lineno - 1
                    body.append(ast.copy_location(ast.Assign([tg], e, lineno=e.lineno), e))
                    ref = ast.copy_location(ast.Name(new, ast.Load()), e)
                    if j is not None:
                        holder[j] = ref
                    else:
                        holder.value = ref
                    changed = True
        body.append(st)
    if changed:
        fn.body[:] = body
        ast.fix_missing_locations(fn)
    open_value_objects(fn, classes)
    for x in ast.walk(fn):
        for ch in ast.iter_child_nodes(x):
            ch._parent = x
    return fn


def _radians_of(e):
    """X when e is X converted from degrees to radians: deg2rad(X), radians(X), X·π/180 in any arrangement"""
    if isinstance(e, ast.Call) and _last(e) in ('deg2rad', 'radians') and len(e.args) == 1 and not e.keywords:
        return e.args[0]
    cands = [x for x in ast.walk(e) if isinstance(x, (ast.Name, ast.Attribute, ast.IfExp, ast.BoolOp, ast.Subscript))
             and norm(x) not in ('np.pi', 'math.pi', 'pi', 'numpy.pi', 'np', 'math', 'numpy')]
    # structural attempt: replace each candidate by a symbol and compare with symbol·π/180
    for c in cands:
        txt = norm(c)

        class T(ast.NodeTransformer):
            def visit(self, n):
                if isinstance(n, ast.expr) and norm(n) == txt:
                    return ast.Name('HEADING_DEG', ast.Load())
                if isinstance(n, (ast.Attribute, ast.Name)) and norm(n) in ('np.pi', 'math.pi', 'pi', 'numpy.pi'):
                    return ast.Name('PI', ast.Load())
                return super().visit(n)
        try:
            if poly_equal(normal_form(T().visit(_cp(e))), ref_normal_form('HEADING_DEG * PI / 180', {})):
                return c
        except AlgebraError:
            pass
    return None


def _mod360(e):
    """X for `X % 360` / `np.mod(X, 360)` (the trigonometric functions do not see the difference), else e"""
    if isinstance(e, ast.BinOp) and isinstance(e.op, ast.Mod) and isinstance(e.right, ast.Constant) and e.right.value in (360, 360.0):
        return e.left
    if isinstance(e, ast.Call) and _last(e) in ('mod', 'fmod', 'remainder') and len(e.args) == 2 \
            and isinstance(e.args[1], ast.Constant) and e.args[1].value in (360, 360.0):
        return e.args[0]
    return e


# ---------------------------------------------------------------------------------------------- R3: NaN refusal

NAN_TESTS = ('isnull', 'isna', 'isnan')
FINITE_TESTS = ('notnull', 'notna', 'isfinite')


def _classify(e):
    """('nan' | 'finite', [tested values], reductions) for an atomic test of NaN-ness, else None"""
    red = []
    neg = False
    while True:
        if isinstance(e, ast.Call) and isinstance(e.func, ast.Attribute) and e.func.attr in ('any', 'all') and not e.args:
            red.append(e.func.attr)
            e = e.func.value
        elif isinstance(e, ast.Call) and _last(e) in ('any', 'all') and len(e.args) == 1 and not isinstance(e.args[0], (ast.GeneratorExp, ast.ListComp)):
            red.append(_last(e))
            e = e.args[0]
        elif isinstance(e, ast.Call) and isinstance(e.func, ast.Attribute) and e.func.attr in ('item', 'to_numpy', 'squeeze', 'compute', 'load') and not e.args:
            e = e.func.value
        elif isinstance(e, ast.Call) and _last(e) in ('bool', 'asarray', 'squeeze') and len(e.args) == 1:
            e = e.args[0]
        elif isinstance(e, ast.Attribute) and e.attr in ('values', 'data'):
            e = e.value
        elif isinstance(e, ast.UnaryOp) and isinstance(e.op, ast.Invert):
            neg = not neg
            e = e.operand
        else:
            break
    kind = vals = None
    if isinstance(e, ast.Call):
        nm = _last(e)
        if nm in NAN_TESTS or nm in FINITE_TESTS:
            kind = 'nan' if nm in NAN_TESTS else 'finite'
            if isinstance(e.func, ast.Attribute) and not e.args and norm(e.func.value) not in ('np', 'numpy', 'math', 'pd', 'pandas', 'xr'):
                vals = [e.func.value]
            elif len(e.args) == 1:
                a = e.args[0]
                vals = list(a.elts) if isinstance(a, (ast.List, ast.Tuple)) else [a]
    elif isinstance(e, ast.Compare) and len(e.ops) == 1 and isinstance(e.ops[0], ast.NotEq) and norm(e.left) == norm(e.comparators[0]):
        kind, vals = 'nan', [e.left]
    if kind is None or vals is None:
        return None
    if neg:
        kind = 'finite' if kind == 'nan' else 'nan'
        red = ['all' if r == 'any' else 'any' for r in red]
    return kind, vals, red


def _mentions_nan_test(e):
    return any(isinstance(x, ast.Call) and _last(x) in NAN_TESTS + FINITE_TESTS for x in ast.walk(e))


class NanRefusal:
    """Must-analysis: the set of values (by origin) known to be free of NaN at each CFG node of a function — a branch
    on a NaN test proves it for the values tested on the edge where the test says "no NaN"; `and` / `or` / `not` and
    named conditions compose; a value returned by a helper of the module is NaN-free if the helper's own analysis
    proves it at its `return`; a call of a helper that cannot return normally unless its argument is NaN-free proves
    it for the argument."""

    def __init__(self, F: ValueCase, helper, depth=0):
        self.F, self.helper, self.depth = F, helper, depth
        self.unknown = []
        g = F.g
        self.ins, _ = g.forward(frozenset(), self._transfer, lambda a, b: a & b, branch_transfer=self._branch)

    def facts(self, e, pol, at, depth=0):
        F = self.F
        if isinstance(e, ast.Name) and depth < 4:
            b = F.binding(e.id, at)
            if b is not None and b[2] is None:
                return self.facts(b[0], pol, b[1], depth + 1)
            return frozenset()
        if isinstance(e, ast.UnaryOp) and isinstance(e.op, ast.Not):
            return self.facts(e.operand, not pol, at, depth)
        if isinstance(e, ast.BoolOp):
            parts = [self.facts(v, pol, at, depth) for v in e.values]
            every = isinstance(e.op, ast.And) == pol       # `a and b` true / `a or b` false: every operand has that value
            return frozenset().union(*parts) if every else frozenset.intersection(*parts)
        if isinstance(e, ast.Call) and _last(e) == 'bool' and len(e.args) == 1:
            return self.facts(e.args[0], pol, at, depth)
        c = _classify(e)
        if c is None:
            if _mentions_nan_test(e):
                self.unknown.append(norm(e)[:80])
            return frozenset()
        kind, vals, red = c
        proves = (kind == 'nan' and not pol and 'all' not in red) or (kind == 'finite' and pol and 'any' not in red)
        if not proves:
            if (kind == 'nan' and not pol) or (kind == 'finite' and pol):
                self.unknown.append(norm(e)[:80])
            return frozenset()
        os_ = [o for o in (F.origin(v, at) for v in vals) if o is not None]
        for o in os_:
            # the element of a loop that is not over a display (those are unrolled): which values it stands for is not known
            if o[0] != 'param' and isinstance(o[1], int) and F.g.nodes[o[1]].kind == 'iter':
                self.unknown.append(f'{norm(e)[:60]} (on the elements of `{norm(F.g.nodes[o[1]].stmt.iter)[:40]}`)')
        return frozenset(os_)

    def _branch(self, node, lab, st):
        if node.kind == 'test':
            return st | self.facts(node.stmt.test, lab == 't', node.id)
        return st

    def _transfer(self, node, st):
        if node.kind != 'stmt' or self.depth > 2:
            return st
        s = node.stmt
        v = s.value if isinstance(s, (ast.Assign, ast.AnnAssign, ast.Expr)) else None
        if not isinstance(v, ast.Call):
            return st
        sub = self.helper(v, self.depth + 1)
        if sub is None:
            return st
        callee, ret_free, params_free, binder = sub
        add = set()
        if isinstance(s, ast.Assign):
            for idx in ret_free:
                add.add((self.F.fn.name, node.id, idx))
        for p in params_free:
            a = binder(p)
            o = self.F.origin(a, node.id) if a is not None else None
            if o is not None:
                add.add(o)
        return st | frozenset(add)

    def summary(self):
        """(components of the returned value that are NaN-free at every `return`; parameters that are NaN-free
        whenever the function returns normally)"""
        F = self.F
        rets = [n for n in F.g.nodes if n.kind == 'stmt' and isinstance(n.stmt, ast.Return) and n.id in self.ins]
        free = None
        for n in rets:
            v = n.stmt.value
            if v is None:
                here = set()
            elif isinstance(v, ast.Tuple):
                here = {i for i, e in enumerate(v.elts) if F.origin(e, n.id) in self.ins[n.id]}
            else:
                here = {None} if F.origin(v, n.id) in self.ins[n.id] else set()
            free = here if free is None else free & here
        ex = self.ins.get(F.g.exit)
        pfree = {o[1] for o in ex if o[0] == 'param'} if ex is not None else set()
        return free or set(), pfree


def _arg_binder(callee, call):
    a = callee.args
    names = [p.arg for p in a.posonlyargs + a.args]
    if isinstance(call.func, ast.Attribute) and names and names[0] in ('self', 'cls'):
        names = names[1:]
    bind = dict(zip(names, call.args))
    for k in call.keywords:
        if k.arg:
            bind[k.arg] = k.value
    return bind.get


def fold_display_slices(fn):
    """`fn` (a private copy) with constant slices of tuple / list displays folded: `(a, b, c)[:2]` is `(a, b)`"""
    def const(x):
        if x is None:
            return True, None
        if isinstance(x, ast.UnaryOp) and isinstance(x.op, ast.USub) and isinstance(x.operand, ast.Constant) and type(x.operand.value) is int:
            return True, -x.operand.value
        if isinstance(x, ast.Constant) and type(x.value) is int:
            return True, x.value
        return False, None

    class Fd(ast.NodeTransformer):
        def visit_Subscript(self, n):
            n = self.generic_visit(n)
            if isinstance(n.value, (ast.Tuple, ast.List)) and isinstance(n.slice, ast.Slice) and isinstance(n.ctx, ast.Load) \
                    and not any(isinstance(x, ast.Starred) for x in n.value.elts):
                b = [const(x) for x in (n.slice.lower, n.slice.upper, n.slice.step)]
                if all(ok for ok, _ in b) and b[2][1] != 0:
                    return ast.copy_location(type(n.value)(n.value.elts[slice(*(v for _, v in b))], ast.Load()), n)
            return n
    fn = _cp(fn)
    fn.body = [Fd().visit(st) for st in fn.body]
    ast.fix_missing_locations(fn)
    return fn


def unroll_dict_comprehensions(fn):
    """`fn` (a private copy) with `{k: f(k) for k in (a, b)}` over a tuple / list display of constants (one generator, no
    filter, a plain name as target) replaced by the display `{a: f(a), b: f(b)}` - the definition of the construct"""
    class S(ast.NodeTransformer):
        def __init__(self, name, value):
            self.name, self.value = name, value

        def visit_Name(self, n):
            return _cp(self.value) if n.id == self.name and isinstance(n.ctx, ast.Load) else n

    class U(ast.NodeTransformer):
        def visit_DictComp(self, n):
            n = self.generic_visit(n)
            g = n.generators[0]
            if len(n.generators) == 1 and not g.ifs and not g.is_async and isinstance(g.target, ast.Name) \
                    and isinstance(g.iter, (ast.Tuple, ast.List)) and g.iter.elts and all(isinstance(x, ast.Constant) for x in g.iter.elts) \
                    and not any(isinstance(x, (ast.NamedExpr, ast.Lambda, ast.GeneratorExp, ast.ListComp, ast.SetComp, ast.DictComp))
                                for y in (n.key, n.value) for x in ast.walk(y)):
                ks = [S(g.target.id, x).visit(_cp(n.key)) for x in g.iter.elts]
                vs = [S(g.target.id, x).visit(_cp(n.value)) for x in g.iter.elts]
                return ast.copy_location(ast.Dict(ks, vs), n)
            return n
    fn = _cp(fn)
    fn.body = [U().visit(st) for st in fn.body]
    ast.fix_missing_locations(fn)
    return fn


def expand_star_displays(call):
    """the call with `*(a, b)` / `*[a, b]` arguments written out (the original when there are none)"""
    if not any(isinstance(x, ast.Starred) and isinstance(x.value, (ast.Tuple, ast.List)) for x in call.args):
        return call
    args = []
    for x in call.args:
        if isinstance(x, ast.Starred) and isinstance(x.value, (ast.Tuple, ast.List)) and not any(isinstance(y, ast.Starred) for y in x.value.elts):
            args.extend(x.value.elts)
        else:
            args.append(x)
    return ast.copy_location(ast.Call(call.func, args, call.keywords), call)


def spread_varargs(callee, call):
    """`callee` (a private copy) as this call runs it when it passes n surplus positional values to `*rest`: the
    parameter becomes n positional parameters `rest__0 ..` and every read of `rest` the tuple display of them - a call
    site fixes the arity, so `for w in rest` / `any(... for w in rest)` unroll like a loop over a display.  The callee
    itself when it has no `*rest`; None when the call cannot be read that way (a `*` argument, `rest` rebound,
    defaults that the surplus would shift)."""
    a = callee.args
    if a.vararg is None:
        return callee
    if any(isinstance(x, ast.Starred) for x in call.args):
        return None
    names = [p.arg for p in a.posonlyargs + a.args]
    if isinstance(call.func, ast.Attribute) and names and names[0] in ('self', 'cls'):
        names = names[1:]
    n = len(call.args) - len(names)
    rest = a.vararg.arg
    if n < 0 or a.defaults or any(isinstance(x, ast.Name) and x.id == rest and not isinstance(x.ctx, ast.Load) for x in ast.walk(callee)):
        return None
    used = {x.id for x in ast.walk(callee) if isinstance(x, ast.Name)} | {p.arg for p in a.posonlyargs + a.args + a.kwonlyargs}
    new = [f'{rest}__{i}' for i in range(n)]
    if any(x in used for x in new):
        return None
    fn = _cp(callee)

    class S(ast.NodeTransformer):
        def visit_Name(self, x):
            if x.id == rest:
                return ast.copy_location(ast.Tuple([ast.Name(v, ast.Load()) for v in new], ast.Load()), x)
            return x
    fn.body = [S().visit(st) for st in fn.body]
    fn.args.args = list(fn.args.args) + [ast.arg(v, None) for v in new]
    fn.args.vararg = None
    ast.fix_missing_locations(fn)
    return fn


def split_tails(fn, var):
    """`fn` (a private copy) with the statements that follow a branch on `var` moved into the branches:
    `if c: A else: B; T` is `if c: A; T else: B; T`, and likewise for a `match` on `var` with a catch-all case (a branch
    that ends in `return` / `raise` does not get the tail).  That is what sequencing means, so the copy computes what
    the function computes; in the copy every way of calling the function (per value of `var`) ends in a `return` of
    its own, whose value has one definition.  None when there is nothing to move."""
    fn = _cp(fn)
    moved = []

    def depends(e):
        return any(isinstance(x, ast.Name) and x.id == var for x in ast.walk(e))

    def ends(body):
        return bool(body) and isinstance(body[-1], (ast.Return, ast.Raise, ast.Continue, ast.Break))

    def with_tail(body, tail):
        return go(list(body) + ([] if ends(body) else [_cp(t) for t in tail]))

    def go(body):
        for i, st in enumerate(body):
            tail = body[i + 1:]
            if isinstance(st, ast.If) and depends(st.test):
                moved.extend(tail)
                st.body = with_tail(st.body, tail)
                st.orelse = with_tail(st.orelse, tail)
                return body[:i + 1] if st.orelse else body[:i] + [st]     # (an empty `else` is no `else`)
            if isinstance(st, ast.Match) and depends(st.subject) and st.cases and st.cases[-1].guard is None \
                    and isinstance(st.cases[-1].pattern, ast.MatchAs) and st.cases[-1].pattern.pattern is None:
                moved.extend(tail)
                for c in st.cases:
                    c.body = with_tail(c.body, tail)
                return body[:i + 1]
        return body
    fn.body = go(fn.body)
    if not moved:
        return None
    ast.fix_missing_locations(fn)
    for x in ast.walk(fn):
        for ch in ast.iter_child_nodes(x):
            ch._parent = x
    return fn


def _run_ground_speed(ctx, m, gs, fn, callee_of):
    ALL_AZ = (None, 0.0, 90.0)

    def prepare(fn):
        F = ValueCase(fn, None, None, m.tree, callee_of)
        if 'azimuth' not in F.params:
            ctx.undecided('C16-R5', gs, 'azimuth', 'get_ground_speed no longer takes the optional azimuth')
        cases = {}

        def case(val):
            if val not in cases:
                try:
                    cases[val] = ValueCase(fn, 'azimuth', val, m.tree, callee_of)
                except Undecidable as ex:
                    ctx.undecided('C16-R5', gs, f'heading when azimuth = {val}', str(ex))
            return cases[val]
        rets = [n for n in walk_no_nested(fn) if isinstance(n, ast.Return) and n.value is not None and F.node_of(n) is not None]
        return F, case, rets

    # The function may end in several `return` statements (a guard clause per way of calling it, a dispatcher over
    # variants whose bodies the loader put back): every one of them that a call can reach is the result of some calls
    # and is held to all the rules, for the cases of the azimuth (absent, 0, ordinary) that reach it; every case must
    # reach one.  With a single `return` the three cases are all asked of it.  When a returned value is not one
    # computation (`if azimuth is None: gs = ... else: gs = ...; return gs`) the function is read with the common tail
    # moved into the branches on the azimuth, where each return has its own.
    F, case, rets = prepare(fn)
    if not rets:
        ctx.undecided('C16-R2', gs, 'return', 'no return statement with a value')
    if any(_find_norm(F, r.value, F.node_of(r))[0] is None for r in rets):
        fn2 = split_tails(fn, 'azimuth')
        if fn2 is not None:
            F2, case2, rets2 = prepare(fn2)
            if rets2 and all(_find_norm(F2, r.value, F2.node_of(r))[0] is not None for r in rets2):
                fn, F, case, rets = fn2, F2, case2, rets2
    if len(rets) == 1:
        plan = [(rets[0], ALL_AZ)]
    else:
        plan = [(r, tuple(v for v in ALL_AZ if case(v).node_of(r) is not None)) for r in rets]
        for r, az in plan:
            if not az:
                ctx.undecided('C16-R5', gs, norm(r)[:60], 'a return that none of the azimuth cases (absent, 0, ordinary) reaches')
        for v in ALL_AZ:
            if not any(v in az for _, az in plan):
                ctx.undecided('C16-R5', gs, f'heading when azimuth = {v}', 'no return statement is reached')
    for ret, az in plan:
        _run_return(ctx, m, gs, fn, callee_of, F, case, ret, az, ALL_AZ)


def _run_return(ctx, m, gs, fn, callee_of, F, case, ret, AZ, ALL_AZ):
    """all rules on the value of one `return` of get_ground_speed, which the azimuth cases AZ reach"""
    # (suffix of the messages when this is the result of some calls only)
    some = '' if AZ == ALL_AZ else (' (the result when no azimuth is given)' if AZ == (None,) else
                                   ' (the result when an azimuth is given)' if None not in AZ else
                                   f' (the result when azimuth is {" / ".join("absent" if v is None else str(v) for v in AZ)})')
    at_ret = F.node_of(ret)
    args, hyp, at_h = _find_norm(F, ret.value, at_ret)
    if args is None:
        ctx.undecided('C16-R2', gs, norm(ret.value), 'result is not hypot(a, b) / sqrt(a² + b²)')

    # R2 / R1: each component is (air-speed term) + (wind term); which wind variable, which trigonometric function.
    # A value that is bound once per branch of the heading selection (`air = ...` under `if azimuth is None` and under
    # `else`) is not one expression for all calls; it is one expression for each way the selection can go, so the
    # component is then read once per case of the azimuth (absent, 0, ordinary) on the graph pruned for that case.

    def classify(Fc, e, at):
        sides = [(sd, _fold(Fc.resolve(sd, at, quiet=True))) for sd in (e.left, e.right)]
        wind = [(sd, r) for sd, r in sides if _wind_vars(r) and not _trig_calls(r)]
        air = [(sd, r) for sd, r in sides if _trig_calls(r) and not _wind_vars(r)]
        return (air[0], wind[0]) if len(wind) == 1 and len(air) == 1 else None

    def is_sum(e):
        return isinstance(e, ast.BinOp) and isinstance(e.op, ast.Add)

    def views_of(a):
        """[(case value | 'all', sum expression, its statement, (air, wind))]; [] when the argument is not a sum"""
        e, at = _step(F, a, at_h)
        if is_sum(e):
            c = classify(F, e, at)
            if c is not None:
                return [('all', e, F.g.nodes[at].stmt, c)]
        elif not isinstance(e, ast.Name):
            return []
        out = []
        st_h = F.g.nodes[at_h].stmt
        for val in AZ:
            Fv = case(val)
            at_hv = Fv.node_of(st_h)
            if at_hv is None:
                ctx.undecided('C16-R5', gs, norm(st_h)[:60], f'not reached when azimuth = {val}')
            ev, atv = _step(Fv, a, at_hv)
            if not is_sum(ev):
                return []
            c = classify(Fv, ev, atv)
            if c is None:
                ctx.undecided('C16-R1', gs, norm(ev), 'cannot tell the wind term from the air-speed term')
            out.append((val, ev, Fv.g.nodes[atv].stmt, c))
        return out

    comps = []
    for i, a in enumerate(args):
        views = views_of(a)
        ctx.ob('C16-R2', gs, f'hypot argument {i}: {norm(a)}', bool(views),
               'sum of an air-speed component and a wind component' if views else
               'a hypot argument is not the sum of air-speed and wind components (wind is not added)',
               line=a.lineno)
        if not views:
            continue
        seen = []
        for val, e, st_e, (air, wind) in views:
            wvs = _wind_vars(wind[1])
            if len(wvs) != 1:
                ctx.undecided('C16-R1', gs, norm(wind[0]), f'wind term reads dataset variables {sorted(wvs)}')
            wv = wvs.pop()
            kinds = {_last(c) for c in _trig_calls(air[1])}
            if len(kinds) != 1:
                ctx.undecided('C16-R1', gs, norm(air[0]), f'air-speed term derives from {sorted(kinds)}')
            k = kinds.pop()
            # air term = TAS * trig(heading), as an exact product
            ttxt = norm(_trig_calls(air[1])[0])

            class K(ast.NodeTransformer):
                def visit_Call(self, n):
                    return ast.Name('TRIG', ast.Load()) if norm(n) == ttxt else self.generic_visit(n)
            try:
                okm = poly_equal(normal_form(K().visit(_cp(air[1]))), ref_normal_form('true_airspeed * TRIG', {}))
            except AlgebraError:
                okm = False
            okm = okm and 'true_airspeed' in F.params
            if (wv, k, okm) in seen:
                continue
            seen.append((wv, k, okm))
            when = '' if val == 'all' or len(views) == 1 else (' when no azimuth is given' if val is None else f' when azimuth = {val}')
            if len(seen) == 1:
                at_e = F.node_of(st_e)
                comps.append({'wv': wv, 'k': k, 'air': air, 'wind': wind, 'at_e': at_e,
                              'views': {v[0]: (v[3][0][0], v[2]) for v in views}})
            ok = EXPECT[wv] == k
            axis = 'east' if wv == 'u' else 'north'
            ctx.ob('C16-R1', gs, f"{axis} component pairs wind '{wv}' with {k}(heading){when if len(seen) > 1 else ''}", ok,
                   f"heading clockwise from north: {axis} = TAS·{EXPECT[wv]}(heading)" if ok else
                   (f"heading is measured clockwise from north, so the {axis}ward air-speed component is "
                    f"TAS·{EXPECT[wv]}(heading); the code adds TAS·{k}(heading) to the {axis}ward wind "
                    f"'{wv}': a pure tailwind on heading 090 does not add its full speed"),
                   line=a.lineno)
            shown = air[0] if val != 'all' else _step(F, air[0], F.node_of(st_e))[0]
            ctx.ob('C16-R2', gs, f'air-speed term {norm(shown)}', okm,
                   'true airspeed times the trigonometric factor' if okm else
                   'air-speed component is not TAS × sin/cos(heading)', line=shown.lineno, nontrivial=False)
    ctx.floor('C16-R1', len(comps), 2, 'wind/air component pairs')
    if {c['wv'] for c in comps} != {'u', 'v'}:
        ctx.ob('C16-R2', gs, f'components use winds {sorted(c["wv"] for c in comps)}', False,
               "both 'u' and 'v' must enter the vector sum", line=hyp.lineno)

    # R5 heading: for an absent azimuth, an explicit azimuth of 0 (falsy) and an ordinary explicit azimuth, run the
    # selection of the heading as that value runs it (if/else, conditional expression, `or`, rebinding of the parameter,
    # match) and look at what reaches the trigonometric function
    for comp in comps:
        k, (air_sd0, air_r) = comp['k'], comp['air']
        tshown = None
        srcs = []
        for val in AZ:
            air_sd, st_e = comp['views'].get(val) or comp['views']['all']
            try:
                Fv = case(val)
                at_v = Fv.node_of(st_e)
                if at_v is None:
                    ctx.undecided('C16-R5', gs, norm(st_e)[:60], f'not reached when azimuth = {val}')
                rv = _fold(Fv.resolve(air_sd, at_v))
            except Undecidable as ex:
                ctx.undecided('C16-R5', gs, f'heading when azimuth = {val}', str(ex))
            if tshown is None:
                shown, _ = _step(Fv, air_sd, at_v)
                tshown = (_trig_calls(shown) or _trig_calls(air_r))[0]
            tcs = _trig_calls(rv)
            x = _radians_of(tcs[0].args[0]) if tcs and len(tcs[0].args) == 1 else None
            srcs.append((val, x))
        okd = all(x is not None for _, x in srcs)
        ctx.ob('C16-R5', gs, f'{k}({norm(tshown.args[0]) if tshown.args else "?"}) takes radians', okd,
               'heading converted from degrees to radians on every path' if okd else
               'trigonometric argument is not the heading converted to radians', line=tshown.lineno)
        for val, x in srcs:
            if x is None:
                continue
            src = norm(_mod360(x))
            want = 'gt_point.azimuth' if val is None else 'azimuth'
            ok = src == want
            when = 'no azimuth is given' if val is None else f'azimuth = {val}'
            ctx.ob('C16-R5', gs, f'heading source when {when}: {src}', ok,
                   'explicit azimuth when given, else the ground-track azimuth' if ok else
                   (f'with {when} the heading must be `{want}`, the code uses `{src}`' +
                    (': a heading of exactly 0° (due north) is replaced by the ground-track azimuth' if val == 0.0 else '')),
                   line=tshown.lineno, nontrivial=False)

    # R3 NaN refusal: both wind values are known NaN-free at the return, on every path
    cache = {}
    unread = []

    def helper(call, depth):
        callee = callee_of(call)
        if callee is None:
            return None
        call = expand_star_displays(call)
        key = (id(callee), len(call.args) if callee.args.vararg is not None else None)
        if key not in cache:
            cfn = spread_varargs(callee, call)
            if cfn is None:
                cache[key] = None
            else:
                cfn = scalarize_local_dicts(unroll_dict_comprehensions(unroll_literal_loops(fold_display_slices(cfn))))
                nr_ = NanRefusal(ValueCase(cfn, None, None, m.tree, callee_of), helper, depth)
                cache[key] = (cfn,) + nr_.summary()
                unread.extend(f'{u} in {callee.name}' for u in nr_.unknown)
        if cache[key] is None:
            unread.append(f'{norm(call)[:60]}: the values passed to *{callee.args.vararg.arg}')
            return None
        cfn, rfree, pfree = cache[key]
        return cfn, rfree, pfree, _arg_binder(cfn, call)

    nr = NanRefusal(F, helper)
    state = nr.ins.get(at_ret, frozenset())
    missing = []
    for comp in comps:
        wv, (wind_sd, wind_r), at_e = comp['wv'], comp['wind'], comp['at_e']
        o = F.origin(wind_sd, at_e)
        if o is None:
            ctx.undecided('C16-R3', gs, norm(wind_sd)[:60], 'the wind term is not a named value a NaN test could refer to')
        if o not in state:
            missing.append(wv)
    ok = not missing and len(comps) == 2
    if not ok and nr.unknown:
        ctx.undecided('C16-R3', gs, nr.unknown[0], 'a NaN test of a form that is not recognised')
    if not ok and unread:
        ctx.undecided('C16-R3', gs, unread[0], 'a NaN test in a helper whose subject cannot be identified')
    ctx.ob('C16-R3', gs, 'points outside the weather domain are refused', ok,
           'a NaN test on both wind components that raises precedes the return on every path' if ok else
           (f"the wind component(s) {sorted(missing)} reach the result{some} without a NaN test that raises on every path: "
            'a point outside the data domain yields NaN instead of being refused'), line=ret.lineno)

    # R4 pressure level and coordinate roles
    interps = []
    for comp in comps:
        wind_r = comp['wind'][1]
        interps += [c for c in ast.walk(wind_r) if isinstance(c, ast.Call) and isinstance(c.func, ast.Attribute)
                    and c.func.attr == 'interp']
    ctx.floor('C16-R4', len(interps), 2, 'wind interpolation calls')
    want_pl = ref_normal_form('pressure_at_altitude_isa_bada4(altitude) / 100', {})
    vis = visible_constants(ctx.prog, m)
    for c in interps:
        kws = _call_kwargs(c)
        if kws is None:
            ctx.undecided('C16-R4', gs, norm(c)[:80], 'the coordinates of the interpolation are passed as `**` of something that is not a dict display')
        pl = kws.get('pressure_level')
        try:
            ok = pl is not None and 'altitude' in F.params and poly_equal(normal_form(pl, {}, vis), want_pl)
        except AlgebraError:
            ok = False
        ctx.ob('C16-R4', gs, f'pressure_level={norm(pl) if pl is not None else "?"}', ok,
               'ISA pressure in Pa converted to hPa' if ok else
               'pressure level is not ISA pressure(altitude) / 100 (files are in hPa)', line=c.lineno)
        for kw in ('latitude', 'longitude'):
            v = kws.get(kw)
            r = expr_role(None, v) if v is not None else None
            want = 'lat' if kw == 'latitude' else 'lon'
            ok = r == want and 'gt_point' in F.params and any(isinstance(x, ast.Name) and x.id == 'gt_point' for x in ast.walk(v))
            ctx.ob('C16-R4', gs, f'{kw}={norm(v) if v is not None else "?"}', ok,
                   'coordinate receives the matching component of the ground-track point' if ok else
                   f'{kw} coordinate receives `{norm(v) if v is not None else None}`', line=c.lineno,
                   nontrivial=False)
    vars_ = sorted(''.join(sorted(_wind_vars(c.func.value))) or '?' for c in interps)
    if '?' in vars_:
        c = next(c for c in interps if not _wind_vars(c.func.value))
        ctx.undecided('C16-R4', gs, norm(c.func.value)[:60], 'which dataset variable this interpolation reads is not a constant the value flow finds')
    ctx.ob('C16-R4', gs, f'interpolated variables {vars_}', vars_ == ['u', 'v'],
           "one interpolation each for 'u' and 'v'" if vars_ == ['u', 'v'] else 'wind variables read are not u and v',
           nontrivial=False)



# ------------------------------------------------------------------------- R6: which dataset a query interpolates in
#
# The wind of a query is read from a dataset that get_ground_speed obtains from state kept between calls: the open
# daily file and, when the file has a time axis, its slice for the hour.  Whether the right dataset is used is a
# property of *sequences* of queries on one object, so the rule decides it on sequences: the program's own statements
# (constructor, get_ground_speed and whatever they call, in whatever classes and modules the state lives) are executed
# on a model of their environment -
#   * a time is a real calendar time (hour / normalize / floor / round / strftime ... behave as they do),
#   * `xr.open_dataset(path)` is a handle of the file of that path, which has a time axis or not (both are tried),
#   * `.isel(valid_time=i)` of a handle is "slice i of that file", `ds[var].interp(...)` is logged with the dataset,
#   * numbers (coordinates, speeds, the interpolated wind) are opaque and finite, the point is inside the domain -
# in every state the object reaches within three queries (explored breadth-first, equal states once), for every one of
# the query times, which are chosen to separate the things a cache key can confuse (same day and hour with another
# minute, same day another hour, another day same hour, the same day of another month, the same date of another year).
# For every query both wind components must be interpolated in: the file named YYYYMMDD.nc of the
# query's day under the data directory, sliced at the query's hour if (and only if) that file has a time axis.
# Nothing is assumed about how the state is organised; a construct the model cannot execute is undecided, never guessed.

import datetime as _dt
from pathlib import PurePosixPath

TIME_DIM = 'valid_time'
ENVIRONMENT = ('AEIC.config',)
SPACE_DIMS = ('pressure_level', 'latitude', 'longitude')


class _Raised(Exception):
    def __init__(self, what, fi=None, line=0):
        super().__init__(what)
        self.what, self.fi, self.line = what, fi, line


class _Return(Exception):
    def __init__(self, value):
        self.value = value


class _Loop(Exception):
    def __init__(self, kind):
        self.kind = kind


class _Opq:
    """an opaque finite number / array / record of the environment"""

    def __repr__(self):
        return '<opaque>'


OPQV = _Opq()


class MTime(_dt.datetime):
    """pd.Timestamp as far as the program may use it"""
    _UNITS = {'h': 3600, 'H': 3600, 'hour': 3600, 'D': 86400, 'd': 86400, 'min': 60, 'T': 60, 's': 1, 'S': 1}

    @classmethod
    def of(cls, d):
        return cls(d.year, d.month, d.day, d.hour, d.minute, d.second)

    def _snap(self, freq, how):
        if freq not in self._UNITS:
            raise Undecidable(f'time rounded to `{freq}`')
        u = self._UNITS[freq]
        day = _dt.datetime(self.year, self.month, self.day)
        sec = (self - day).total_seconds()
        q, r = divmod(sec, u)
        if how == 'ceil' and r:
            q += 1
        if how == 'round' and (2 * r > u or (2 * r == u and q % 2)):
            q += 1
        return MTime.of(day + _dt.timedelta(seconds=q * u))

    def normalize(self):
        return self._snap('D', 'floor')

    def floor(self, freq):
        return self._snap(freq, 'floor')

    def ceil(self, freq):
        return self._snap(freq, 'ceil')

    def round(self, freq):
        return self._snap(freq, 'round')

    def to_pydatetime(self):
        return self

    @property
    def dayofyear(self):
        return self.timetuple().tm_yday

    day_of_year = dayofyear

    def show(self):
        return self.strftime('%Y-%m-%d %H:%M')


TIME_ATTRS = ('year', 'month', 'day', 'hour', 'minute', 'second', 'dayofyear', 'day_of_year')
TIME_METHODS = ('normalize', 'floor', 'ceil', 'round', 'date', 'strftime', 'isoformat', 'to_pydatetime', 'replace',
                'weekday', 'toordinal', 'timetuple')
PURE_METHODS = {
    str: ('format', 'startswith', 'endswith', 'lower', 'upper', 'strip', 'split', 'replace', 'join', 'zfill', 'removesuffix',
          'removeprefix', 'rstrip', 'lstrip'),
    tuple: ('index', 'count'), list: ('index', 'count', 'append', 'extend', 'pop', 'clear', 'copy', 'insert', 'remove'),
    dict: ('get', 'keys', 'values', 'items', 'pop', 'clear', 'setdefault', 'update', 'copy', 'popitem'),
    set: ('add', 'discard', 'remove', 'clear', 'copy'), frozenset: ('copy',),
    _dt.date: ('strftime', 'isoformat', 'replace', 'toordinal', 'weekday', 'timetuple'),
    PurePosixPath: ('joinpath', 'with_suffix', 'with_name', 'as_posix', 'with_stem'),
}
PATH_ATTRS = ('name', 'stem', 'suffix', 'parent', 'parts')
PATH_TRUE = ('is_dir', 'exists', 'is_file')
PATH_SELF = ('resolve', 'expanduser', 'absolute')


class MFile:
    """an open NetCDF file"""

    def __init__(self, path, has_time, born, site):
        self.path, self.has_time, self.born, self.site = path, has_time, born, site
        self.closed = False
        self.kept = None        # (class, attribute, function, line) of the last store into the state of the program


class MSlice:
    """file.isel(valid_time=idx)"""

    def __init__(self, file, idx, born, site):
        self.file, self.idx, self.born, self.site = file, idx, born, site
        self.kept = None


class MField:
    def __init__(self, ds, var):
        self.ds, self.var = ds, var


class MObj:
    def __init__(self, ci):
        self.ci, self.attrs = ci, {}


class MExt:
    """a name of the environment: a module, a library function, a builtin"""

    def __init__(self, dotted):
        self.dotted = dotted

    @property
    def last(self):
        return self.dotted.split('.')[-1]


class MFn:
    def __init__(self, fi, recv=None):
        self.fi, self.recv = fi, recv


class MClass:
    def __init__(self, ci):
        self.ci = ci


def _describe(ds):
    if isinstance(ds, MSlice):
        return ('slice', ds.file.path, ds.idx)
    if isinstance(ds, MFile):
        return ('file', ds.path, None)
    return ('other', repr(ds), None)


def _say(d):
    kind, path, idx = d
    name = path.rsplit('/', 1)[-1]
    return f'the slice valid_time={idx} of {name}' if kind == 'slice' else f'the whole of {name}' if kind == 'file' else 'a value that is not a dataset'


FNFACTS: dict = {}


class _ConstRef:
    def __init__(self, module, name):
        self.module, self.name = module, name


class QueryModel:
    BUDGET = 400000
    BUILTINS = {'str': str, 'int': int, 'bool': bool, 'len': len, 'repr': repr, 'tuple': tuple, 'list': list, 'dict': dict,
                'set': set, 'frozenset': frozenset, 'min': min, 'max': max, 'abs': abs, 'sorted': sorted, 'any': any, 'all': all,
                'range': range, 'enumerate': enumerate, 'zip': zip, 'reversed': reversed, 'sum': sum}

    def __init__(self, prog, has_time):
        self.prog, self.has_time = prog, has_time       # has_time: file name -> the file has a time axis
        self.steps = 0
        self.query = -1
        self.log = []           # (query, variable, dataset, function, line)
        self.opened = []        # (query, path)
        self._consts = {}
        self._memo = {}
        self._fnfacts = FNFACTS
        self._names = prog.__dict__.setdefault('_c16_names', {})

    # -- names ---------------------------------------------------------------------------------------------------
    def lookup(self, name, fi, env):
        if name in env:
            return env[name]
        m = fi.module
        key = (m.relpath, name)
        if key not in self._names:
            self._names[key] = self._module_name(name, m)
        v = self._names[key]
        if type(v) is _ConstRef:
            return self.constant(v.module, v.name)       # a module-level value is state: one object per model
        return v

    def _module_name(self, name, m):
        if name in m.functions and '.' not in name:
            return MFn(m.functions[name])
        if name in m.classes:
            return MClass(m.classes[name])
        if name in m.imports:
            # the configuration singleton is environment (it locates files that exist), not state of the weather object
            r = None if m.imports[name].startswith(ENVIRONMENT) else self.prog.resolve_dotted(m.imports[name])
            if r is None:
                return MExt(m.imports[name])
            if hasattr(r, 'methods'):
                return MClass(r)
            if hasattr(r, 'qualname'):
                return MFn(r)
            if isinstance(r, tuple) and r[0] == 'const':
                return _ConstRef(r[1], r[2])
            return MExt(m.imports[name])      # a module of the program: only its library-like use is modelled
        if name in m.constants:
            return _ConstRef(m, name)
        if name in ('True', 'False', 'None'):
            return {'True': True, 'False': False, 'None': None}[name]
        return MExt('builtins.' + name)

    def constant(self, m, name):
        key = (m.relpath, name)
        if key not in self._consts:
            fake = type('Ctx', (), {'module': m, 'qualname': '<module>', 'cls': None, 'file': m.relpath})()
            self._consts[key] = self.ev(m.constants[name], fake, {})
        return self._consts[key]

    # -- calls ---------------------------------------------------------------------------------------------------
    def call_fi(self, fi, args, kwargs, recv=None):
        node = fi.node
        self.prog.consulted.add(fi.file)
        facts = self._fnfacts.get(id(node))
        if facts is None:
            decs = [norm(d.func if isinstance(d, ast.Call) else d).split('.')[-1] for d in node.decorator_list]
            why = None
            if isinstance(node, ast.AsyncFunctionDef) or [d for d in decs if d not in ('staticmethod', 'classmethod', 'property', 'cached_property', 'cache', 'lru_cache', 'override')]:
                why = f'{fi.qualname} is decorated with {decs}'
            elif any(isinstance(x, (ast.Yield, ast.YieldFrom)) for x in walk_no_nested(node)):
                why = f'{fi.qualname} is a generator'
            facts = self._fnfacts[id(node)] = (decs, [d for d in decs if d in ('cache', 'lru_cache')], why)
        decs, memo, why = facts
        if why:
            raise Undecidable(why)
        args = list(args)
        if fi.cls is not None and 'staticmethod' not in decs:
            if 'classmethod' in decs:
                args.insert(0, MClass(recv.ci if isinstance(recv, MObj) else recv.ci if isinstance(recv, MClass) else fi.cls))
            elif recv is not None:
                args.insert(0, recv)
        a = node.args
        names = [x.arg for x in a.posonlyargs + a.args]
        rest, rest_kw = (), {}
        if len(args) > len(names):
            if a.vararg is None:
                raise _Raised(f'TypeError: {fi.qualname} takes {len(names)} positional arguments', fi, node.lineno)
            args, rest = args[:len(names)], tuple(args[len(names):])      # `*rest` is the tuple of the surplus values
        env = dict(zip(names, args))
        for k, v in kwargs.items():
            if k in env or k not in names + [x.arg for x in a.kwonlyargs]:
                if a.kwarg is not None and k not in env:
                    rest_kw[k] = v                                          # `**rest` is the dict of the surplus keywords
                    continue
                raise _Raised(f'TypeError: {fi.qualname} got an unexpected argument {k}', fi, node.lineno)
            env[k] = v
        if a.vararg is not None:
            env[a.vararg.arg] = rest
        if a.kwarg is not None:
            env[a.kwarg.arg] = rest_kw
        pos = a.posonlyargs + a.args
        for arg, d in list(zip(pos[len(pos) - len(a.defaults):], a.defaults)) + \
                [(x, d) for x, d in zip(a.kwonlyargs, a.kw_defaults) if d is not None]:
            if arg.arg not in env:
                env[arg.arg] = self.ev(d, fi, {})
        for x in pos + a.kwonlyargs:
            if x.arg not in env:
                raise _Raised(f'TypeError: {fi.qualname} misses argument {x.arg}', fi, node.lineno)
        if memo:
            try:
                key = (fi.file, fi.qualname, tuple((k, env[k]) for k in sorted(env)))
                hash(key)
            except TypeError:
                raise Undecidable(f'memoised {fi.qualname} called with unhashable arguments')
            if key in self._memo:
                return self._memo[key]
        try:
            self.block(node.body, fi, env)
            r = None
        except _Return as ret:
            r = ret.value
        if memo:
            self._memo[key] = r
        return r

    def construct(self, ci, args, kwargs):
        o = MObj(ci)
        init = ci.find_method('__init__')
        if init is not None:
            self.call_fi(init, args, kwargs, recv=o)
        elif ci.all_fields() and not any(c.find_method(n) for c in [ci] for n in ('__new__', '__post_init__')):
            # a record (dataclass / NamedTuple): the fields in order, defaults from the class body
            flds = list(ci.all_fields())
            if len(args) > len(flds) or any(k not in flds for k in kwargs):
                raise _Raised(f'TypeError: {ci.name}() got unexpected arguments')
            o.attrs.update(zip(flds, args))
            for k, v in kwargs.items():
                if k in o.attrs:
                    raise _Raised(f'TypeError: {ci.name}() got multiple values for {k}')
                o.attrs[k] = v
            for f_ in flds:
                if f_ not in o.attrs:
                    o.attrs[f_] = self.class_attr(ci, f_, o)     # raises if the field has no default
        elif args or kwargs:
            raise Undecidable(f'{ci.name}(...) without __init__ in the program')
        return o

    def class_attr(self, ci, attr, recv):
        """value of a class-level name / method / property looked up on class `ci`"""
        for c in ci.mro():
            if attr in c.methods:
                f = c.methods[attr]
                decs = [norm(d).split('.')[-1] for d in f.node.decorator_list]
                if 'property' in decs or 'cached_property' in decs:
                    if not isinstance(recv, MObj):
                        raise Undecidable(f'property {attr} read on the class')
                    return self.call_fi(f, [], {}, recv=recv) if 'cached_property' not in decs else self._cached_prop(f, recv, attr)
                return MFn(f, recv)
            ca = c.class_assignments()
            if attr in ca and ca[attr] is not None:
                key = (c.file, c.name, attr)
                if key not in self._consts:
                    fake = type('Ctx', (), {'module': c.module, 'qualname': c.name, 'cls': c, 'file': c.file})()
                    self._consts[key] = self.ev(ca[attr], fake, {})
                return self._consts[key]
        if any(b for c in ci.mro() for b in c.base_exprs if b not in [x.name for x in c.bases] and b not in ('object',)):
            raise Undecidable(f'attribute {attr} of {ci.name}, which has bases outside the program')
        raise _Raised(f"AttributeError: '{ci.name}' object has no attribute '{attr}'")

    def _cached_prop(self, f, recv, attr):
        v = self.call_fi(f, [], {}, recv=recv)
        recv.attrs[attr] = v
        return v

    def ext_call(self, f, args, kwargs, e, fi):
        last = f.last
        vals = list(args) + list(kwargs.values())
        if last in ('open_dataset', 'load_dataset'):
            if not args and 'filename_or_obj' not in kwargs:
                raise Undecidable(f'`{norm(e)[:60]}` without a path')
            p = args[0] if args else kwargs['filename_or_obj']
            if not isinstance(p, (str, PurePosixPath)):
                raise Undecidable(f'`{norm(e)[:60]}`: the path of the weather file is not computed from the time and the data directory in a way the model follows')
            path = str(p)
            self.opened.append((self.query, path))
            return MFile(path, bool(self.has_time.get(path.rsplit('/', 1)[-1], False)), self.query, (fi, e.lineno))
        if last in ('Path', 'PurePath', 'PosixPath', 'PurePosixPath') and args and all(isinstance(x, (str, PurePosixPath)) for x in args) and not kwargs:
            return PurePosixPath(*args)
        if last == 'file_location' and len(args) == 1 and isinstance(args[0], (str, PurePosixPath)):
            return args[0]          # AEIC.config resolves a data path; the model's data directory is absolute
        if last in ('fspath', 'abspath', 'normpath', 'realpath') and len(args) == 1 and isinstance(args[0], (str, PurePosixPath)):
            return str(args[0])
        if f.dotted in ('os.path.join', 'posixpath.join') and args and all(isinstance(x, (str, PurePosixPath)) for x in args):
            return str(PurePosixPath(*args))
        if last in ('exists', 'isdir', 'isfile') and len(args) == 1 and isinstance(args[0], (str, PurePosixPath)):
            return True
        if last in NAN_TESTS:
            return False
        if last in FINITE_TESTS:
            return True
        if last == 'isinstance' and len(args) == 2:
            return self.isinstance_(args[0], args[1])
        if last in ('Timestamp', 'to_datetime') and len(args) == 1 and isinstance(args[0], MTime) and not kwargs:
            return args[0]
        if last == 'str' and len(args) == 1 and isinstance(args[0], (PurePosixPath, MTime, _dt.date)):
            return str(args[0])
        if last == 'getattr' and len(args) in (2, 3) and isinstance(args[1], str):
            try:
                return self.getattr_(args[0], args[1], e, fi)
            except _Raised:
                if len(args) == 3:
                    return args[2]
                raise
        if last == 'hasattr' and len(args) == 2 and isinstance(args[1], str):
            try:
                self.getattr_(args[0], args[1], e, fi)
                return True
            except _Raised:
                return False
        if f.dotted.startswith('builtins.') and last in self.BUILTINS:
            containers = last in ('dict', 'tuple', 'list', 'set', 'frozenset', 'len', 'enumerate', 'zip', 'reversed')
            if containers and any(isinstance(x, (_Opq, MObj, MFile, MSlice, MField)) for x in args):
                raise Undecidable(f'`{norm(e)[:60]}`')
            if not containers and any(isinstance(x, (_Opq, MObj, MFile, MSlice, MField, MExt, MFn, MClass)) for x in vals):
                if last in ('bool',) and isinstance(vals[0], (MObj, MFile, MSlice)):
                    return True
                if any(isinstance(x, (MObj, MFile, MSlice)) for x in vals):
                    raise Undecidable(f'`{norm(e)[:60]}` applied to program state')
                return OPQV
            try:
                r = self.BUILTINS[last](*args, **kwargs)
            except Exception as ex:
                raise _Raised(f'{type(ex).__name__}: {ex}', fi, e.lineno)
            return list(r) if isinstance(r, (range, enumerate, zip, reversed)) else r
        if f.dotted in ('dataclasses.replace', 'copy.replace') and len(args) == 1 and isinstance(args[0], MObj) \
                and not any(c.find_method(n) for c in args[0].ci.mro() for n in ('__init__', '__new__', '__post_init__', '__replace__')) \
                and all(k in args[0].ci.all_fields() for k in kwargs):
            o = MObj(args[0].ci)            # a record with the named fields changed: a new object, the others shared
            o.attrs = dict(args[0].attrs)
            o.attrs.update(kwargs)
            return o
        if any(isinstance(x, MObj) for x in vals):
            raise Undecidable(f'`{norm(e)[:60]}` hands an object of the program to code outside it')
        if any(isinstance(x, (MFile, MSlice)) for x in vals):
            raise Undecidable(f'`{norm(e)[:60]}` hands the dataset to a function the model does not know')
        if last in ('print', 'collect', 'debug', 'info', 'warning', 'warn'):
            return None
        return OPQV

    def isinstance_(self, v, t):
        ts = t if isinstance(t, tuple) else (t,)
        res = False
        for x in ts:
            if isinstance(x, MClass):
                if isinstance(v, MObj) and any(c is x.ci for c in v.ci.mro()):
                    return True
                continue
            if not isinstance(x, MExt):
                return OPQV
            nm = x.last
            table = {'Path': PurePosixPath, 'PurePath': PurePosixPath, 'PosixPath': PurePosixPath, 'str': str, 'int': int,
                     'bool': bool, 'float': float, 'tuple': tuple, 'list': list, 'dict': dict, 'Timestamp': MTime, 'datetime': MTime,
                     'date': _dt.date, 'Dataset': (MFile, MSlice)}
            if nm not in table or isinstance(v, _Opq):
                res = OPQV
                continue
            if isinstance(v, table[nm]):
                return True
        return res

    def getattr_(self, v, attr, e, fi):
        line = getattr(e, 'lineno', 0)
        if isinstance(v, MObj):
            if attr in v.attrs:
                return v.attrs[attr]
            return self.class_attr(v.ci, attr, v)
        if isinstance(v, MClass):
            return self.class_attr(v.ci, attr, v)
        if isinstance(v, _Opq):
            return OPQV
        if isinstance(v, MExt):
            return MExt(v.dotted + '.' + attr)
        if v is None:
            raise _Raised(f"AttributeError: 'NoneType' object has no attribute '{attr}'", fi, line)
        if isinstance(v, MTime) and attr in TIME_ATTRS:
            return getattr(v, attr)
        if isinstance(v, _dt.date) and not isinstance(v, MTime) and attr in ('year', 'month', 'day'):
            return getattr(v, attr)
        if isinstance(v, PurePosixPath) and attr in PATH_ATTRS:
            return getattr(v, attr)
        if isinstance(v, bool) and attr in ('values', 'data'):
            return v
        if isinstance(v, (MFile, MSlice)):
            has = v.has_time if isinstance(v, MFile) else False
            dims = {d: (24 if d == TIME_DIM else 7) for d in ((TIME_DIM,) if has else ()) + SPACE_DIMS}
            if attr in ('dims', 'sizes'):
                return dims
            if attr in ('coords', 'indexes', 'xindexes'):
                if isinstance(v, MSlice) and attr == 'coords':
                    dims[TIME_DIM] = 1
                return {d: OPQV for d in dims}
            if attr in ('data_vars', 'variables'):
                return ('t', 'u', 'v')
            if attr in ('u', 'v', 't', TIME_DIM) + SPACE_DIMS:
                return MField(v, attr)
            raise Undecidable(f'`{norm(e)[:60]}`: attribute {attr} of a dataset')
        if isinstance(v, MField):
            return OPQV
        raise Undecidable(f'`{norm(e)[:60]}`: attribute {attr} of {type(v).__name__}')

    def method(self, recv, attr, args, kwargs, e, fi):
        if isinstance(recv, (MObj, MClass)):
            f = self.getattr_(recv, attr, e, fi)
            return self.apply(f, args, kwargs, e, fi)
        if isinstance(recv, MExt):
            return self.ext_call(MExt(recv.dotted + '.' + attr), args, kwargs, e, fi)
        if attr in NAN_TESTS and not args:
            return False
        if attr in FINITE_TESTS and not args:
            return True
        if isinstance(recv, bool) and attr in ('any', 'all', 'item') and not args:
            return recv
        if isinstance(recv, (MFile, MSlice)):
            return self.dataset_method(recv, attr, args, kwargs, e, fi)
        if isinstance(recv, MField):
            if attr == 'interp':
                self.log.append((self.query, recv.var, recv.ds, fi, e.lineno))
                return OPQV
            if attr in ('isel', 'sel', 'reindex', 'shift', 'roll') and (TIME_DIM in kwargs or any(isinstance(a, dict) and TIME_DIM in a for a in args)):
                raise Undecidable(f'`{norm(e)[:60]}`: the time step is chosen on the variable, not on the dataset')
            if attr in ('load', 'compute', 'copy', 'persist', 'astype', 'squeeze', 'fillna', 'sortby', 'transpose'):
                return recv
            return OPQV
        if isinstance(recv, _Opq):
            if any(isinstance(x, (MObj, MFile, MSlice)) for x in list(args) + list(kwargs.values())):
                raise Undecidable(f'`{norm(e)[:60]}` hands program state to an opaque value')
            return OPQV
        if recv is None:
            raise _Raised(f"AttributeError: 'NoneType' object has no attribute '{attr}'", fi, e.lineno)
        if isinstance(recv, MTime):
            if attr in TIME_METHODS:
                try:
                    r = getattr(recv, attr)(*args, **kwargs)
                except Undecidable:
                    raise
                except Exception as ex:
                    raise Undecidable(f'`{norm(e)[:60]}`: {ex}')
                return MTime.of(r) if isinstance(r, _dt.datetime) else r
            raise Undecidable(f'`{norm(e)[:60]}`: method {attr} of a time')
        if isinstance(recv, PurePosixPath):
            if attr in PATH_TRUE and not args:
                return True
            if attr in PATH_SELF:
                return recv
        for t, allowed in PURE_METHODS.items():
            if isinstance(recv, t) and attr in allowed:
                try:
                    return getattr(recv, attr)(*args, **kwargs)
                except Exception as ex:
                    raise _Raised(f'{type(ex).__name__}: {ex}', fi, e.lineno)
        raise Undecidable(f'`{norm(e)[:60]}`: method {attr} of {type(recv).__name__}')

    def dataset_method(self, ds, attr, args, kwargs, e, fi):
        if attr == 'close' and not args:
            (ds if isinstance(ds, MFile) else ds.file).closed = True
            return None
        if attr in ('load', 'compute', 'persist', 'copy', 'unify_chunks', 'chunk', '__enter__'):
            return ds
        if attr == 'isel':
            idx = dict(kwargs)
            idx.pop('drop', None)
            if args:
                if len(args) != 1 or not isinstance(args[0], dict):
                    raise Undecidable(f'`{norm(e)[:60]}`')
                idx.update(args[0])
            if set(idx) != {TIME_DIM}:
                raise Undecidable(f'`{norm(e)[:60]}` selects along {sorted(map(str, idx))}')
            i = idx[TIME_DIM]
            if isinstance(ds, MSlice) or not ds.has_time:
                raise _Raised(f'ValueError: `{norm(e)[:60]}`: the dataset has no dimension {TIME_DIM}', fi, e.lineno)
            if isinstance(i, bool) or not isinstance(i, int):
                raise Undecidable(f'`{norm(e)[:60]}`: the index along {TIME_DIM} is not an integer the model knows')
            return MSlice(ds, i, self.query, (fi, e.lineno))
        if attr in ('get', '__getitem__') and len(args) >= 1 and isinstance(args[0], str):
            return MField(ds, args[0])
        if attr == 'interp':
            return self._interp_ds(ds, e, fi)
        raise Undecidable(f'`{norm(e)[:60]}`: method {attr} of a dataset')

    def _interp_ds(self, ds, e, fi):
        # the whole dataset interpolated at once: both components come from it
        for var in ('u', 'v'):
            self.log.append((self.query, var, ds, fi, e.lineno))
        return OPQV

    def apply(self, f, args, kwargs, e, fi):
        if isinstance(f, MFn):
            return self.call_fi(f.fi, args, kwargs, recv=f.recv)
        if isinstance(f, MClass):
            return self.construct(f.ci, args, kwargs)
        if isinstance(f, MExt):
            return self.ext_call(f, args, kwargs, e, fi)
        if isinstance(f, _Opq):
            return OPQV
        raise Undecidable(f'`{norm(e)[:60]}`: call of {type(f).__name__}')

    # -- expressions -------------------------------------------------------------------------------------------
    def truth(self, v):
        if isinstance(v, _Opq):
            return OPQV
        if isinstance(v, (MObj, MFile, MSlice, MFn, MClass, MExt, MTime, PurePosixPath)):
            return True
        if isinstance(v, MField):
            return OPQV
        return bool(v)

    def ev(self, e, fi, env):
        self.steps += 1
        if self.steps > self.BUDGET:
            raise Undecidable('step budget of the query model exhausted')
        ev = lambda x: self.ev(x, fi, env)
        if isinstance(e, ast.Constant):
            return e.value
        if isinstance(e, ast.Name):
            return self.lookup(e.id, fi, env)
        if isinstance(e, ast.Attribute):
            return self.getattr_(ev(e.value), e.attr, e, fi)
        if isinstance(e, ast.Call):
            args, kwargs = [], {}
            for a in e.args:
                if isinstance(a, ast.Starred):
                    v = ev(a.value)
                    if not isinstance(v, (tuple, list)):
                        raise Undecidable(f'`{norm(e)[:60]}`: * of a value the model does not know')
                    args.extend(v)
                else:
                    args.append(ev(a))
            for k in e.keywords:
                if k.arg is None:
                    v = ev(k.value)
                    if not isinstance(v, dict):
                        raise Undecidable(f'`{norm(e)[:60]}`: ** of a value the model does not know')
                    kwargs.update(v)
                else:
                    kwargs[k.arg] = ev(k.value)
            if isinstance(e.func, ast.Attribute):
                if isinstance(e.func.value, ast.Call) and call_name(e.func.value) == 'super' and not e.func.value.args and fi.cls is not None:
                    for c in fi.cls.mro()[1:]:
                        if e.func.attr in c.methods:
                            return self.call_fi(c.methods[e.func.attr], args, kwargs, recv=env.get('self'))
                    if e.func.attr == '__init__':
                        return None
                    raise Undecidable(f'`{norm(e)[:60]}`')
                return self.method(ev(e.func.value), e.func.attr, args, kwargs, e, fi)
            return self.apply(ev(e.func), args, kwargs, e, fi)
        if isinstance(e, ast.BoolOp):
            short = isinstance(e.op, ast.Or)
            v = None
            unknown = False
            for x in e.values:
                v = ev(x)
                t = self.truth(v)
                if t is OPQV:
                    unknown = True
                    continue
                if t is short:
                    return OPQV if unknown else v
            return OPQV if unknown else v
        if isinstance(e, ast.UnaryOp):
            v = ev(e.operand)
            if isinstance(e.op, ast.Not):
                t = self.truth(v)
                return OPQV if t is OPQV else not t
            if isinstance(v, (int, float)) and not isinstance(v, bool):
                return -v if isinstance(e.op, ast.USub) else v
            if isinstance(v, bool) and isinstance(e.op, ast.Invert):
                return not v        # ~ of an element-wise test
            return OPQV
        if isinstance(e, ast.Compare):
            left = ev(e.left)
            res = True
            for op, c in zip(e.ops, e.comparators):
                right = ev(c)
                r = self.compare(op, left, right, e, fi)
                if r is OPQV:
                    res = OPQV
                elif not r:
                    return False
                left = right
            return res
        if isinstance(e, ast.BinOp):
            a, b = ev(e.left), ev(e.right)
            if isinstance(e.op, ast.Div) and isinstance(a, PurePosixPath) and isinstance(b, (str, PurePosixPath)):
                return a / b
            if isinstance(a, (_Opq, MField)) or isinstance(b, (_Opq, MField)):
                return OPQV
            if isinstance(e.op, ast.Mod) and isinstance(a, str):
                try:
                    return a % b
                except Exception as ex:
                    raise _Raised(f'{type(ex).__name__}: {ex}', fi, e.lineno)
            plain = (int, float, str, tuple, list, _dt.timedelta, _dt.date)
            if isinstance(a, plain) and isinstance(b, plain):
                import operator
                f = {ast.Add: operator.add, ast.Sub: operator.sub, ast.Mult: operator.mul, ast.Div: operator.truediv,
                     ast.FloorDiv: operator.floordiv, ast.Mod: operator.mod, ast.Pow: operator.pow}.get(type(e.op))
                if f is not None:
                    try:
                        r = f(a, b)
                    except Exception as ex:
                        raise _Raised(f'{type(ex).__name__}: {ex}', fi, e.lineno)
                    return MTime.of(r) if isinstance(r, _dt.datetime) else r
            raise Undecidable(f'`{norm(e)[:60]}`')
        if isinstance(e, ast.IfExp):
            t = self.truth(ev(e.test))
            if t is OPQV:
                a, b = ev(e.body), ev(e.orelse)
                return a if a is b else OPQV
            return ev(e.body if t else e.orelse)
        if isinstance(e, ast.Subscript):
            v = ev(e.value)
            if isinstance(e.slice, ast.Slice):
                if isinstance(v, (str, tuple, list)):
                    lo, hi, st = ((ev(x) if x is not None else None) for x in (e.slice.lower, e.slice.upper, e.slice.step))
                    if all(x is None or isinstance(x, int) for x in (lo, hi, st)):
                        return v[lo:hi:st]
                if isinstance(v, _Opq):
                    return OPQV
                raise Undecidable(f'`{norm(e)[:60]}`')
            k = ev(e.slice)
            if isinstance(v, (MFile, MSlice)):
                if isinstance(k, str):
                    return MField(v, k)
                raise Undecidable(f'`{norm(e)[:60]}`: subscript of a dataset')
            if isinstance(v, (_Opq, MField)):
                return OPQV
            if v is None:
                raise _Raised("TypeError: 'NoneType' object is not subscriptable", fi, e.lineno)
            if isinstance(v, (tuple, list, dict, str)):
                try:
                    return v[k]
                except Exception as ex:
                    raise _Raised(f'{type(ex).__name__}: {ex}', fi, e.lineno)
            raise Undecidable(f'`{norm(e)[:60]}`')
        if isinstance(e, (ast.Tuple, ast.List, ast.Set)):
            items = []
            for x in e.elts:
                if isinstance(x, ast.Starred):
                    v = ev(x.value)
                    if not isinstance(v, (tuple, list)):
                        raise Undecidable(f'`{norm(e)[:60]}`')
                    items.extend(v)
                else:
                    items.append(ev(x))
            return tuple(items) if isinstance(e, ast.Tuple) else items if isinstance(e, ast.List) else set(items)
        if isinstance(e, ast.Dict):
            d = {}
            for k, v in zip(e.keys, e.values):
                if k is None:
                    x = ev(v)
                    if not isinstance(x, dict):
                        raise Undecidable(f'`{norm(e)[:60]}`')
                    d.update(x)
                else:
                    d[ev(k)] = ev(v)
            return d
        if isinstance(e, ast.JoinedStr):
            out = []
            for v in e.values:
                if isinstance(v, ast.Constant):
                    out.append(str(v.value))
                    continue
                x = ev(v.value)
                if isinstance(x, (_Opq, MObj, MFile, MSlice, MField, MExt, MFn, MClass)):
                    return OPQV
                spec = ''
                if v.format_spec is not None:
                    spec = ev(v.format_spec)
                    if not isinstance(spec, str):
                        return OPQV
                try:
                    out.append(format(x if v.conversion == -1 else (str(x) if v.conversion == 115 else repr(x)), spec))
                except Exception as ex:
                    raise _Raised(f'{type(ex).__name__}: {ex}', fi, e.lineno)
            return ''.join(out)
        if isinstance(e, ast.NamedExpr):
            v = ev(e.value)
            env[e.target.id] = v
            return v
        if isinstance(e, (ast.ListComp, ast.GeneratorExp, ast.SetComp, ast.DictComp)) and len(e.generators) == 1:
            g = e.generators[0]
            it = ev(g.iter)
            if isinstance(it, dict):
                it = list(it)
            if not isinstance(it, (tuple, list, set)):
                raise Undecidable(f'`{norm(e)[:60]}`: iteration over a value the model does not know')
            out = []
            sub = dict(env)
            for item in it:
                self.assign(g.target, item, fi, sub, e)
                ts = [self.truth(self.ev(c, fi, sub)) for c in g.ifs]
                if any(t is OPQV for t in ts):
                    raise Undecidable(f'`{norm(e)[:60]}`: filter the model cannot decide')
                if all(ts):
                    out.append((self.ev(e.key, fi, sub), self.ev(e.value, fi, sub)) if isinstance(e, ast.DictComp) else self.ev(e.elt, fi, sub))
            return dict(out) if isinstance(e, ast.DictComp) else set(out) if isinstance(e, ast.SetComp) else out
        raise Undecidable(f'`{norm(e)[:60]}`: {type(e).__name__} is not modelled')

    def compare(self, op, a, b, e, fi):
        if isinstance(op, (ast.Is, ast.IsNot)):
            if a is None or b is None:
                r = a is b
            elif isinstance(a, _Opq) or isinstance(b, _Opq):
                return OPQV
            elif isinstance(a, (bool, MObj, MFile, MSlice)) or isinstance(b, (bool, MObj, MFile, MSlice)):
                r = a is b
            else:
                return OPQV
            return r == isinstance(op, ast.Is)
        if isinstance(op, (ast.In, ast.NotIn)):
            if isinstance(b, (MFile, MSlice)):
                b = tuple(self.getattr_(b, 'coords', e, fi)) + ('t', 'u', 'v')
            if isinstance(a, _Opq) or isinstance(b, _Opq):
                return OPQV
            if isinstance(b, (tuple, list, set, frozenset, dict, str)):
                try:
                    r = a in b
                except TypeError:
                    raise Undecidable(f'`{norm(e)[:60]}`')
                return r == isinstance(op, ast.In)
            raise Undecidable(f'`{norm(e)[:60]}`')
        if isinstance(a, (_Opq, MField)) or isinstance(b, (_Opq, MField)):
            return OPQV
        if isinstance(op, (ast.Eq, ast.NotEq)):
            if isinstance(a, (MObj, MFile, MSlice)) or isinstance(b, (MObj, MFile, MSlice)):
                r = a is b
            else:
                r = a == b
            return r == isinstance(op, ast.Eq)
        import operator
        f = {ast.Lt: operator.lt, ast.LtE: operator.le, ast.Gt: operator.gt, ast.GtE: operator.ge}.get(type(op))
        try:
            return bool(f(a, b))
        except Exception:
            raise Undecidable(f'`{norm(e)[:60]}`')

    # -- statements --------------------------------------------------------------------------------------------
    def assign(self, t, v, fi, env, st):
        if isinstance(t, ast.Name):
            env[t.id] = v
        elif isinstance(t, ast.Attribute):
            o = self.ev(t.value, fi, env)
            if not isinstance(o, MObj):
                if isinstance(o, _Opq):
                    return
                raise Undecidable(f'`{norm(t)[:60]} = ...`: store into {type(o).__name__}')
            o.attrs[t.attr] = v
            if isinstance(v, (MFile, MSlice)):
                v.kept = (o.ci.name, t.attr, fi, getattr(st, 'lineno', 0))
        elif isinstance(t, (ast.Tuple, ast.List)):
            if isinstance(v, _Opq):
                for x in t.elts:
                    self.assign(x.value if isinstance(x, ast.Starred) else x, OPQV, fi, env, st)
                return
            if not isinstance(v, (tuple, list)) or len(v) != len(t.elts) or any(isinstance(x, ast.Starred) for x in t.elts):
                raise Undecidable(f'`{norm(t)[:60]} = ...`: unpacking the model does not follow')
            for x, item in zip(t.elts, v):
                self.assign(x, item, fi, env, st)
        elif isinstance(t, ast.Subscript):
            o, k = self.ev(t.value, fi, env), self.ev(t.slice, fi, env)
            if isinstance(o, (dict, list)):
                try:
                    o[k] = v
                except Exception as ex:
                    raise _Raised(f'{type(ex).__name__}: {ex}', fi, getattr(st, 'lineno', 0))
                if isinstance(v, (MFile, MSlice)):
                    v.kept = ('', norm(t.value), fi, getattr(st, 'lineno', 0))
            elif not isinstance(o, _Opq):
                raise Undecidable(f'`{norm(t)[:60]} = ...`')
        else:
            raise Undecidable(f'`{norm(t)[:60]} = ...`')

    def pattern(self, p, v, fi, env, st):
        if isinstance(p, ast.MatchAs):
            if p.pattern is not None:
                hit = self.pattern(p.pattern, v, fi, env, st)
                if hit is not True:
                    return hit
            if p.name:
                env[p.name] = v
            return True
        if isinstance(p, ast.MatchOr):
            res = False
            for q in p.patterns:
                hit = self.pattern(q, v, fi, env, st)
                if hit is True:
                    return True
                if hit is OPQV:
                    res = OPQV
            return res
        if isinstance(v, (_Opq, MField)):
            return OPQV
        if isinstance(p, ast.MatchSingleton):
            return v is p.value
        if isinstance(p, ast.MatchValue):
            return self.compare(ast.Eq(), v, self.ev(p.value, fi, env), st, fi)
        raise Undecidable(f'`case {norm(p)[:40]}` is not modelled')

    def touches_state(self, stmts, fi, env):
        for s in stmts:
            for x in ast.walk(s):
                if isinstance(x, (ast.Return, ast.Break, ast.Continue, ast.Global, ast.Nonlocal, ast.Delete)):
                    return True
                if isinstance(x, (ast.Attribute, ast.Subscript)) and isinstance(x.ctx, (ast.Store, ast.Del)):
                    return True
                if isinstance(x, ast.Call):
                    root = x.func
                    while isinstance(root, (ast.Attribute, ast.Subscript, ast.Call)):
                        root = root.func if isinstance(root, ast.Call) else root.value
                    if isinstance(root, ast.Name):
                        v = env.get(root.id)
                        if isinstance(v, (MObj, MFile, MSlice, dict, list, set)):
                            return True
                        if root.id not in env and isinstance(self.lookup(root.id, fi, {}), (MFn, MClass)):
                            return True
        return False

    def block(self, stmts, fi, env):
        for st in stmts:
            self.stmt(st, fi, env)

    def stmt(self, st, fi, env):
        self.steps += 1
        if isinstance(st, ast.Expr):
            if not isinstance(st.value, ast.Constant):
                self.ev(st.value, fi, env)
        elif isinstance(st, ast.Assign):
            v = self.ev(st.value, fi, env)
            for t in st.targets:
                self.assign(t, v, fi, env, st)
        elif isinstance(st, ast.AnnAssign):
            if st.value is not None:
                self.assign(st.target, self.ev(st.value, fi, env), fi, env, st)
        elif isinstance(st, ast.AugAssign):
            load = _cp(st.target)
            for x in ast.walk(load):
                if hasattr(x, 'ctx'):
                    x.ctx = ast.Load()
            self.assign(st.target, self.ev(ast.copy_location(ast.BinOp(load, st.op, st.value), st), fi, env), fi, env, st)
        elif isinstance(st, ast.If):
            t = self.truth(self.ev(st.test, fi, env))
            if t is OPQV:
                # a test on the numbers of the query (a point inside the domain, finite values): a branch that only
                # refuses is not taken; other branches may only compute further numbers
                live = [b for b in (st.body, st.orelse) if not (b and isinstance(b[-1], ast.Raise) and not self.touches_state(b[:-1], fi, env))]
                if any(self.touches_state(b, fi, env) for b in live):
                    raise Undecidable(f'`if {norm(st.test)[:60]}`: a test on values of the environment decides what happens to the state')
                for b in live:
                    for x in (y for s_ in b for y in ast.walk(s_)):
                        if isinstance(x, ast.Name) and isinstance(x.ctx, ast.Store):
                            env[x.id] = OPQV
            else:
                self.block(st.body if t else st.orelse, fi, env)
        elif isinstance(st, ast.Return):
            raise _Return(self.ev(st.value, fi, env) if st.value is not None else None)
        elif isinstance(st, ast.Raise):
            raise _Raised(norm(st)[:100], fi, st.lineno)
        elif isinstance(st, ast.Assert):
            t = self.truth(self.ev(st.test, fi, env))
            if t is False:
                raise _Raised(f'AssertionError: `{norm(st.test)[:80]}`', fi, st.lineno)
        elif isinstance(st, (ast.Pass, ast.Import, ast.ImportFrom)):
            if not isinstance(st, ast.Pass):
                for al in st.names:
                    full = (('.' * st.level + (st.module or '') + '.') if isinstance(st, ast.ImportFrom) else '') + al.name
                    env[(al.asname or al.name).split('.')[0]] = MExt(full if isinstance(st, ast.ImportFrom) or al.asname else al.name.split('.')[0])
        elif isinstance(st, ast.With):
            opened = []
            for it in st.items:
                v = self.ev(it.context_expr, fi, env)
                if isinstance(v, (MFile, MSlice)):
                    opened.append(v)
                elif not isinstance(v, _Opq):
                    raise Undecidable(f'`with {norm(it.context_expr)[:60]}`')
                if it.optional_vars is not None:
                    self.assign(it.optional_vars, v, fi, env, st)
            try:
                self.block(st.body, fi, env)
            finally:
                for v in opened:
                    (v if isinstance(v, MFile) else v.file).closed = True
        elif isinstance(st, ast.For):
            it = self.ev(st.iter, fi, env)
            if isinstance(it, dict):
                it = list(it)
            if not isinstance(it, (tuple, list, set)):
                raise Undecidable(f'`for {norm(st.target)} in {norm(st.iter)[:40]}`: iteration over a value the model does not know')
            broke = False
            for item in list(it):
                self.assign(st.target, item, fi, env, st)
                try:
                    self.block(st.body, fi, env)
                except _Loop as lp:
                    if lp.kind == 'break':
                        broke = True
                        break
            if not broke:
                self.block(st.orelse, fi, env)
        elif isinstance(st, ast.While):
            while True:
                t = self.truth(self.ev(st.test, fi, env))
                if t is OPQV:
                    raise Undecidable(f'`while {norm(st.test)[:60]}`')
                if not t:
                    self.block(st.orelse, fi, env)
                    break
                try:
                    self.block(st.body, fi, env)
                except _Loop as lp:
                    if lp.kind == 'break':
                        break
        elif isinstance(st, ast.Break):
            raise _Loop('break')
        elif isinstance(st, ast.Continue):
            raise _Loop('continue')
        elif isinstance(st, ast.Try):
            try:
                self.block(st.body, fi, env)
            except _Raised as ex:
                for h in st.handlers:
                    names = [] if h.type is None else [norm(x).split('.')[-1] for x in (h.type.elts if isinstance(h.type, ast.Tuple) else [h.type])]
                    kind = ex.what.split(':')[0].split('(')[0].replace('raise ', '').strip()
                    if h.type is None or kind in names or 'Exception' in names or 'BaseException' in names:
                        if h.name:
                            env[h.name] = OPQV
                        self.block(h.body, fi, env)
                        break
                else:
                    self.block(st.finalbody, fi, env)
                    raise
            else:
                self.block(st.orelse, fi, env)
            self.block(st.finalbody, fi, env)
        elif isinstance(st, ast.Delete):
            for t in st.targets:
                if isinstance(t, ast.Name):
                    env.pop(t.id, None)
                elif isinstance(t, ast.Attribute):
                    o = self.ev(t.value, fi, env)
                    if isinstance(o, MObj):
                        o.attrs.pop(t.attr, None)
                elif isinstance(t, ast.Subscript):
                    o, k = self.ev(t.value, fi, env), self.ev(t.slice, fi, env)
                    if isinstance(o, (dict, list)):
                        try:
                            del o[k]
                        except Exception as ex:
                            raise _Raised(f'{type(ex).__name__}: {ex}', fi, st.lineno)
        elif isinstance(st, ast.Match):
            subj = self.ev(st.subject, fi, env)
            for case in st.cases:
                hit = self.pattern(case.pattern, subj, fi, env, st)
                if hit and case.guard is not None:
                    hit = self.truth(self.ev(case.guard, fi, env))
                if hit is OPQV:
                    raise Undecidable(f'`match {norm(st.subject)[:40]}`: a case the model cannot decide')
                if hit:
                    self.block(case.body, fi, env)
                    break
        else:
            raise Undecidable(f'{type(st).__name__} at line {st.lineno} is not modelled')


def _walk_state(roots, leaf, make):
    """rebuild (make=True) or serialise (make=False) the object graph reachable from `roots`"""
    memo = {}
    order = []

    def go(v):
        if isinstance(v, (MObj, MFile, MSlice, MField, dict, list, set)) or (isinstance(v, MFn) and v.recv is not None) \
                or (isinstance(v, tuple) and v):
            k = id(v)
            if k in memo:
                return memo[k] if make else ('ref', memo[k])
            if not make:
                memo[k] = len(memo)
            if isinstance(v, MObj):
                if make:
                    n = memo[k] = MObj(v.ci)
                    n.attrs = {a: go(x) for a, x in v.attrs.items()}
                    return n
                return ('obj', v.ci.file, v.ci.name, tuple((a, go(x)) for a, x in sorted(v.attrs.items())))
            if isinstance(v, MFile):
                if make:
                    n = memo[k] = MFile(v.path, v.has_time, v.born, v.site)
                    n.closed, n.kept = v.closed, v.kept
                    return n
                return ('file', v.path, v.has_time, v.closed)
            if isinstance(v, MSlice):
                if make:
                    n = memo[k] = MSlice(go(v.file), v.idx, v.born, v.site)
                    n.kept = v.kept
                    return n
                return ('slice', go(v.file), v.idx)
            if isinstance(v, MField):
                if make:
                    n = memo[k] = MField(go(v.ds), v.var)
                    return n
                return ('field', go(v.ds), v.var)
            if isinstance(v, MFn):
                if make:
                    n = memo[k] = MFn(v.fi, go(v.recv))
                    return n
                return ('fn', v.fi.file, v.fi.qualname, go(v.recv))
            if isinstance(v, dict):
                if make:
                    n = memo[k] = {}
                    for kk, x in v.items():
                        n[go(kk)] = go(x)
                    return n
                return ('dict', tuple((go(kk), go(x)) for kk, x in v.items()))
            if isinstance(v, list):
                if make:
                    n = memo[k] = []
                    n.extend(go(x) for x in v)
                    return n
                return ('list', tuple(go(x) for x in v))
            if isinstance(v, set):
                if make:
                    n = memo[k] = set()
                    n.update(go(x) for x in v)
                    return n
                return ('set', tuple(sorted((go(x) for x in v), key=repr)))
            if make:
                n = memo[k] = tuple(go(x) for x in v)
                return n
            return ('tuple', tuple(go(x) for x in v))
        return v if make else leaf(v)
    return [go(r) for r in roots]


def _leaf(v):
    if isinstance(v, (MExt,)):
        return ('ext', v.dotted)
    if isinstance(v, MFn):
        return ('fn', v.fi.file, v.fi.qualname)
    if isinstance(v, MClass):
        return ('class', v.ci.file, v.ci.name)
    if isinstance(v, _Opq):
        return 'opaque'
    return (type(v).__name__, repr(v))


class _State:
    """the program's state between two queries: the weather object, the module- and class-level values, the tables
    of memoised functions - and the queries that led to it"""

    def __init__(self, w, consts, memo, history):
        self.w, self.consts, self.memo, self.history = w, consts, memo, history

    def copy(self):
        w, consts, memo = _walk_state([self.w, self.consts, self.memo], None, True)
        return _State(w, consts, memo, self.history)

    def fingerprint(self):
        return repr(_walk_state([self.w, self.consts, self.memo], _leaf, False))


# times of the queries: they separate what a cache key can confuse
QUERY_TIMES = (
    MTime(2024, 1, 5, 13, 0),       # the reference point
    MTime(2024, 1, 5, 13, 40),      # same hour, other minute (rounds to the next hour)
    MTime(2024, 1, 5, 17, 0),       # same day, other hour
    MTime(2024, 1, 6, 13, 0),       # next day, same hour
    MTime(2024, 1, 6, 9, 20),       # next day, other hour
    MTime(2024, 2, 5, 13, 0),       # same day of the month and hour, other month
    MTime(2025, 1, 5, 13, 0),       # same month, day and hour, other year
)
DATA_DIR = '/wx'
DEPTH = 3
MAX_STATES = 400


def _file_of(t):
    return t.strftime('%Y%m%d') + '.nc'


def rule_dataset_of_query(ctx, gs):
    """The states an object can be in after up to DEPTH queries are explored breadth-first (states that are equal -
    same values, same sharing - are explored once); in every state every query time is asked."""
    prog = ctx.prog
    if gs.cls is None:
        ctx.undecided('C16-R6', gs, 'get_ground_speed', 'is not a method of a class any more')
    need = ('time', 'gt_point', 'altitude', 'true_airspeed')
    if any(p not in gs.params for p in need):
        ctx.undecided('C16-R6', gs, 'parameters', f'get_ground_speed no longer takes {[p for p in need if p not in gs.params]}')
    bad = {}        # kind -> (length of the history, message, function, line)
    checked = queries = states = 0
    files = sorted({_file_of(t) for t in QUERY_TIMES})
    # which files have a time axis: all, none, and every way of mixing the reference day with the others
    ref = _file_of(QUERY_TIMES[0])
    mixes = [{f: a for f in files} for a in (True, False)] + [{f: (f == ref) == a for f in files} for a in (True, False)] + \
        [{f: (i % 2 == 0) == a for i, f in enumerate(files)} for a in (True, False)]
    try:
        for has_time in mixes:
            fresh = {}      # time -> what the first query of a new object interpolates in
            qm = QueryModel(prog, has_time)
            try:
                w = qm.construct(gs.cls, [DATA_DIR], {})
            except _Raised as ex:
                raise Undecidable(f'{gs.cls.name}({DATA_DIR!r}) raises {ex.what} in the query model')
            frontier = [_State(w, qm._consts, qm._memo, ())]
            seen = {frontier[0].fingerprint()}
            for depth in range(DEPTH):
                nxt = []
                for state in frontier:
                    states += 1
                    for t in QUERY_TIMES:
                        st = state.copy()
                        qm = QueryModel(prog, has_time)
                        qm._consts, qm._memo = st.consts, st.memo
                        seq = state.history + (t,)
                        qi = qm.query = len(state.history)
                        queries += 1
                        try:
                            qm.call_fi(gs, [], {'time': t, 'gt_point': OPQV, 'altitude': OPQV, 'true_airspeed': OPQV}, recv=st.w)
                        except _Raised as ex:
                            _note(bad, ('raise', ex.what), qi, f'{_history(seq, qi, has_time)} raises {ex.what}', ex.fi or gs, ex.line)
                            continue
                        got = {(var, _describe(ds)): (ds, f, ln) for q, var, ds, f, ln in qm.log}
                        name = _file_of(t)
                        want = ('slice', f'{DATA_DIR}/{name}', t.hour) if has_time[name] else ('file', f'{DATA_DIR}/{name}', None)
                        if qi == 0:
                            fresh[t] = {d for (v, d) in got}
                        for var in ('u', 'v'):
                            found = [(d, info) for (v, d), info in got.items() if v == var]
                            if not found:
                                ctx.undecided('C16-R6', gs, f"interpolation of '{var}'", f'not found by the query model ({_history(seq, qi, has_time)})')
                            checked += 1
                            for d, (ds, f, ln) in found:
                                if d != want and not (qi > 0 and d in fresh.get(t, ())):
                                    # (a dataset that a new object would use for this query as well is reported there)
                                    _judge(bad, seq, qi, has_time, var, ds, d, want, f, ln)
                        st.history = seq
                        fp = st.fingerprint()
                        if fp not in seen and depth + 1 < DEPTH:
                            seen.add(fp)
                            nxt.append(st)
                frontier = nxt
                if len(seen) > MAX_STATES:
                    ctx.undecided('C16-R6', gs, 'dataset of a query', f'more than {MAX_STATES} different states after {depth + 1} queries')
    except Undecidable as ex:
        ctx.undecided('C16-R6', gs, 'dataset of a query', str(ex))
    except RecursionError:
        ctx.undecided('C16-R6', gs, 'dataset of a query', 'recursion in the query model')
    except (TypeError, KeyError, AttributeError, ValueError, IndexError) as ex:
        ctx.undecided('C16-R6', gs, 'dataset of a query', f'the query model cannot execute the program ({type(ex).__name__}: {ex})')
    if not bad:
        # at the least every time is asked of a new object (an implementation that keeps nothing has that one state)
        ctx.floor('C16-R6', checked, 2 * len(mixes) * len(QUERY_TIMES), 'wind interpolations judged over query sequences')
        ctx.ob('C16-R6', gs, 'a query reads the wind from the file of its day, at its hour', True,
               f'{queries} queries asked in the {states} states an object reaches within {DEPTH} queries (same / other minute, hour, day, '
               f'month, year; files with and without a time axis): every interpolation is in YYYYMMDD.nc of the query time, '
               f'sliced at time.hour when the file has a time axis')
    for kind, (qi, msg, f, ln) in sorted(bad.items(), key=lambda kv: str(kv[0])):
        ctx.ob('C16-R6', f, _KIND_TEXT.get(kind[0], kind[0]), False, msg, line=ln)


_KIND_TEXT = {
    'first-hour': 'hourly slice is the one of time.hour',
    'first-file': 'the file opened is YYYYMMDD.nc of the query time',
    'first-axis': 'a file with a time axis is sliced, a file without is used whole',
    'stale-file': 'opening another file invalidates the slice',
    'stale-hour': 'hourly slice cached under the hour it was cut for',
    'stale-day': 'the open file is reused only for times of its own day',
    'stale-axis': 'a cached slice is not used for a file that is used whole (and the reverse)',
    'raise': 'a valid query is answered',
}


def _history(seq, qi, has_time):
    def one(t):
        return f'{t.show()} ({_file_of(t)} {"with" if has_time[_file_of(t)] else "without"} time axis)'
    if qi == 0:
        return f'the first query on a new object, for {one(seq[0])},'
    return f'after {"queries" if qi > 1 else "a query"} for {" and ".join(one(t) for t in seq[:qi])}, the query for {one(seq[qi])}'


def _note(bad, kind, qi, msg, f, ln):
    """one finding per kind of mistake, shown on the shortest history that exhibits it"""
    if kind not in bad or bad[kind][0] > qi:
        bad[kind] = (qi, msg, f, ln)


def _judge(bad, seq, qi, has_time, var, ds, got, want, f, ln):
    """classify a wrong dataset: a mistake of a single query (made on a fresh object too) or a stale cache"""
    born = ds.born if isinstance(ds, (MFile, MSlice)) else qi
    file_born = ds.file.born if isinstance(ds, MSlice) else born
    hist = _history(seq, qi, has_time)
    st = getattr(ds, 'kept', None)
    kept = f' (kept in `{st[1]}` by {st[2].qualname}, line {st[3]})' if st else ''
    if st and born < qi:
        f, ln = st[2], st[3]                  # where the dataset used again was put into the state
    elif isinstance(ds, (MFile, MSlice)) and ds.site[0] is not None:
        f, ln = ds.site                       # where this query made the dataset
    if got[0] == 'other':
        _note(bad, ('first-axis', 'other'), qi, *(f"{hist} interpolates '{var}' in something that is not the weather dataset", f, ln))
        return
    same_file = got[1] == want[1]
    if born == qi or (file_born == qi and isinstance(ds, MSlice) and ds.born == qi):
        # made by this very query
        if not same_file and file_born == qi:
            _note(bad, ('first-file',), qi, *(f"{hist} opens {got[1]}: the weather of {seq[qi].show()} is in {want[1]}", f, ln))
        elif not same_file:
            _note(bad, ('stale-day',), qi, *(f"{hist} slices the file {got[1].rsplit('/', 1)[-1]} opened by an earlier query instead of opening "
                                            f"{want[1].rsplit('/', 1)[-1]}: the open file is reused for a time that is not of its day", f, ln))
        elif got[0] != want[0]:
            _note(bad, ('first-axis', got[0]), qi, *(f"{hist} interpolates '{var}' in {_say(got)}, it must be {_say(want)}", f, ln))
        else:
            _note(bad, ('first-hour',), qi, *(f"{hist} interpolates '{var}' in {_say(got)}: the field for the query is the one at index time.hour = {want[2]} "
                                             f"(the field at or before the requested time)", f, ln))
        return
    # a dataset made by an earlier query is used again
    made = seq[born].show()
    if not same_file:
        if isinstance(ds, MSlice):
            _note(bad, ('stale-file',), qi, *(
                f"{hist} interpolates '{var}' in {_say(got)}, cut by the query for {made}{kept}; it must be {_say(want)}. "
                f"The cached slice is still accepted although the file it was cut from is not the file of this query: "
                f"a slice of the previous day survives opening a new file (nothing clears it, and its key is the hour alone)", f, ln))
        else:
            _note(bad, ('stale-day',), qi, *(
                f"{hist} interpolates '{var}' in {_say(got)}, opened by the query for {made}{kept}; it must be {_say(want)}. "
                f"The open file is reused for a time that is not of its day", f, ln))
    elif got[0] != want[0]:
        _note(bad, ('stale-axis', got[0]), qi, *(f"{hist} interpolates '{var}' in {_say(got)}, made by the query for {made}{kept}; it must be {_say(want)}", f, ln))
    else:
        _note(bad, ('stale-hour',), qi, *(
            f"{hist} interpolates '{var}' in {_say(got)}, cut by the query for {made}{kept}; it must be {_say(want)}. "
            f"The slice cache key and the slice index disagree, or the slice is reused without comparing the hour: a later query reuses the wrong hour", f, ln))


def run(ctx):
    prog = ctx.prog
    m = prog.module(W)
    gs = m.func('Weather.get_ground_speed')
    fn = scalarize_local_dicts(open_local_records(unroll_dict_comprehensions(unroll_literal_loops(gs.node)), m))

    def callee_of(call):
        """helpers of this module are followed; everything else is a primitive"""
        try:
            fi = resolve_call(prog, gs, call)
        except Exception:
            fi = None
        return fi.node if fi is not None and fi.file == gs.file and fi.node is not gs.node else None

    try:
        _run_ground_speed(ctx, m, gs, fn, callee_of)
    except Undecidable as ex:
        ctx.undecided('C16-R1', gs, 'value flow', str(ex))

    # the altitude -> pressure conversion itself (shared with C12-R1/R2: canonical-form comparison with ISA)
    from .c12 import rule_isa
    sub = type(ctx)(ctx.prop, ctx.prog, ctx.tier)
    try:
        rule_isa(sub)
    finally:
        for o in sub.obligations:
            if 'pressure_at_altitude' in o.function or 'temperature_at_altitude' in o.function or o.function == '<module>':
                o.rule = 'C16-R4'
                ctx.obligations.append(o)

    rule_dataset_of_query(ctx, gs)
    ctx.assumptions += ["ERA5 convention: 'u' eastward, 'v' northward wind; pressure_level in hPa",
                        'xarray interp returns NaN outside the coordinate range',
                        'config.file_location(p) locates the existing file p (the configuration is environment of the '
                        'query model, not state of the weather object); files are immutable while the object lives']
