"""C15 — ground tracks and mission distances are true WGS-84 great circles.

R1 is lexical (argument roles); R7 and R8 are store rules.  R2-R6 are decided on *values*: the public queries of
GroundTrack (`__contains__`, `__len__`, `__getitem__`, `total_distance`, `waypoint_distance`, `lookup_waypoint`,
`location`, `step`, `great_circle`) and `Mission.gc_distance` are executed symbolically (the engine of C06: every
branch a path condition, resolved helpers / static methods / properties / factories inlined, locals replaced by what
they were bound to) and the resulting path conditions and values are evaluated on sample tracks (2 and 4 way-points,
and one with a repeated fix; overstepping allowed and not) in a *free model of the geodesic*: `GEOD.fwd` and `GEOD.inv`
are uninterpreted functions (one deterministic draw per distinct argument tuple, with the symmetries of the real ones),
way-points have distinct coordinates, the rest is ordinary arithmetic.  Two results agree in that model exactly when
they are the same geodesic computation on the same arguments, so what a query returns is compared with the reference
formula of the property whatever helpers, temporaries, accessors or control flow the code is written with; no method
other than the public ones is looked up by name.  The sequences of a sample track (the way-point list given to the
constructor, the list-valued attributes of the track) are presented to the engine as displays of their elements, and
the engine is told that a slice of a display is a display and that pyproj works element by element on sequences, so
loops and comprehensions over way-points, legs or the cumulative index unroll (`list.append` on a local or on a
field included).  What the engine does not follow is executed statement by statement on the model values instead
(ordinary assignments, loops, conditions, in-place growth of lists, with / try without an exception): generator
functions (consumed eagerly: the value of a call is the list of what it yields, of a @contextmanager function the
one value it yields; a generator that stores to an object is UNDECIDED), functions with a loop over something whose
length is known only on the sample track or with running state changed in place, and functions that fill a helper
object step by step through its methods.  An object constructed on a path is one object wherever the path mentions
it, and a method of a model object that the engine left as a call runs at its place among the stores of the path.
What cannot be evaluated either way is UNDECIDED; a difference from the reference is a violation only when it is
recognised as a specific mistake.

R1  argument roles of every geodesic call (T-ROLE): pyproj.Geod.inv takes
    (lon1, lat1, lon2, lat2), fwd takes (lon, lat, azimuth, distance); wrappers
    that forward their parameters get the derived signature and their callers
    are checked against it.  The instance floor counts the evaluations in, or
    reached through resolved calls from, ground_track.py and mission.py (a call
    site in a shared helper counts once per call site of the helper).
R2  azimuth convention: every point handed out by `[i]`, location(), step() and
    great_circle() on the sample tracks carries an azimuth in [0, 360) - whether
    the constructor of the point, a factory, each site or a property of the
    point (the azimuth is read the way a caller reads it) reduces it (positive
    control: the sample tracks produce raw azimuths of both signs); no function
    outside the point class stores to the azimuth of a point.
R3  step(a, b) is location(a + b), by value, for every sampled step that stays
    on one leg (from inside a leg, from a way-point, of length 0, up to the end
    of the leg); a step across a way-point is either refused or location(a + b).
R4  refusals: a distance is on the track exactly when it lies in [first, last]
    cumulative distance; lookup_waypoint() and location() raise for distances
    outside it (location() beyond the end with overstepping allowed: raises or
    hands out the continuation of R6) and answer every distance inside; step()
    raises for a negative start or step; a step that ends beyond the track
    raises when overstepping is not allowed and is answered when it is; private
    helpers that evaluate a forward geodesic are called from the class only.
R5  leg coherence: for every forward geodesic evaluated by a sampled query the
    start point is (longitude, latitude) of one way-point, the azimuth is that
    of the leg starting there and the distance is the requested distance minus
    that way-point's cumulative distance; inside the track that leg is the one
    containing the distance, beyond it the final leg.  Forward-geodesic calls
    of the ground track that no sampled query reaches are judged on their
    argument expressions instead (index expressions compared as polynomials
    in which len() of the way-points / the index is one symbol n, len() of
    the azimuths n - 1, and a negative constant index counts from that
    length; helpers judged at their call sites with the arguments
    substituted).  A coherent start point and azimuth with another distance
    origin is reported as such (right great circle, wrong distance along it).
R6  results are the reference: location(d) inside leg k is (component [0],
    component [1]) of fwd(way-point k, azimuth of leg k, d - cumulative distance
    of k) with the azimuth from there to way-point k+1 (component [0] of that
    inverse geodesic, or [1] of the reverse one); a step beyond the end is the
    same on the final leg with the azimuth from the last way-point to the point;
    `[i]` is way-point i with the azimuth of leg i (modulo 360: the range is
    R2's statement); total_distance /
    waypoint_distance(i) are the running sums from 0 of the leg lengths
    (component [2] of the inverse geodesic over consecutive way-points; a
    value that is the sum of only some of the legs is reported as such: the
    running distance was set where it has to be increased, or stops early);
    len() is the number of way-points given (so the stored way-points, the leg
    azimuths and the cumulative index describe one sequence, also when a fix is
    repeated); great_circle(a, b) is the track [a, b]; Mission.gc_distance is
    component [2] of the inverse geodesic between origin_position and
    destination_position, in both directions, with default and with generic
    non-default values in every other field of the mission.
R7  queries are pure: no GroundTrack method other than the constructor stores
    to self.
R8  the mission distance is only ever the geodesic: the memoised properties of
    Mission (gc_distance and the two airport positions it is computed from)
    are filled by their own functions only.  Anywhere in the program, no
    attribute store, no store / update / setdefault / |= on the instance
    dictionary (`x.__dict__`, `vars(x)`, or a local bound to one), no
    setattr / object.__setattr__ may name one of them (names seen through
    literals, single-definition locals and loops over literal tuples; a
    computed name on an object known to be a Mission is undecided; deleting a
    cached value is allowed).  Positive control: twelve spellings.
"""

from __future__ import annotations

import ast
import bisect as _bisect
import copy
import itertools as _it
import math
import operator
import re

from ..algebra import normal_form
from ..loader import AnalysisError, dotted_name
from ..astutil import MUTATING_METHODS, ancestors, call_name, calls_in, norm, single_def_value, stores_to, walk_no_nested
from ..resolve import callers_of, closure, resolve_call, resolve_class_call
from ..roles import GEOD_SIG, check_geod_call, expr_role, geod_calls, ident_role, wrapper_signature

GT = 'trajectories/ground_track.py'


def canon(e) -> str:
    return '<nothing>' if e is None else norm(e)

MI = 'missions/mission.py'
OTHER_PROPERTY = {'src/AEIC/missions/writable_database.py': 'C13-R1'}


def rule_roles(ctx):
    prog = ctx.prog
    fns = prog.all_functions(src_only=(ctx.tier != 'thorough'))
    # everything the ground track and the mission reach through resolved calls belongs to them, wherever a
    # geodesic call has been moved to
    reach = closure(prog, [f for f in prog.all_functions() if f.file.endswith((GT, MI))])
    if ctx.tier != 'thorough':
        fns = [f for f in fns if f.file.endswith((GT, MI)) or 'gridding' in f.file or f.file.endswith('utils/__init__.py')]
        fns += [f for f in reach if f not in fns]
    sites = geod_calls(prog, fns)
    # module-level code (scripts, notebooks) in the thorough tier
    # a call site in a helper stands for as many evaluations as the helper has call sites (two evaluations merged into
    # one shared helper are still two)
    reach_keys = {(f.file, f.qualname) for f in reach}
    n_eval = sum(max(1, sum(1 for caller, _ in callers_of(prog, s[0]) if (caller.file, caller.qualname) in reach_keys))
                 for s in sites if (s[0].file, s[0].qualname) in reach_keys)
    ctx.floor('C15-R1', n_eval, 5, 'geodesic evaluations in, or reached from, ground_track.py and mission.py')
    unresolved = 0
    for fi, c, kind in sites:
        if fi.file in OTHER_PROPERTY:
            ctx.note(f'C15-R1: call site in {fi.file} {fi.qualname} is decided under {OTHER_PROPERTY[fi.file]}')
            continue
        res = check_geod_call(fi, c, kind)
        conflicts = [r for r in res if r[4] == 'conflict']
        unresolved += sum(1 for r in res if r[4] == 'unresolved')
        desc = ', '.join(f'arg{i}={got or "?"}' for i, want, txt, got, v in res)
        ctx.ob('C15-R1', fi, f'GEOD.{kind}({desc})', not conflicts,
               f'slots ({", ".join(r[1] for r in res)}) receive matching roles' if not conflicts else
               '; '.join(f'slot {i} expects {want} but receives `{txt}` ({got})' for i, want, txt, got, v in conflicts)
               + ' — the geodesic is computed between the wrong points (NaN beyond |lon| > 90)',
               line=c.lineno)
    # wrappers
    for fi in fns:
        sig = wrapper_signature(prog, fi)
        if len(sig) >= 2:
            off = 1 if fi.params[:1] in (['self'], ['cls']) else 0
            for caller, call in callers_of(prog, fi):
                if ctx.tier != 'thorough' and caller not in fns:
                    continue
                confl = []
                desc = []
                for pi, want in sorted(sig.items()):
                    ai = pi - off
                    arg = call.args[ai] if 0 <= ai < len(call.args) else None
                    if arg is None:
                        for k in call.keywords:
                            if k.arg == fi.params[pi]:
                                arg = k.value
                    got = expr_role(caller.node, arg) if arg is not None else None
                    desc.append(f'{fi.params[pi]}={got or "?"}')
                    if got is None:
                        unresolved += 1
                    elif got != want:
                        confl.append((fi.params[pi], want, norm(arg), got))
                ctx.ob('C15-R1', caller, f'{fi.name}({", ".join(desc)})', not confl,
                       f'wrapper forwards to the geodesic with derived signature {sorted(sig.items())}' if not confl
                       else '; '.join(f'parameter {p} is forwarded to a {w} slot but receives `{t}` ({g})'
                                      for p, w, t, g in confl), line=call.lineno)
    ctx.stats['unresolved_role_arguments'] = unresolved


def rule_track(ctx):
    """R2-R8 of the ground track (re-used by C02 for the leg coherence of the positions it records)."""
    prog = ctx.prog
    m = prog.module(GT)
    gtc = m.cls('GroundTrack')
    # R7 queries are pure: a location depends on the distance asked for, not on earlier queries
    nq = 0
    for meth in gtc.methods.values():
        if meth.name in ('__init__', '__post_init__'):
            continue
        nq += 1
        writes = [st for t, st, how in stores_to(meth.node) if isinstance(t, (ast.Attribute, ast.Subscript))
                  and norm(t).startswith('self.')]
        ctx.ob('C15-R7', meth, f'{meth.name} does not modify the track', not writes,
               'no store to self' if not writes else
               (f'`{norm(writes[0])[:60]}` keeps state between queries: the point returned for a distance then depends '
                'on which distances were asked for before (a lookup that resumes from a cursor is wrong for any '
                'non-monotonic query sequence)'), line=(writes[0].lineno if writes else meth.node.lineno),
               nontrivial=bool(writes))
    ctx.floor('C15-R7', nq, 6, 'GroundTrack query methods')
    # R2 (second half): what the constructor of a point made of the azimuth is not undone afterwards
    point_classes = [c for c in m.classes.values() if 'azimuth' in c.all_fields()]
    for fi in m.functions.values():
        if fi.cls is not None and any(fi.cls is c for c in point_classes):
            continue
        for t, st, how in stores_to(fi.node):
            if isinstance(t, ast.Attribute) and t.attr == 'azimuth' and how != 'del':
                ctx.ob('C15-R2', fi, norm(st), False, 'azimuth of a point overwritten outside its constructor',
                       line=st.lineno)
    # the remaining parts are independent of each other: what one of them cannot decide does not keep the others from
    # reporting what they establish
    covered: set = set()
    first_error = None
    for part in (rule_slots, lambda c: rule_queries(c, covered), rule_mission, rule_private, lambda c: rule_legs(c, covered)):
        try:
            part(ctx)
        except AnalysisError as ex:
            first_error = first_error or ex
    if first_error is not None:
        if any(not o.ok and o.rule == 'C15-R5' for o in ctx.obligations):
            # a leg incoherence has been established: that verdict does not depend on what else could not be decided
            # (C02 re-uses exactly these obligations)
            ctx.note(f'C15: rules not completed: {first_error}')
            return
        raise first_error


def rule_private(ctx):
    """R4 (second half): the guard of the overstep sits in the public query; the helpers that evaluate geodesics for it
    are not an entry of their own, so nothing outside the class may call them."""
    prog = ctx.prog
    m = prog.module(GT)
    gtc = m.cls('GroundTrack')
    for meth in gtc.methods.values():
        if not meth.name.startswith('_') or meth.name.startswith('__'):
            continue
        if not any(k == 'fwd' for f, c, k in geod_calls(prog, closure(prog, [meth]))):
            continue
        outside = [c for c, _ in callers_of(prog, meth) if c.cls is None or not c.cls.is_subclass_of(gtc.name)]
        ctx.ob('C15-R4', meth, 'called only from the ground track itself', not outside,
               'its guards are those of the public queries that reach it' if not outside else
               f'called from {[c.qualname for c in outside]}: the forward geodesic is evaluated without the range / '
               'overstep guards of step()', nontrivial=False)


# ----------------------------------------------------------------- R5 -----
class _Subst(ast.NodeTransformer):
    def __init__(self, mapping):
        self.mapping = mapping

    def visit_Name(self, n):
        if isinstance(n.ctx, ast.Load) and n.id in self.mapping:
            return copy.deepcopy(self.mapping[n.id])
        return n


def _resolve_locals(fi, e: ast.AST, depth: int = 0) -> ast.AST:
    """e with every single-definition local of fi replaced by its defining expression (parameters and locals
    bound to call results stay)"""
    if depth > 4:
        return e
    mapping = {}
    for x in ast.walk(e):
        if isinstance(x, ast.Name) and isinstance(x.ctx, ast.Load) and x.id not in fi.params and x.id not in mapping:
            d = single_def_value(fi.node, x.id)
            # a local bound to a call result is one opaque value: it keeps its name
            if d is not None and not any(isinstance(y, ast.Call) for y in ast.walk(d)):
                mapping[x.id] = _resolve_locals(fi, d, depth + 1)
    if not mapping:
        return e
    return _Subst(mapping).visit(copy.deepcopy(e))


def _bind_call(callee, call: ast.Call):
    """{parameter name: argument expression} of a resolved call, or None when the receiver is another object"""
    params = list(callee.params)
    f = call.func
    if params[:1] in (['self'], ['cls']):
        if not isinstance(f, ast.Attribute):
            return None
        recv = norm(f.value)
        if recv not in ('self', 'cls', 'super()') and not recv[:1].isupper():
            return None             # another instance: `self.` inside the callee is not the caller's self
        if recv[:1].isupper() and params[0] == 'self':
            return None
        params = params[1:]
    elif isinstance(f, ast.Attribute) and norm(f.value) not in ('self', 'cls') and not norm(f.value)[:1].isupper() \
            and callee.cls is not None:
        return None
    if any(isinstance(a, ast.Starred) for a in call.args) or any(k.arg is None for k in call.keywords):
        return None
    out = dict(zip(params, call.args))
    for k in call.keywords:
        if k.arg in params:
            out[k.arg] = k.value
    a = callee.node.args
    pos = a.posonlyargs + a.args
    for arg, dflt in list(zip(pos[len(pos) - len(a.defaults):], a.defaults)) + \
            [(x, d) for x, d in zip(a.kwonlyargs, a.kw_defaults) if d is not None]:
        out.setdefault(arg.arg, dflt)
    return out


_N_WP = 'n_waypoints'


class _Lengths(ast.NodeTransformer):
    """the lengths of the three sequences of a track in terms of one symbol: way-points and cumulative index have one
    entry per way-point, the azimuths one per leg"""

    def visit_Call(self, n):
        self.generic_visit(n)
        if isinstance(n.func, ast.Name) and n.func.id == 'len' and len(n.args) == 1 and not n.keywords:
            a = norm(n.args[0])
            if a in ('self.waypoints', 'self.index', 'self'):
                return ast.Name(id=_N_WP, ctx=ast.Load())
            if a == 'self.azimuths':
                return ast.BinOp(left=ast.Name(id=_N_WP, ctx=ast.Load()), op=ast.Sub(), right=ast.Constant(1))
        return n


def _idx_key(e: ast.AST, extra: int = 0) -> str:
    """canonical text of the position an index expression names in a sequence of (number of way-points + extra)
    entries, so that `pos - 1`, `-1 + pos` and `pos - 2 + 1` agree, and `-2`, `len(self.waypoints) - 2` and (in the
    azimuths, which have one entry less) `-1` and `len(self.azimuths) - 1` agree"""
    e = _Lengths().visit(copy.deepcopy(e))
    c = _int_const(e)
    if c is not None and c < 0:
        e = ast.BinOp(left=ast.Name(id=_N_WP, ctx=ast.Load()), op=ast.Sub(), right=ast.Constant(-(extra + c)))
    try:
        return str(normal_form(e, {}))
    except Exception:
        return norm(e)


def _leg_of_slot(slot: int, e: ast.AST):
    """which leg (named by the index of its start waypoint) a forward-geodesic argument refers to, or None"""
    if slot in (0, 1):
        if isinstance(e, ast.Attribute):
            e = e.value
        if isinstance(e, ast.Subscript) and norm(e.value) == 'self.waypoints':
            return _idx_key(e.slice)
        return None
    if slot == 2:
        if isinstance(e, ast.Subscript) and norm(e.value) == 'self.azimuths':
            # azimuths has one entry per leg: counted from the end, entry -k belongs to the leg that starts at
            # waypoint -(k+1)
            return _idx_key(e.slice, -1)
        return None
    if isinstance(e, ast.BinOp) and isinstance(e.op, ast.Sub) and isinstance(e.right, ast.Subscript) \
            and norm(e.right.value) == 'self.index':
        return _idx_key(e.right.slice)
    return None


SLOT_NAMES = ('start lon', 'start lat', 'azimuth', 'distance origin')


def rule_legs(ctx, covered=frozenset()):
    """R5.  Every forward-geodesic evaluation of the ground track - written in a GroundTrack method or reached from
    one through helpers that forward their parameters - is judged with the arguments as they are at the outermost
    call site: start waypoint, leg azimuth and the cumulative distance subtracted must belong to one leg."""
    prog = ctx.prog
    m = prog.module(GT)
    gt_fns = list(m.functions.values())
    reach = closure(prog, gt_fns)
    judged = []
    legs_of: dict[str, list] = {}

    def fwd_slots(c: ast.Call):
        _, kw = GEOD_SIG['fwd']
        out = []
        for i in range(4):
            a = c.args[i] if i < len(c.args) and not any(isinstance(x, ast.Starred) for x in c.args[:i + 1]) \
                else next((k.value for k in c.keywords if k.arg == kw[i]), None)
            if a is None:
                return None
            out.append(a)
        return out

    def record(fi, leg, depth):
        """the leg an evaluation works on, in terms of the function it is written in and - when it is named by
        that function's parameters - of every ground-track caller"""
        legs_of.setdefault(fi.qualname, []).append(leg)
        own = set(fi.params) - {'self', 'cls'}
        if depth < 4 and any(isinstance(x, ast.Name) and x.id in own for x in ast.walk(leg)):
            for caller, call in callers_of(prog, fi):
                bound = _bind_call(fi, call) if caller.file.endswith(GT) else None
                if bound is not None:
                    record(caller, _resolve_locals(caller, _Subst(bound).visit(copy.deepcopy(leg))), depth + 1)

    def judge(fi, slots, site, via, depth):
        slots = [_resolve_locals(fi, s) for s in slots]
        legs = [_leg_of_slot(i, s) for i, s in enumerate(slots)]
        own = set(fi.params) - {'self', 'cls'}
        open_ = [i for i, l in enumerate(legs) if l is None]
        from_params = [i for i in open_ if any(isinstance(x, ast.Name) and x.id in own for x in ast.walk(slots[i]))]
        if open_ and from_params and depth < 4:
            # a helper that forwards its parameters: judge every call of it instead
            callers = callers_of(prog, fi)
            if not callers:
                ctx.note(f'C15-R5: {fi.qualname} forwards parameters to the forward geodesic and has no resolved caller')
                return
            for caller, call in callers:
                if not caller.file.endswith(GT):
                    ctx.note(f'C15-R5: call of {fi.qualname} from {caller.file} {caller.qualname} is not a ground-track leg')
                    continue
                bound = _bind_call(fi, call)
                if bound is None:
                    ctx.undecided('C15-R5', caller, norm(call)[:80], f'cannot bind the arguments of {fi.qualname}')
                judge(caller, [_Subst(bound).visit(copy.deepcopy(s)) for s in slots], call,
                      via + [fi.qualname], depth + 1)
            return
        if open_:
            ctx.undecided('C15-R5', fi, norm(site)[:80], 'leg components not recognised: ' +
                          ', '.join(f'{SLOT_NAMES[i]} = `{norm(slots[i])[:40]}`' for i in open_))
        named = dict(zip(SLOT_NAMES, legs))
        ok = len(set(legs)) == 1
        judged.append(fi)
        w = slots[0].value if isinstance(slots[0], ast.Attribute) else slots[0]
        record(fi, w.slice, 0)
        ctx.ob('C15-R5', fi, f'fwd legs {named}' + (f' via {" <- ".join(via)}' if via else ''), ok,
               'start point, azimuth and distance origin belong to one leg' if ok else
               'the forward geodesic starts at one waypoint but uses the azimuth / distance origin of another '
               'leg: points leave the great circle', line=site.lineno)

    n_cov = 0
    for fi, c, kind in geod_calls(prog, reach):
        if kind != 'fwd':
            continue
        if id(c) in covered:        # judged in context, on values (rule_queries)
            n_cov += 1
            continue
        slots = fwd_slots(c)
        if slots is None:
            if fi.file.endswith(GT):
                ctx.undecided('C15-R5', fi, norm(c)[:80], 'arguments of the forward geodesic not recognised')
            continue
        if not fi.file.endswith(GT):
            # only as a helper of the ground track: its own arguments must come from parameters
            own = set(fi.params) - {'self', 'cls'}
            if all(_leg_of_slot(i, _resolve_locals(fi, s)) is None and not
                   any(isinstance(x, ast.Name) and x.id in own for x in ast.walk(_resolve_locals(fi, s)))
                   for i, s in enumerate(slots)):
                continue
        judge(fi, slots, c, [], 0)
    ctx.floor('C15-R5', len(judged) + n_cov, 1, 'forward geodesic evaluations of the ground track')
    return legs_of


# =============================================================================================================
# R2-R6 on values: the public queries of the ground track, evaluated in a free model of the geodesic
# =============================================================================================================
# The methods are executed symbolically by the engine of c06 (every branch a path condition, resolved helpers /
# properties / static methods inlined, locals replaced by what they were bound to), so that a returned point reads in
# terms of the method's parameters and the attributes of `self`, whichever helper or temporary it went through.  The
# path conditions and values are then evaluated on sample tracks in a *free model*: `GEOD.fwd` / `GEOD.inv` are
# uninterpreted functions (a deterministic draw per distinct argument tuple, with the symmetries of the real ones:
# inv(A, B)[1] = inv(B, A)[0], inv(A, B)[2] = inv(B, A)[2], fwd(.., az, ..) = fwd(.., az % 360, ..)), way-points are
# objects with distinct coordinates, everything else is ordinary arithmetic on the sample numbers.  Two results are
# equal in that model exactly when they are the same geodesic computation on the same arguments, so "what the code
# returns" can be compared with the reference formula of the property whatever the code is spelled like.  Nothing of
# the repository is imported or run: extracted expressions are evaluated over the model (as C06 does for its path
# conditions).  What the model cannot evaluate is UNDECIDED, never a violation; a difference from the reference is a
# violation only when it is recognised as a specific mistake (wrong leg, wrong origin, missing normalisation ...).


class _Site:
    """where a geodesic call evaluated by statement-by-statement execution is written (the two fields of an engine event
    that the rules read)"""
    __slots__ = ('fi', 'node')

    def __init__(self, fi, node):
        self.fi, self.node = fi, node


def _is_generator(fi) -> bool:
    return any(isinstance(x, (ast.Yield, ast.YieldFrom)) for x in walk_no_nested(fi.node))


class _Unk(Exception):
    """the model cannot evaluate a construct"""


class _Raised(Exception):
    """the evaluated function leaves by raise"""

    def __init__(self, what=''):
        super().__init__(what)
        self.what = what


class _Obj:
    """an instance of a repository class in the model: its class and its attribute values"""
    __slots__ = ('k', 'f')

    def __init__(self, k, f):
        self.k, self.f = k, f

    def __eq__(self, o):
        return isinstance(o, _Obj) and o.k is self.k and o.f == self.f

    def __hash__(self):
        return id(self)

    def __repr__(self):
        return f'{self.k.name if self.k is not None else "?"}({", ".join(f"{a}={v!r}" for a, v in self.f.items())})'


def _draw(*xs) -> float:
    """a deterministic generic number in [0, 1) per argument tuple (arguments rounded: float noise does not matter)"""
    s = 0.0
    for i, x in enumerate(xs):
        s += (i + 1.6180339887) * round(float(x), 6) * 0.7548776662
    h = math.sin(s * 12.9898 + 78.233) * 43758.5453
    return h - math.floor(h)


def _grid(x: float, step: float) -> float:
    return round(x / step) * step


def _inv1(lon1, lat1, lon2, lat2):
    a, b = (lon1, lat1), (lon2, lat2)

    def az(p, q):
        return _grid(_draw(1, *p, *q) * 359.0 - 179.5, 0.25)        # the raw convention (-180, 180]
    lo, hi = sorted([a, b])
    return az(a, b), az(b, a), (400.0 + _grid(_draw(2, *lo, *hi) * 1600.0, 8.0) if a != b else 0.0)


def _fwd1(lon, lat, az, dist):
    az = az % 360.0
    return (_grid(_draw(3, lon, lat, az, dist) * 340.0 - 170.0, 0.125), _grid(_draw(4, lon, lat, az, dist) * 160.0 - 80.0, 0.125),
            _grid(_draw(5, lon, lat, az, dist) * 359.0 - 179.5, 0.25))


def _vectorised(f, args):
    if not all(isinstance(a, (int, float, list, tuple)) and not isinstance(a, bool) for a in args):
        raise _Unk('geodesic argument is not a number')
    if any(isinstance(a, (list, tuple)) for a in args):
        n = {len(a) for a in args if isinstance(a, (list, tuple))}
        if len(n) != 1:
            raise _Raised('geodesic arrays of different length')
        n = n.pop()
        cols = [list(a) if isinstance(a, (list, tuple)) else [a] * n for a in args]
        if not all(isinstance(x, (int, float)) and not isinstance(x, bool) for c in cols for x in c):
            raise _Unk('geodesic argument is not a number')
        rows = [f(*[c[i] for c in cols]) for i in range(n)]
        return tuple([r[j] for r in rows] for j in range(3))
    return f(*args)


def _lib_accumulate(it, func=None, *, initial=None):
    if func is not None:
        raise _Unk('accumulate with a function')
    return list(_it.accumulate(it, initial=initial))


def _lib_searchsorted(a, v, side='left', sorter=None):
    if sorter is not None:
        raise _Unk('searchsorted with sorter')
    return (_bisect.bisect_left if side == 'left' else _bisect.bisect_right)(list(a), v)


def _lib_concatenate(seqs, *more):
    out = []
    for s in seqs:
        out += list(s) if isinstance(s, (list, tuple)) else [s]
    return out


def _lib_array(x, *a, **k):
    return list(x) if isinstance(x, (list, tuple)) else x


def _lib_insert(a, i, v):
    out = list(a)
    if not isinstance(i, int):
        raise _Unk('insert position')
    out[i:i] = list(v) if isinstance(v, (list, tuple)) else [v]
    return out


_LIB = {
    'len': len, 'list': list, 'tuple': tuple, 'float': float, 'int': int, 'abs': abs, 'min': min, 'max': max, 'sum': sum,
    'fsum': math.fsum, 'sorted': sorted, 'range': lambda *a: list(range(*a)), 'bool': bool, 'round': round,
    'any': any, 'all': all, 'enumerate': lambda x, start=0: [(i, v) for i, v in enumerate(x, start)],
    'zip': lambda *a, **k: [tuple(r) for r in zip(*a)], 'reversed': lambda x: list(reversed(x)),
    'pairwise': lambda x: [tuple(r) for r in _it.pairwise(x)],
    'groupby': lambda x: [(k_, list(g)) for k_, g in _it.groupby(x)],
    'asarray': _lib_array, 'array': _lib_array, 'asanyarray': _lib_array, 'float64': float, 'tolist': list,
    'accumulate': _lib_accumulate, 'cumsum': lambda a: list(_it.accumulate(a)),
    'concatenate': _lib_concatenate, 'hstack': _lib_concatenate, 'insert': _lib_insert,
    'diff': lambda a: [y - x for x, y in _it.pairwise(a)],
    'bisect_left': _bisect.bisect_left, 'bisect_right': _bisect.bisect_right, 'bisect': _bisect.bisect,
    'searchsorted': _lib_searchsorted,
    'fmod': math.fmod, 'mod': lambda a, b: a % b, 'remainder': lambda a, b: a % b, 'floor': math.floor, 'ceil': math.ceil,
    'isclose': math.isclose, 'fabs': math.fabs, 'isnan': math.isnan, 'isfinite': math.isfinite, 'isinf': math.isinf,
    'copysign': math.copysign,
}
_LIB_CONST = {'math.pi': math.pi, 'np.pi': math.pi, 'numpy.pi': math.pi, 'math.inf': math.inf, 'np.inf': math.inf,
              'numpy.inf': math.inf, 'math.nan': math.nan, 'np.nan': math.nan, 'numpy.nan': math.nan, 'math.tau': math.tau}
_BIN = {ast.Add: operator.add, ast.Sub: operator.sub, ast.Mult: operator.mul, ast.Div: operator.truediv,
        ast.FloorDiv: operator.floordiv, ast.Mod: operator.mod, ast.Pow: operator.pow}
_CMP = {ast.Eq: operator.eq, ast.NotEq: operator.ne, ast.Lt: operator.lt, ast.LtE: operator.le, ast.Gt: operator.gt,
        ast.GtE: operator.ge, ast.Is: operator.is_, ast.IsNot: operator.is_not}
_PLAIN = (int, float, str, list, tuple, type(None))


def _method(k, name):
    """method `name` of class k through its MRO (the loader keeps the methods of a nested class under the module's
    function table only)"""
    if k is None:
        return None
    for c in k.mro():
        if name in c.methods:
            return c.methods[name]
        for key, c2 in c.module.classes.items():
            if c2 is c and f'{key}.{name}' in c.module.functions:
                return c.module.functions[f'{key}.{name}']
    return None


def _is_geod(e: ast.AST) -> bool:
    """the receiver of a .fwd / .inv call is a geodesic object (names have been resolved by the engine)"""
    if isinstance(e, ast.Call):
        return call_name(e).split('.')[-1] == 'Geod'
    t = e.attr if isinstance(e, ast.Attribute) else e.id if isinstance(e, ast.Name) else ''
    return 'geod' in t.lower()


def _int_const(e):
    """value of an integer constant expression (literals, unary minus, + - * //), else None"""
    if isinstance(e, ast.Constant) and isinstance(e.value, int) and not isinstance(e.value, bool):
        return e.value
    if isinstance(e, ast.UnaryOp) and isinstance(e.op, ast.USub):
        v = _int_const(e.operand)
        return -v if v is not None else None
    if isinstance(e, ast.BinOp) and type(e.op) in (ast.Add, ast.Sub, ast.Mult, ast.FloorDiv):
        a, b = _int_const(e.left), _int_const(e.right)
        if a is None or b is None or (isinstance(e.op, ast.FloorDiv) and b == 0):
            return None
        return _BIN[type(e.op)](a, b)
    return None


_ENGINE = None


def _engine_class():
    """the symbolic engine of C06, taught three things about sequences of known length (so that a loop over the
    way-points of a sample track, or over the legs computed from them, is unrolled like a loop over a literal table):
    a slice of a display is a display; pyproj's geodesic calls work element by element on sequences; range() of
    constants and pairwise() of a display are displays"""
    global _ENGINE
    if _ENGINE is not None:
        return _ENGINE
    from .c06 import Engine

    class Eng(Engine):
        def _subscript(self, v, sl, st):
            if isinstance(sl, ast.Slice) and isinstance(v, (ast.List, ast.Tuple)) and \
                    not any(isinstance(x, ast.Starred) for x in v.elts):
                parts = [None if x is None else _int_const(x) for x in (sl.lower, sl.upper, sl.step)]
                if all(p is not None or x is None for p, x in zip(parts, (sl.lower, sl.upper, sl.step))) and parts[2] != 0:
                    return [(type(v)(elts=list(v.elts[slice(*parts)]), ctx=ast.Load()), st)]
            return super()._subscript(v, sl, st)

        def _call1(self, c, recv, pos, kw, st, fr, raises):
            f = c.func
            if isinstance(f, ast.Attribute) and f.attr in GEOD_SIG and recv is not None and _is_geod(recv) and not kw \
                    and len(pos) == 4 and all(isinstance(a, (ast.List, ast.Tuple)) for a in pos):
                ns = {len(a.elts) for a in pos}
                if len(ns) == 1 and not any(isinstance(x, ast.Starred) for a in pos if isinstance(a, (ast.List, ast.Tuple))
                                            for x in a.elts):
                    n = ns.pop()
                    rows = [ast.Call(func=ast.Attribute(value=recv, attr=f.attr, ctx=ast.Load()),
                                     args=[(a.elts[i] if isinstance(a, (ast.List, ast.Tuple)) else a) for a in pos], keywords=[])
                            for i in range(n)]
                    val = ast.Tuple(elts=[ast.List(elts=[ast.Subscript(value=r, slice=ast.Constant(value=j), ctx=ast.Load())
                                                         for r in rows], ctx=ast.Load()) for j in range(3)], ctx=ast.Load())
                    return [(val, st)]
            if isinstance(f, ast.Name) and f.id == 'range' and f.id not in st.env and not kw and 1 <= len(pos) <= 3:
                vals = [_int_const(a) for a in pos]
                if all(v is not None for v in vals) and (len(vals) < 3 or vals[2] != 0) and len(range(*vals)) <= 24:
                    return [(ast.List(elts=[ast.Constant(value=i) for i in range(*vals)], ctx=ast.Load()), st)]
            if (dotted_name(f) or '').split('.')[-1] == 'pairwise' and not kw and len(pos) == 1 \
                    and isinstance(pos[0], (ast.List, ast.Tuple)) and not any(isinstance(x, ast.Starred) for x in pos[0].elts):
                e = pos[0].elts
                return [(ast.List(elts=[ast.Tuple(elts=[a, b], ctx=ast.Load()) for a, b in zip(e, e[1:])], ctx=ast.Load()), st)]
            return super()._call1(c, recv, pos, kw, st, fr, raises)

        def _mutation(self, src, val, st):
            # `obj.field.append(x)` / `.extend([..])` on a field that holds a display on this path (outside summarised
            # loops): the field then holds the longer display
            if isinstance(src, ast.Call) and isinstance(src.func, ast.Attribute) and src.func.attr in ('append', 'extend') \
                    and isinstance(src.func.value, ast.Attribute) and isinstance(src.func.value.value, ast.Name) \
                    and isinstance(val, ast.Call) and len(val.args) == 1 and not val.keywords and not st.loops:
                base = st.env.get(src.func.value.value.id)
                if isinstance(base, ast.expr):
                    key = canon(ast.Attribute(value=base, attr=src.func.value.attr, ctx=ast.Load()))
                    cur = st.heap.get(key)
                    if isinstance(cur, ast.List):
                        if src.func.attr == 'append':
                            return st.store(key, ast.List(elts=list(cur.elts) + [val.args[0]], ctx=ast.Load()))
                        if isinstance(val.args[0], (ast.List, ast.Tuple)):
                            return st.store(key, ast.List(elts=list(cur.elts) + list(val.args[0].elts), ctx=ast.Load()))
            return super()._mutation(src, val, st)

        def _subst(self, e, st, bound=frozenset()):
            # a comprehension / lambda the engine keeps as an expression (its iterable is not a display): the engine
            # replaces the free locals by their values; a field stored earlier on the path is read back as the value
            # stored, like everywhere else (the field of a name bound by the comprehension itself is left alone)
            out = super()._subst(e, st, bound)
            heap = st.heap
            if not heap or not self.read_back:
                return out
            from ..astutil import assigned_names

            class H(ast.NodeTransformer):
                def __init__(self, bound):
                    self.bound = set(bound)

                def visit_Attribute(self, n):
                    if isinstance(n.ctx, ast.Load):
                        r = n
                        while isinstance(r, (ast.Attribute, ast.Subscript)):
                            r = r.value
                        if not (isinstance(r, ast.Name) and r.id in self.bound):
                            v = heap.get(canon(n))
                            if isinstance(v, ast.expr):
                                return v            # (the stored node itself: constructor calls are known by identity)
                    return self.generic_visit(n)

                def visit_Lambda(self, n):
                    a = n.args
                    names = {x.arg for x in a.posonlyargs + a.args + a.kwonlyargs} | \
                        ({a.vararg.arg} if a.vararg else set()) | ({a.kwarg.arg} if a.kwarg else set())
                    return H(self.bound | names).generic_visit(n)

                def _comp(self, n):
                    names = set()
                    for g in n.generators:
                        names |= set(assigned_names(g.target))
                    return H(self.bound | names).generic_visit(n)
                visit_ListComp = visit_SetComp = visit_GeneratorExp = visit_DictComp = _comp
            return H(bound).visit(out)

        def run_seeded(self, fi, self_cls, args, heap):
            """Engine.run with object fields known on entry (`heap`: canonical text of the field -> value)"""
            from .c06 import Fr, St, _const, _name
            e = {p_: _name(p_) for p_ in fi.params}
            e.update(args)
            sv = e[fi.params[0]] if fi.params and fi.params[0] in ('self', 'cls') else None
            fr = Fr(fi, self_cls or fi.cls, sv, (fi.qualname,))
            outs = self.block(fi.node.body, St(env=e, heap=dict(heap)), fr)
            return [(('return' if k == 'fall' else k), (v if k != 'fall' else _const(None)), s_) for k, v, s_ in outs]

    _ENGINE = Eng
    return Eng


class _World:
    """evaluation of repository functions over model values"""

    def __init__(self, prog, inline=None):
        self.prog = prog
        self.eng = _engine_class()(prog, inline=inline)
        self._outs: dict = {}
        self._ctor_index: dict = {}
        self._ctor_seen = 0
        self.log: list = []             # geodesic evaluations of the query under way: (kind, [args], event | None)
        self.node_event: dict = {}
        self.quiet = 0
        self.stack: list = []
        self._mutating: dict = {}
        self.call_memo: dict = {}       # value of a call that was evaluated at its place in the path (by source node)
        self.frame_fi = None            # the function whose statements are being executed on model values, if any
        self.fuel = 0

    # ------------------------------------------------------------ functions
    def outcomes(self, fi, cls, lists, seqs=()):
        """paths through fi; the sequence-valued parameters (`lists`) and sequence-valued attributes of self (`seqs`) are
        presented to the engine as displays of their (symbolic) elements, so that loops over them unroll"""
        key = (fi.file, fi.qualname, cls.name if cls is not None else None, lists, seqs)
        if key not in self._outs:
            def display(stem, n):
                return ast.List(elts=[ast.Name(id=f'{stem}__{i}', ctx=ast.Load()) for i in range(n)], ctx=ast.Load())
            args = {p: display(p, n) for p, n in lists}
            heap = {f'{fi.params[0]}.{a}': display(f'{fi.params[0]}__{a}', n) for a, n in seqs}
            try:
                self._outs[key] = self.eng.run_seeded(fi, cls, args, heap)
            except RecursionError:
                raise _Unk(f'{fi.qualname}: recursion too deep') from None
            except Exception as ex:         # Undecided of the engine, or a form it does not know
                raise _Unk(f'{fi.qualname}: {type(ex).__name__}: {ex}') from None
            # a loop the engine could not unroll is summarised by alternatives without a condition (no iteration / some
            # iterations): which one is taken on the sample track cannot be told from path conditions
            if any(isinstance(c, ast.Call) and isinstance(c.func, ast.Name) and c.func.id == '_in_loop'
                   for o in self._outs[key] for c, _ in o[2].pc):
                self._outs[key] = None
        if self._outs[key] is None:
            raise _Unk(f'{fi.qualname}: a loop over something that is not a sequence of known length on the sample track')
        return self._outs[key]

    def invoke(self, fi, cls, self_obj, pos, kw=None):
        """value returned by fi on model arguments (stores to model objects applied); _Raised when it leaves by raise"""
        if len(self.stack) > 12:
            raise _Unk('model evaluation nests too deep')
        self.stack.append(fi)
        try:
            return self._invoke(fi, cls, self_obj, list(pos), dict(kw or {}))
        finally:
            self.stack.pop()

    def _invoke(self, fi, cls, self_obj, pos, kw):
        a = fi.node.args
        if a.vararg or a.kwarg:
            raise _Unk(f'{fi.qualname}: variadic signature')
        names = [x.arg for x in a.posonlyargs + a.args]
        env = {}
        decs = [d.split('.')[-1].split('(')[0] for d in fi.decorators()]
        if names and fi.cls is not None and 'staticmethod' not in decs and '<locals>' not in fi.qualname:
            env[names[0]] = self_obj
            names = names[1:]
        if len(pos) > len(names):
            raise _Unk(f'{fi.qualname}: too many arguments')
        env.update(zip(names, pos))
        allowed = set(names) | {x.arg for x in a.kwonlyargs}
        for k_, v in kw.items():
            if k_ in env or k_ not in allowed:
                raise _Unk(f'{fi.qualname}: unexpected argument {k_}')
            env[k_] = v
        allpos = [x.arg for x in a.posonlyargs + a.args]
        for nme, d in list(zip(allpos[len(allpos) - len(a.defaults):], a.defaults)) + \
                [(x.arg, d) for x, d in zip(a.kwonlyargs, a.kw_defaults) if d is not None]:
            if nme not in env:
                env[nme] = self.ev(d, {})
        if any(n_ not in env for n_ in allowed):
            raise _Unk(f'{fi.qualname}: missing argument')
        lists = tuple(sorted((p, len(v)) for p, v in env.items()
                             if isinstance(v, list) and v and all(isinstance(x, _Obj) for x in v)))
        for p, n in lists:
            for i in range(n):
                env[f'{p}__{i}'] = env[p][i]
        seqs = ()
        if isinstance(self_obj, _Obj) and fi.params and env.get(fi.params[0]) is self_obj:
            seqs = tuple(sorted((a, len(v)) for a, v in self_obj.f.items() if isinstance(v, list) and 0 < len(v) <= 24
                                and all(isinstance(x, (int, float, _Obj)) and not isinstance(x, bool) for x in v)))
            for a, n in seqs:
                for i in range(n):
                    env[f'{fi.params[0]}__{a}__{i}'] = self_obj.f[a][i]
        if _is_generator(fi):
            ys = self.run_concrete(fi, env)
            if any(d.split('.')[-1].split('(')[0] == 'contextmanager' for d in fi.decorators()):
                # the engine binds the `as` name of a with statement to the context expression: the value of a call of a
                # @contextmanager function is what the with statement binds, the one value it yields
                if len(ys) != 1:
                    raise _Unk(f'{fi.qualname}: a context manager that does not yield exactly once')
                return ys[0]
            return ys
        try:
            kind, v, st = self.select(self.outcomes(fi, cls, lists, seqs), env, fi)
            self._no_change_in_place(fi, st)
            self._no_opaque_mutation(fi, env, st)
        except _Unk as ex:
            # the paths of the function cannot be told apart symbolically (a loop over something whose length is known
            # only on the sample track, running state the engine does not follow): on model values the statements can
            # still be executed one by one
            try:
                return self.run_concrete(fi, env)
            except _Unk as ex2:
                raise _Unk(f'{ex}; statement by statement: {ex2}') from None
        saved_frame, self.frame_fi = self.frame_fi, None
        try:
            return self._finish(fi, env, kind, v, st)
        finally:
            self.frame_fi = saved_frame

    def _no_change_in_place(self, fi, st):
        # a container changed in place is followed by the engine only when it is a local display; a field of an object
        # changed in place (or through a local alias of it) is not
        for e in st.events:
            if e.kind == 'call' and isinstance(getattr(e.node, 'func', None), ast.Attribute) and e.node.func.attr in MUTATING_METHODS:
                r = e.node.func.value
                grown_field = e.node.func.attr in ('append', 'extend') and isinstance(r, ast.Attribute) \
                    and isinstance(r.value, ast.Name) and isinstance(e.target, ast.List) \
                    and isinstance(st.heap.get(canon(r)), ast.List)
                if not grown_field and (not isinstance(r, ast.Name) or any(hv is e.target for hv in st.heap.values())):
                    raise _Unk(f'{fi.qualname}: `{canon(e.node)[:50]}` changes an object in place')

    def _changes_state(self, meth) -> bool:
        """meth, or something it reaches, stores to a field / an element or changes a container it did not make"""
        key = (meth.file, meth.qualname)
        if key not in self._mutating:
            res = False
            for g in closure(self.prog, [meth]):
                if _is_generator(g) or (g is not meth and g.name in ('__init__', '__post_init__', '__new__')):
                    continue            # (a generator that stores is refused where it is executed; a constructor fills a new object)
                local = {a for t, _, _ in stores_to(g.node) for a in ([t.id] if isinstance(t, ast.Name) else [])} - set(g.params)
                if any(isinstance(t, (ast.Attribute, ast.Subscript)) for t, _, _ in stores_to(g.node)):
                    res = True
                for c in calls_in(g.node):
                    if isinstance(c.func, ast.Attribute) and c.func.attr in MUTATING_METHODS and not (
                            isinstance(c.func.value, ast.Name) and c.func.value.id in local):
                        res = True
                    if call_name(c).split('.')[-1] in ('setattr', '__setattr__'):
                        res = True
            self._mutating[key] = res
        return self._mutating[key]

    def _no_opaque_mutation(self, fi, env, st):
        """The expressions of a path are evaluated when their value is needed.  That is the value the program computes as
        long as the objects they read do not change along the path - which the engine guarantees for what it inlines
        (stores are read back).  A method of a model object that the engine left as a call and that changes the object
        (a helper object filled step by step) breaks it: the function is then executed statement by statement."""
        for e in st.events:
            if e.kind != 'call' or not isinstance(e.value, ast.Call) or not isinstance(e.value.func, ast.Attribute) \
                    or e.value.func.attr in GEOD_SIG or e.value.func.attr in MUTATING_METHODS:
                continue
            recv = e.value.func.value
            k = self.ctor_class(recv) if isinstance(recv, ast.Call) else None
            if k is None:
                self.quiet += 1
                try:
                    o = self.ev(recv, env)
                    k = o.k if isinstance(o, _Obj) else None
                except (_Unk, _Raised):
                    k = None
                finally:
                    self.quiet -= 1
            meth = _method(k, e.value.func.attr)
            if meth is not None and self._changes_state(meth):
                raise _Unk(f'{fi.qualname}: `{canon(e.node)[:50]}` changes an object through a method the engine does not follow')

    def _finish(self, fi, env, kind, v, st):
        saved, saved_memo = self.node_event, self.call_memo
        self.node_event = dict(saved)
        self.node_event.update({id(e.value): e for e in st.events if e.kind == 'call' and e.value is not None})
        self.call_memo = dict(saved_memo)
        try:
            if kind == 'raise':
                raise _Raised(canon(v)[:80])
            effects = []

            def flush():
                for tgt, x in effects:
                    self.assign(tgt, x, env)
                del effects[:]
            for e in st.events:
                if e.kind == 'store':
                    effects.append((e.target, self.ev(e.value, env)))
                elif e.kind == 'call' and isinstance(e.value, ast.Call) and len(e.args) == 3 and not e.kwargs and \
                        canon(e.value.func) in ('object.__setattr__', 'setattr') and isinstance(e.args[1], ast.Constant) \
                        and isinstance(e.args[1].value, str):
                    effects.append((ast.Attribute(value=e.args[0], attr=e.args[1].value, ctx=ast.Load()),
                                    self.ev(e.args[2], env)))
                elif e.kind == 'ctor' and isinstance(e.value, ast.Call) and id(e.value) not in self.call_memo:
                    # an object constructed on the path is one object wherever the engine's expressions mention it (a helper
                    # object that is filled step by step and read afterwards)
                    try:
                        self.call_memo[id(e.value)] = self.ev(e.value, env)
                    except (_Unk, _Raised):
                        pass                # (reported when, and if, the value is needed)
                elif e.kind == 'call' and isinstance(e.value, ast.Call) and isinstance(e.value.func, ast.Attribute) \
                        and e.value.func.attr not in GEOD_SIG and id(e.value) not in self.call_memo:
                    # a method of a model object that the engine did not inline (a generator, a recursion): it runs at this
                    # point of the path, on the object as the stores before it have left it, and once
                    self.quiet += 1
                    try:
                        recv = self.ev(e.value.func.value, env)
                    except (_Unk, _Raised):
                        recv = None
                    finally:
                        self.quiet -= 1
                    if isinstance(recv, _Obj) and _method(recv.k, e.value.func.attr) is not None:
                        flush()
                        try:
                            self.call_memo[id(e.value)] = self.ev(e.value, env)
                        except _Unk:
                            pass            # (reported when, and if, the value is needed)
            val = self.ev(v, env)
            # a field that was grown in place holds, at the end of the path, the display the engine kept for it
            for key, hv in st.heap.items():
                if isinstance(hv, ast.List) and re.fullmatch(r'\w+\.\w+', key) and key.split('.')[0] in env:
                    nme, attr = key.split('.')
                    effects.append((ast.Attribute(value=ast.Name(id=nme, ctx=ast.Load()), attr=attr, ctx=ast.Load()),
                                    self.ev(hv, env)))
            flush()
            return val
        finally:
            self.node_event, self.call_memo = saved, saved_memo

    # ------------------------------------------------------------ statement-by-statement execution
    # Generator functions (which the engine does not inline) and functions whose paths the engine cannot separate are
    # executed on the model values themselves: locals in `env`, sequences as Python lists (so growing one in place is
    # seen through every name bound to it, as in the program), objects as _Obj, every expression through ev().  A
    # generator is consumed eagerly: its value is the list of what it yields (next() on it is not modelled, and a
    # generator that changes objects its consumer reads between two yields would be evaluated in another order - the
    # latter needs a store to a non-local object, which is refused inside a generator).  Whatever is not modelled
    # is _Unk.
    _LIST_OPS = ('append', 'extend', 'insert', 'pop', 'clear', 'reverse', 'sort', 'remove')

    def run_concrete(self, fi, env):
        gen = _is_generator(fi)
        if any(isinstance(x, (ast.Global, ast.Nonlocal, ast.AsyncWith, ast.AsyncFor, ast.Await, ast.Delete,
                              ast.Match, ast.Lambda) + ((ast.TryStar,) if hasattr(ast, 'TryStar') else ())) for x in walk_no_nested(fi.node)) \
                or any(isinstance(x, (ast.FunctionDef, ast.AsyncFunctionDef, ast.ClassDef)) for b in fi.node.body for x in ast.walk(b)):
            raise _Unk(f'{fi.qualname}: a statement form that is not executed on model values')
        ys = [] if gen else None
        top = self.frame_fi is None and self.fuel <= 0
        if top:
            self.fuel = 20000
        saved, self.frame_fi = self.frame_fi, fi
        try:
            r = self._exec(fi.node.body, env, ys)
        finally:
            self.frame_fi = saved
            if top:
                self.fuel = 0
        if r is not None and r[0] != 'return':
            raise _Unk(f'{fi.qualname}: {r[0]} outside a loop')
        if gen:
            return ys
        return r[1] if r is not None else None

    def _exec(self, stmts, env, ys):
        for s in stmts:
            r = self._exec1(s, env, ys)
            if r is not None:
                return r
        return None

    def _store(self, t, val, env, ys):
        if isinstance(t, ast.Name):
            env[t.id] = val
        elif isinstance(t, (ast.Tuple, ast.List)):
            if any(isinstance(x, ast.Starred) for x in t.elts) or not isinstance(val, (list, tuple)):
                raise _Unk('unpacking')
            if len(val) != len(t.elts):
                raise _Raised('ValueError: unpacking')
            for x, y in zip(t.elts, val):
                self._store(x, y, env, ys)
        elif isinstance(t, (ast.Attribute, ast.Subscript)):
            if ys is not None:
                raise _Unk(f'a generator that stores to {canon(t)[:40]}')
            self.assign(t, val, env)
        else:
            raise _Unk(f'store to {canon(t)[:40]}')

    def _exec1(self, s, env, ys):
        self.fuel -= 1
        if self.fuel < 0:
            raise _Unk('too many statements executed on model values')
        if isinstance(s, ast.Expr):
            v = s.value
            if isinstance(v, ast.Yield):
                ys.append(self.ev(v.value, env) if v.value is not None else None)
            elif isinstance(v, ast.YieldFrom):
                it = self.ev(v.value, env)
                if not isinstance(it, (list, tuple)):
                    raise _Unk('yield from something that is not a sequence')
                ys.extend(it)
            elif isinstance(v, ast.Call) and isinstance(v.func, ast.Attribute) and v.func.attr in self._LIST_OPS:
                recv = self.ev(v.func.value, env)
                if isinstance(recv, list):
                    if ys is not None and not isinstance(v.func.value, ast.Name):
                        raise _Unk(f'a generator that changes {canon(v.func.value)[:40]} in place')
                    pos = [self.ev(a, env) for a in v.args]
                    if v.keywords or any(isinstance(a, ast.Starred) for a in v.args) or v.func.attr == 'sort' and \
                            not all(isinstance(x, (int, float)) for x in recv):
                        raise _Unk(f'{canon(v)[:50]}')
                    try:
                        getattr(recv, v.func.attr)(*pos)
                    except (IndexError, ValueError):
                        raise _Raised(f'{v.func.attr} on a sequence') from None
                    except TypeError:
                        raise _Unk(f'{canon(v)[:50]}') from None
                else:
                    self.ev(v, env)
            elif not isinstance(v, ast.Constant):
                self.ev(v, env)
            return None
        if isinstance(s, ast.Assign):
            val = self.ev(s.value, env)
            for t in s.targets:
                self._store(t, val, env, ys)
            return None
        if isinstance(s, ast.AnnAssign):
            if s.value is not None:
                self._store(s.target, self.ev(s.value, env), env, ys)
            return None
        if isinstance(s, ast.AugAssign):
            load = copy.deepcopy(s.target)
            load.ctx = ast.Load()
            cur = self.ev(load, env)
            if isinstance(cur, list):
                if not isinstance(s.op, ast.Add) or (ys is not None and not isinstance(s.target, ast.Name)):
                    raise _Unk(f'{canon(s)[:50]}')
                more = self.ev(s.value, env)
                if not isinstance(more, (list, tuple)):
                    raise _Unk(f'{canon(s)[:50]}')
                cur.extend(more)
                return None
            self._store(s.target, self.ev(ast.BinOp(left=load, op=s.op, right=s.value), env), env, ys)
            return None
        if isinstance(s, (ast.For, ast.While)):
            if isinstance(s, ast.For):
                it = self.ev(s.iter, env)
                if isinstance(it, dict):
                    it = list(it)
                if not isinstance(it, (list, tuple)):
                    raise _Unk(f'loop over {canon(s.iter)[:40]}, which is not a sequence in the model')
                items = iter(list(it))
            broke = False
            while True:
                if isinstance(s, ast.For):
                    try:
                        self._store(s.target, next(items), env, ys)
                    except StopIteration:
                        break
                elif not self.ev(s.test, env):
                    break
                self.fuel -= 1
                if self.fuel < 0:
                    raise _Unk('too many statements executed on model values')
                r = self._exec(s.body, env, ys)
                if r is not None:
                    if r[0] == 'break':
                        broke = True
                        break
                    if r[0] != 'continue':
                        return r
            if not broke and s.orelse:
                return self._exec(s.orelse, env, ys)
            return None
        if isinstance(s, ast.If):
            return self._exec(s.body if self.ev(s.test, env) else s.orelse, env, ys)
        if isinstance(s, ast.Try):
            try:
                r = self._exec(s.body, env, ys)
            except _Raised:
                if s.handlers:
                    raise _Unk('an exception that meets a handler') from None
                self._exec(s.finalbody, env, ys)
                raise
            if r is None and s.orelse:
                r = self._exec(s.orelse, env, ys)
            rf = self._exec(s.finalbody, env, ys)
            return rf if rf is not None else r
        if isinstance(s, ast.With) and all(it.optional_vars is None for it in s.items):
            # (as the engine has it: a context manager that binds nothing does not change what its body computes)
            return self._exec(s.body, env, ys)
        if isinstance(s, ast.Return):
            return ('return', self.ev(s.value, env) if s.value is not None else None)
        if isinstance(s, ast.Raise):
            raise _Raised(canon(s.exc)[:80] if s.exc is not None else 're-raise')
        if isinstance(s, ast.Assert):
            if not self.ev(s.test, env):
                raise _Raised('AssertionError')
            return None
        if isinstance(s, ast.Break):
            return ('break', None)
        if isinstance(s, ast.Continue):
            return ('continue', None)
        if isinstance(s, (ast.Pass, ast.Import, ast.ImportFrom)):
            return None
        raise _Unk(f'statement {type(s).__name__}')

    def select(self, outs, env, fi):
        """the one path whose condition holds on the model values"""
        sure, maybe = [], []
        self.quiet += 1
        try:
            for o in outs:
                verdict = True
                for cond, pol in o[2].pc:
                    try:
                        if bool(self.ev(cond, env)) != pol:
                            verdict = False
                            break
                    except (_Unk, _Raised):
                        verdict = None
                if verdict is True:
                    sure.append(o)
                elif verdict is None:
                    maybe.append(o)
        finally:
            self.quiet -= 1
        if len(sure) == 1:
            return sure[0]
        if not sure and len(maybe) == 1:
            return maybe[0]
        raise _Unk(f'cannot tell which path through {fi.qualname} is taken '
                   f'({len(sure)} hold, {len(maybe)} cannot be evaluated)')

    def assign(self, tgt, x, env):
        if isinstance(tgt, ast.Attribute):
            o = self.ev(tgt.value, env)
            if isinstance(o, _Obj):
                o.f[tgt.attr] = x
                return
        elif isinstance(tgt, ast.Subscript):
            o, i = self.ev(tgt.value, env), self.ev(tgt.slice, env)
            if isinstance(o, (list, dict)):
                try:
                    o[i] = x
                except (IndexError, KeyError, TypeError):
                    raise _Raised('store out of range') from None
                return
        raise _Unk(f'store to {canon(tgt)[:50]}')

    # ------------------------------------------------------------ objects
    def ctor_class(self, n: ast.Call):
        if not isinstance(n.func, ast.Name):
            return None
        cs = self.eng.ctors
        if len(cs) != self._ctor_seen:
            for k, ev in cs[self._ctor_seen:]:
                self._ctor_index[id(ev.value)] = k
                self._ctor_index.setdefault(('name', k.name), set()).add(id(k))
                self._ctor_index[('cls', id(k))] = k
            self._ctor_seen = len(cs)
        k = self._ctor_index.get(id(n))
        if k is not None:
            return k
        named = self._ctor_index.get(('name', n.func.id), set())
        if len(named) == 1:
            return self._ctor_index[('cls', next(iter(named)))]
        return None

    def construct(self, k, pos, kw=None):
        kw = dict(kw or {})
        obj = _Obj(k, {})
        init = _method(k, '__init__')
        if init is not None:
            self.invoke(init, k, obj, pos, kw)
            return obj
        decs = [ast.unparse(d).split('(')[0].split('.')[-1] for c in k.mro() for d in c.node.decorator_list]
        bases = [b.split('.')[-1] for c in k.mro() for b in c.base_exprs]
        if _method(k, '__new__') is not None or not ('dataclass' in decs or 'NamedTuple' in bases or 'define' in decs):
            raise _Unk(f'constructor of {k.name}')
        fields = [f for f, ann in k.all_fields().items() if 'ClassVar' not in ast.unparse(ann)]
        if len(pos) > len(fields):
            raise _Unk(f'constructor of {k.name}: too many arguments')
        obj.f.update(zip(fields, pos))
        for f, v in kw.items():
            if f in obj.f or f not in fields:
                raise _Unk(f'constructor of {k.name}: argument {f}')
            obj.f[f] = v
        dflt = {}
        for c in reversed(k.mro()):
            dflt.update({f: d for f, d in c.class_assignments().items() if d is not None})
        for f in fields:
            if f not in obj.f:
                if f not in dflt:
                    raise _Unk(f'constructor of {k.name}: field {f} not given')
                obj.f[f] = self.ev(dflt[f], {})
        obj.f = {f: obj.f[f] for f in fields}
        pi = _method(k, '__post_init__')
        if pi is not None:
            self.invoke(pi, k, obj, [])
        return obj

    def method(self, obj: _Obj, name: str, pos, kw=None):
        m = _method(obj.k, name)
        if m is None:
            raise _Unk(f'{name} of {obj.k.name if obj.k is not None else "?"}')
        return self.invoke(m, obj.k, obj, pos, kw)

    # ------------------------------------------------------------ expressions
    def ev(self, n, env):
        if isinstance(n, ast.Constant):
            return n.value
        if isinstance(n, ast.Name):
            if n.id in env:
                return env[n.id]
            if self.frame_fi is not None and n.id in self.frame_fi.module.constants:
                return self.ev(self.frame_fi.module.constants[n.id], {})
            raise _Unk(f'name {n.id}')
        if isinstance(n, ast.NamedExpr) and isinstance(n.target, ast.Name):
            env[n.target.id] = self.ev(n.value, env)
            return env[n.target.id]
        if isinstance(n, ast.Attribute):
            d = dotted_name(n)
            if d in _LIB_CONST:
                return _LIB_CONST[d]
            v = self.ev(n.value, env)
            if isinstance(v, _Obj):
                if n.attr in v.f:
                    return v.f[n.attr]
                m = _method(v.k, n.attr)
                if m is not None and any(x.split('.')[-1] in ('property', 'cached_property') for x in m.decorators()):
                    return self.invoke(m, v.k, v, [])
            raise _Unk(f'attribute {canon(n)[:50]}')
        if isinstance(n, ast.Subscript):
            v = self.ev(n.value, env)
            if isinstance(v, _Obj) and _method(v.k, '__getitem__') is None and v.k is not None and \
                    any(b.split('.')[-1] == 'NamedTuple' for c in v.k.mro() for b in c.base_exprs):
                v = tuple(v.f.values())
            if isinstance(v, _Obj):
                return self.method(v, '__getitem__', [self.ev(n.slice, env)])
            if not isinstance(v, (list, tuple, str, dict)):
                raise _Unk(f'subscript of {canon(n.value)[:40]}')
            if isinstance(n.slice, ast.Slice):
                parts = [self.ev(x, env) if x is not None else None for x in (n.slice.lower, n.slice.upper, n.slice.step)]
                if not all(p is None or (isinstance(p, int) and not isinstance(p, bool)) for p in parts) or isinstance(v, dict):
                    raise _Unk('slice bounds')
                return v[slice(*parts)]
            i = self.ev(n.slice, env)
            if isinstance(v, dict):
                if i in v:
                    return v[i]
                raise _Raised('KeyError')
            if not isinstance(i, int) or isinstance(i, bool):
                raise _Unk(f'index {canon(n.slice)[:40]}')
            try:
                return v[i]
            except IndexError:
                raise _Raised('IndexError') from None
        if isinstance(n, ast.Call):
            if id(n) in self.call_memo:
                return self.call_memo[id(n)]
            return self.call(n, env)
        if isinstance(n, ast.BoolOp):
            r = None
            for x in n.values:
                r = self.ev(x, env)
                if bool(r) != isinstance(n.op, ast.And):
                    return r
            return r
        if isinstance(n, ast.UnaryOp):
            v = self.ev(n.operand, env)
            if isinstance(n.op, ast.Not):
                return not v
            if isinstance(v, (int, float)):
                return -v if isinstance(n.op, ast.USub) else +v if isinstance(n.op, ast.UAdd) else ~v
            raise _Unk('unary operator')
        if isinstance(n, ast.BinOp):
            a, b = self.ev(n.left, env), self.ev(n.right, env)
            if type(n.op) not in _BIN or not isinstance(a, _PLAIN) or not isinstance(b, _PLAIN) or a is None or b is None:
                raise _Unk(f'operator in {canon(n)[:50]}')
            try:
                return _BIN[type(n.op)](a, b)
            except ZeroDivisionError:
                raise _Raised('ZeroDivisionError') from None
            except TypeError:
                raise _Unk(f'operands of {canon(n)[:50]}') from None
        if isinstance(n, ast.Compare):
            left = self.ev(n.left, env)
            for op, c in zip(n.ops, n.comparators):
                right = self.ev(c, env)
                if isinstance(op, (ast.In, ast.NotIn)):
                    if isinstance(right, _Obj):
                        r = bool(self.method(right, '__contains__', [left]))
                    elif isinstance(right, (list, tuple, dict, str)):
                        r = left in right
                    else:
                        raise _Unk('membership test')
                    r = r if isinstance(op, ast.In) else not r
                else:
                    try:
                        r = _CMP[type(op)](left, right)
                    except TypeError:
                        raise _Unk(f'comparison {canon(n)[:50]}') from None
                if not r:
                    return False
                left = right
            return True
        if isinstance(n, ast.IfExp):
            return self.ev(n.body if self.ev(n.test, env) else n.orelse, env)
        if isinstance(n, (ast.Tuple, ast.List)):
            out = []
            for x in n.elts:
                if isinstance(x, ast.Starred):
                    out += list(self.ev(x.value, env))
                else:
                    out.append(self.ev(x, env))
            return tuple(out) if isinstance(n, ast.Tuple) else out
        if isinstance(n, (ast.ListComp, ast.GeneratorExp)):
            res = []

            def loop(i, e):
                if i == len(n.generators):
                    res.append(self.ev(n.elt, e))
                    return
                g = n.generators[i]
                it = self.ev(g.iter, e)
                if not isinstance(it, (list, tuple)):
                    raise _Unk('iteration over a non-sequence')
                for item in it:
                    e2 = dict(e)
                    self.bind(g.target, item, e2)
                    if all(self.ev(c, e2) for c in g.ifs):
                        loop(i + 1, e2)
            loop(0, env)
            return res
        if isinstance(n, ast.JoinedStr):
            return '<text>'
        raise _Unk(f'{type(n).__name__} {canon(n)[:50]}')

    def matches(self, v, p, env) -> bool:
        """structural pattern matching of a model value (no captures: the engine binds none for these patterns)"""
        if isinstance(p, ast.MatchValue):
            return v == self.ev(p.value, env)
        if isinstance(p, ast.MatchSingleton):
            return v is p.value
        if isinstance(p, ast.MatchAs) and p.name is None:
            return True if p.pattern is None else self.matches(v, p.pattern, env)
        if isinstance(p, ast.MatchOr):
            return any(self.matches(v, q, env) for q in p.patterns)
        if isinstance(p, ast.MatchSequence) and not any(isinstance(q, ast.MatchStar) for q in p.patterns):
            return isinstance(v, (list, tuple)) and len(v) == len(p.patterns) and \
                all(self.matches(x, q, env) for x, q in zip(v, p.patterns))
        raise _Unk(f'match pattern {ast.unparse(p)[:40]}')

    _TYPES = {'int': int, 'float': float, 'bool': bool, 'str': str, 'list': list, 'tuple': tuple, 'slice': slice, 'dict': dict,
              'Real': (int, float), 'Number': (int, float), 'Integral': int, 'Sequence': (list, tuple), 'Iterable': (list, tuple)}

    def isinstance_(self, v, t) -> bool:
        alts = list(t.elts) if isinstance(t, ast.Tuple) else [t]
        while any(isinstance(a, ast.BinOp) and isinstance(a.op, ast.BitOr) for a in alts):
            alts = [x for a in alts for x in ((a.left, a.right) if isinstance(a, ast.BinOp) and isinstance(a.op, ast.BitOr) else (a,))]
        res = False
        for a in alts:
            nme = (dotted_name(a) or '').split('.')[-1]
            if isinstance(v, _Obj):
                if v.k is None:
                    raise _Unk('isinstance of an opaque object')
                res = res or any(c.name == nme for c in v.k.mro())
            elif nme in self._TYPES:
                res = res or isinstance(v, self._TYPES[nme])
            elif isinstance(v, _PLAIN) and any(c.name == nme for c in self.prog.all_classes()):
                pass            # a plain value is not an instance of a repository class
            else:
                raise _Unk(f'isinstance(..., {canon(a)[:30]})')
        return res

    def bind(self, t, v, env):
        if isinstance(t, ast.Name):
            env[t.id] = v
        elif isinstance(t, (ast.Tuple, ast.List)) and isinstance(v, (list, tuple)) and len(v) == len(t.elts):
            for x, y in zip(t.elts, v):
                self.bind(x, y, env)
        else:
            raise _Unk('unpacking')

    def call(self, n: ast.Call, env):
        f = n.func
        if isinstance(f, ast.Name) and f.id == '_matches' and len(n.args) == 2 and isinstance(n.args[1], ast.Constant):
            try:
                pat = ast.parse(f'match _:\n case {n.args[1].value}:\n  pass').body[0].cases[0].pattern
            except SyntaxError:
                raise _Unk('match pattern') from None
            return self.matches(self.ev(n.args[0], env), pat, env)
        if isinstance(f, ast.Name) and f.id.startswith('_') and f.id in ('_param', '_cur', '_acc', '_unpack', '_loopvar', '_each',
                                                                         '_in_loop', '_loop', '_unknown'):
            raise _Unk(f'value the engine could not follow: {canon(n)[:50]}')
        if any(k.arg is None for k in n.keywords):
            raise _Unk('** arguments')
        tail0 = (dotted_name(f) or '').split('.')[-1]
        if tail0 == 'cast' and len(n.args) == 2 and not n.keywords:
            return self.ev(n.args[1], env)
        if tail0 == 'next' and isinstance(f, ast.Name) and 1 <= len(n.args) <= 2 and not n.keywords and (
                isinstance(n.args[0], ast.GeneratorExp) or (isinstance(n.args[0], ast.Call) and canon(n.args[0].func) == 'iter'
                                                            and len(n.args[0].args) == 1 and not n.args[0].keywords)):
            # the first element of an iterator made on the spot (an iterator kept in a variable is not modelled)
            src = n.args[0] if isinstance(n.args[0], ast.GeneratorExp) else n.args[0].args[0]
            if isinstance(src, ast.GeneratorExp) and len(src.generators) == 1 and not src.generators[0].is_async:
                # lazily: the elements after the first hit are not evaluated (they may not be evaluable)
                g = src.generators[0]
                it = self.ev(g.iter, env)
                if not isinstance(it, (list, tuple)):
                    raise _Unk('iteration over a non-sequence')
                for item in it:
                    e2 = dict(env)
                    self.bind(g.target, item, e2)
                    if all(self.ev(c, e2) for c in g.ifs):
                        return self.ev(src.elt, e2)
                seq = []
            else:
                seq = self.ev(src, env)
                if isinstance(seq, dict):
                    seq = list(seq)
                if not isinstance(seq, (list, tuple)):
                    raise _Unk('next() of something that is not a sequence in the model')
            if seq:
                return seq[0]
            if len(n.args) == 2:
                return self.ev(n.args[1], env)
            raise _Raised('StopIteration')
        if tail0 == 'isinstance' and len(n.args) == 2 and not n.keywords:
            return self.isinstance_(self.ev(n.args[0], env), n.args[1])
        pos = []
        for a in n.args:
            if isinstance(a, ast.Starred):
                pos += list(self.ev(a.value, env))
            else:
                pos.append(self.ev(a, env))
        kw = {k.arg: self.ev(k.value, env) for k in n.keywords}
        if isinstance(f, ast.Attribute) and f.attr in GEOD_SIG and _is_geod(f.value):
            names = GEOD_SIG[f.attr][1]
            args = pos + [kw.pop(x) for x in names[len(pos):] if x in kw]
            if len(args) != 4 or any(k_ not in ('radians', 'return_back_azimuth', 'inplace') for k_ in kw) or \
                    kw.get('radians') or kw.get('return_back_azimuth') is False:
                raise _Unk(f'geodesic call {canon(n)[:60]}')
            res = _vectorised(_inv1 if f.attr == 'inv' else _fwd1, args)
            if not self.quiet:
                self.log.append((f.attr, args, self.node_event.get(id(n)) or
                                 (_Site(self.frame_fi, n) if self.frame_fi is not None else None), res))
            return res
        k = self.ctor_class(n)
        if k is not None:
            return self.construct(k, pos, kw)
        if isinstance(f, ast.Attribute):
            try:
                recv = self.ev(f.value, env)
            except _Unk:
                recv = None
                # Class.method(...) / Outer.Inner.method(...): a static or class method called on the class
                kc = next((c for c in (self.prog.resolve_class_expr(fi_.module, f.value) for fi_ in reversed(self.stack))
                           if c is not None), None)
                meth = _method(kc, f.attr)
                if meth is not None:
                    decs = [d.split('.')[-1].split('(')[0] for d in meth.decorators()]
                    if 'classmethod' in decs:
                        return self.invoke(meth, kc, _Obj(kc, {}), pos, kw)
                    if 'staticmethod' in decs:
                        return self.invoke(meth, kc, None, pos, kw)
                    if pos and isinstance(pos[0], _Obj):
                        return self.invoke(meth, pos[0].k, pos[0], pos[1:], kw)
            if isinstance(recv, _Obj):
                return self.method(recv, f.attr, pos, kw)
            if isinstance(recv, (list, tuple)):
                if f.attr in ('index', 'count', 'copy', 'tolist') and not kw:
                    if f.attr in ('copy', 'tolist'):
                        return list(recv)
                    try:
                        return getattr(recv, f.attr)(*pos)
                    except ValueError:
                        raise _Raised('ValueError') from None
                raise _Unk(f'method {f.attr} of a sequence')
        tail = (dotted_name(f) or '').split('.')[-1]
        if tail == 'len' and len(pos) == 1 and isinstance(pos[0], _Obj):
            return self.method(pos[0], '__len__', [])
        if tail in _LIB and all(isinstance(x, _PLAIN) or isinstance(x, bool) for x in list(pos) + list(kw.values())):
            try:
                return _LIB[tail](*pos, **kw)
            except _Unk:
                raise
            except (TypeError, ValueError, IndexError, ZeroDivisionError) as ex:
                raise _Unk(f'{tail}: {ex}') from None
        # a call the engine left as it is: a generator function, a function it would not inline, or (in a function
        # executed statement by statement) any call of the program: resolved where the function under evaluation is written
        for fi_ in ([self.frame_fi] if self.frame_fi is not None else []) + list(reversed(self.stack)):
            if isinstance(f, ast.Name) and f.id in env:
                break
            kc = resolve_class_call(self.prog, fi_, n) if isinstance(f, (ast.Name, ast.Attribute)) else None
            if kc is None and isinstance(f, ast.Name) and f.id == 'cls' and fi_ is self.frame_fi and isinstance(env.get('cls'), _Obj):
                kc = env['cls'].k
            if kc is not None:
                return self.construct(kc, pos, kw)
            callee = resolve_call(self.prog, fi_, n)
            if callee is not None and callee.cls is None and '<locals>' not in callee.qualname:
                return self.invoke(callee, None, None, pos, kw)
        raise _Unk(f'call of {canon(f)[:50]}')


# ------------------------------------------------------------------------------------------- the sample tracks
_TRACKS = [
    [(-71.0, 42.25), (-87.5, 41.75), (-104.75, 39.5), (-118.25, 34.0)],
    [(12.5, 55.5), (-73.75, 40.625)],
    [(151.25, -33.875), (103.875, 1.375), (103.875, 1.375), (55.375, 25.25)],      # a repeated fix: one leg of length 0
]
_EPS = 1e-6


def _same(a, b) -> bool:
    return isinstance(a, (int, float)) and isinstance(b, (int, float)) and not isinstance(a, bool) \
        and not isinstance(b, bool) and abs(a - b) <= _EPS


class _Judge:
    """one obligation per (rule, function, statement); the first scenario that breaks it is its reason"""

    def __init__(self, ctx):
        self.ctx = ctx
        self.items: dict = {}

    def __call__(self, rule, where, construct, ok, why_ok, why_bad='', line=0, nontrivial=True):
        key = (rule, getattr(where, 'file', where), getattr(where, 'qualname', ''), construct)
        cur = self.items.get(key)
        if cur is None:
            self.items[key] = [rule, where, construct, bool(ok), why_ok if ok else why_bad, line, nontrivial, 1]
        else:
            cur[7] += 1
            if cur[3] and not ok:
                cur[3], cur[4], cur[5] = False, why_bad, line or cur[5]

    def flush(self):
        for rule, where, construct, ok, why, line, nontrivial, n in self.items.values():
            self.ctx.ob(rule, where, construct, ok, (f'{why} ({n} scenario(s) on the sample tracks)' if ok else why),
                        line=line, nontrivial=nontrivial)
        self.items = {}


class _Track:
    """a sample track in the model, with what the property says about it"""

    def __init__(self, world, gtc, loc_cls, lonf, latf, coords, allow):
        self.n, self.allow = len(coords), allow
        self.W = [_Obj(loc_cls, {lonf: lo, latf: la}) for lo, la in coords]
        for w in self.W:                  # other fields of the way-point class do not matter to a ground track
            for f_ in loc_cls.all_fields():
                w.f.setdefault(f_, 0.0)
        self.coords = coords
        legs = [_inv1(*coords[k], *coords[k + 1]) for k in range(self.n - 1)]
        self.az = [l[0] for l in legs]
        self.baz = [l[1] for l in legs]
        self.L = [l[2] for l in legs]
        self.idx = [0.0]
        for l in self.L:
            self.idx.append(self.idx[-1] + l)
        self.total = self.idx[-1]
        self.gt = world.construct(gtc, [list(self.W), allow])

    def leg_of(self, d):
        """the leg strictly containing d, or None (outside, or on a way-point)"""
        for k in range(self.n - 1):
            if self.idx[k] < d < self.idx[k + 1]:
                return k
        return None

    def waypoints_at(self, lon, lat) -> set:
        return {k for k, (lo, la) in enumerate(self.coords) if _same(lon, lo) and _same(lat, la)}

    def coord_owners(self, v) -> set:
        return {(k, r) for k, c in enumerate(self.coords) for r, x in zip(('lon', 'lat'), c) if _same(v, x)}

    def az_owners(self, v) -> set:
        return {k for k, a in enumerate(self.az) if _same(v % 360.0, a % 360.0)}

    def interior(self, d, k):
        """(forward geodesic, azimuth in [0, 360), arguments of the inverse geodesic it is component [0] of)"""
        p = _fwd1(*self.coords[k], self.az[k], d - self.idx[k])
        args = (p[0], p[1], *self.coords[k + 1])
        return p, _inv1(*args)[0] % 360.0, args

    def beyond(self, d):
        k = self.n - 2
        p = _fwd1(*self.coords[k], self.az[k], d - self.idx[k])
        args = (*self.coords[k + 1], p[0], p[1])
        return p, _inv1(*args)[0] % 360.0, args


def _location_class(prog, m):
    r = prog.resolve_name(m, 'Location')
    if r is None or not hasattr(r, 'all_fields'):
        r = next((c for c in prog.all_classes() if c.name == 'Location'), None)
    return r


def rule_queries(ctx, covered: set):
    """R2-R6 (see the module header): the public queries of GroundTrack on sample tracks in the free model.
    `covered` receives the source nodes of the forward-geodesic calls that were evaluated."""
    prog = ctx.prog
    m = prog.module(GT)
    gtc = m.cls('GroundTrack')
    loc_cls = _location_class(prog, m)
    if loc_cls is None:
        ctx.undecided('C15-R5', (m.relpath, 'GroundTrack'), 'Location', 'class of the way-points not found')
    lonf = next((f for f in loc_cls.all_fields() if ident_role(f) == 'lon'), None)
    latf = next((f for f in loc_cls.all_fields() if ident_role(f) == 'lat'), None)
    if lonf is None or latf is None:
        ctx.undecided('C15-R5', (loc_cls.file, loc_cls.name), 'fields', 'longitude / latitude fields of a way-point not found')
    world = _World(prog)
    J = _Judge(ctx)
    need = {nme: _method(gtc, nme) for nme in ('step', 'location', '__getitem__', '__contains__')}
    for nme, fi in need.items():
        if fi is None:
            ctx.undecided('C15-R3', (m.relpath, 'GroundTrack'), nme, 'public query of the ground track not found')
    opt = {nme: _method(gtc, nme) for nme in ('__len__', 'total_distance', 'waypoint_distance', 'lookup_waypoint',
                                              'great_circle')}
    init = _method(gtc, '__init__') or (m.relpath, 'GroundTrack')
    stats = {'queries': 0, 'raw_negative': 0, 'raw_positive': 0}

    def query(t, nme, *args):
        """('ret', value, log) | ('raise', text, log); an attribute that is a property is read"""
        fi = need.get(nme) or opt.get(nme)
        world.log = []
        stats['queries'] += 1
        try:
            if any(d.split('.')[-1] in ('property', 'cached_property') for d in fi.decorators()):
                return 'ret', world.invoke(fi, gtc, t.gt, []), world.log
            return 'ret', world.invoke(fi, gtc, t.gt, list(args)), world.log
        except _Raised as ex:
            return 'raise', ex.what, world.log
        except _Unk as ex:
            ctx.undecided('C15-R3', fi, f'{nme}({", ".join(f"{a:g}" for a in args)}) on a {t.n}-way-point track',
                          f'cannot be evaluated in the model: {ex}')

    def point(fi, what, res):
        """(lon, lat, azimuth) of a handed-out point; R2 on it"""
        def read(nme):          # a field, or a property computed from the fields
            world.quiet += 1
            try:
                return world.ev(ast.Attribute(value=ast.Name(id='_pt', ctx=ast.Load()), attr=nme, ctx=ast.Load()), {'_pt': res})
            except (_Unk, _Raised):
                return None
            finally:
                world.quiet -= 1
        loc = read('location') if isinstance(res, _Obj) else None
        az = read('azimuth') if isinstance(res, _Obj) else None
        if not isinstance(loc, _Obj) or not isinstance(loc.f.get(lonf), (int, float)) or not isinstance(loc.f.get(latf), (int, float)) \
                or not isinstance(az, (int, float)) or isinstance(az, bool):
            ctx.undecided('C15-R2', fi, what, f'the value handed out is not a point with a location and an azimuth: {res!r:.80}')
        J('C15-R2', fi, f'{fi.name}: azimuths are reported in [0, 360)', 0.0 <= az < 360.0,
          'every point handed out carries an azimuth reduced modulo 360',
          f'{what} hands out azimuth {az:g}: the raw geodesic azimuth (-180, 180] reaches the caller without being '
          'reduced modulo 360 (neither the point constructor nor this site normalises it)')
        return loc.f[lonf], loc.f[latf], az

    def site(ev_, fi):
        if ev_ is not None:
            covered.add(id(ev_.node))
            return ev_.fi, getattr(ev_.node, 'lineno', 0)
        return fi, 0

    def legs(t, fi, what, log, d, want=None, want_what=''):
        """R5 on every forward geodesic evaluated for this query: start way-point, leg azimuth and distance origin are
        one leg (and, when the property fixes it, that leg is `want`).  True when all were coherent."""
        fine = True
        construct = 'forward geodesic: start way-point, leg azimuth and distance origin belong to one leg'
        for kind, args, ev_, res in log:
            if kind != 'fwd' or any(isinstance(a, (list, tuple)) for a in args):
                continue
            where, line = site(ev_, fi)
            o0, o1, ka = t.coord_owners(args[0]), t.coord_owners(args[1]), t.az_owners(args[2])
            back = {k for k in range(t.n - 1) if _same(args[2] % 360.0, t.baz[k] % 360.0)}
            if o0 and o1 and not ka and back:
                J('C15-R5', where, construct, False, '', f'{what}: the azimuth of the forward geodesic is the back azimuth '
                  f'(component [1] of the inverse geodesic) of leg {sorted(back)}: the point is projected away from the track', line)
                fine = False
                continue
            if not o0 or not o1 or not ka:
                ctx.undecided('C15-R5', where, what, 'forward geodesic from a start point / with an azimuth that is not a '
                              f'way-point / a leg azimuth of the track: fwd({", ".join(f"{a:g}" for a in args)})')
            start = {k for k, r in o0 if r == 'lon'} & {k for k, r in o1 if r == 'lat'}
            if not start:
                J('C15-R5', where, construct, False, '', f'{what}: the forward geodesic starts at ({sorted(o0)[0][1]} of way-point '
                  f'{sorted(o0)[0][0]}, {sorted(o1)[0][1]} of way-point {sorted(o1)[0][0]}), which is not (longitude, latitude) '
                  'of one way-point', line)
                fine = False
                continue
            good = {k for k in start & ka if _same(args[3], d - t.idx[k])}
            if not good:
                origin = [j for j in range(t.n) if _same(d - args[3], t.idx[j])]
                head = (f'{what}: starts at way-point {sorted(start)}, with the azimuth of leg {sorted(ka)}, by the distance beyond '
                        f'{"way-point " + str(origin) if origin else "no way-point of the track"}')
                if start & ka:
                    # start point and azimuth are one leg: the great circle is the right one, the distance along it is not
                    k = min(start & ka)
                    off = args[3] - (d - t.idx[k])
                    J('C15-R5', where, construct, False, '',
                      f'{head} — the distance handed to the forward geodesic is {args[3]:g}, the requested distance minus the '
                      f'cumulative distance of the way-point the leg starts at is {d - t.idx[k]:g}: the distance is not measured '
                      f'from the start of the leg, the point lies {abs(off):g} too {"far" if off > 0 else "near"} along its great circle',
                      line)
                else:
                    J('C15-R5', where, construct, False, '',
                      f'{head} — the forward geodesic starts at one way-point but uses the azimuth of another leg: points '
                      'leave the great circle', line)
                fine = False
                continue
            if want is not None and want not in good:
                J('C15-R5', where, construct, False, '', f'{what}: evaluated on leg {sorted(good)}, {want_what} is leg {want}', line)
                fine = False
                continue
            if want is None and d <= t.total + _EPS and not any(t.idx[k] - _EPS <= d <= t.idx[k + 1] + _EPS for k in good):
                J('C15-R5', where, construct, False, '', f'{what}: evaluated on leg {sorted(good)}, which does not contain the '
                  'distance: the leg is continued beyond its end way-point, where the track turns', line)
                fine = False
                continue
            J('C15-R5', where, construct, True, 'start point, azimuth and distance origin belong to one leg', line=line)
        return fine

    def judge_point(t, fi, what, res, log, d, expect, statement, leg, leg_what):
        lon, lat, az = point(fi, what, res)
        if not legs(t, fi, what, log, d, leg, leg_what) or expect is None:
            return
        (elon, elat, _), eaz, einv = expect
        raw = next((r[0] for kind, args, ev_, r in log if kind == 'inv' and not isinstance(r[0], list)), None)
        if raw is not None:
            stats['raw_negative' if raw < 0 else 'raw_positive'] += 1
        if _same(lon, elon) and _same(lat, elat) and _same(az, eaz):
            J('C15-R6', fi, statement, True, 'equals the reference formula in the free model of the geodesic')
            return
        fw = [r for kind, args, ev_, r in log if kind == 'fwd']
        if not fw:
            ks = t.waypoints_at(lon, lat)
            if ks:
                J('C15-R6', fi, statement, False, '', f'{what} hands out way-point {sorted(ks)} itself instead of the point at that '
                  'distance (the distance is clamped to a way-point)')
                return
            ctx.undecided('C15-R6', fi, what, 'the location handed out is not the result of a forward geodesic')
        if not (_same(lon, elon) and _same(lat, elat)):
            if any(_same(lon, r[1]) and _same(lat, r[0]) for r in fw):
                J('C15-R6', fi, statement, False, '', f'{what}: the location is built from components ([1], [0]) of the '
                  'forward geodesic: longitude and latitude are exchanged')
                return
            if any(_same(lon, r[0]) and _same(lat, r[1]) for r in fw):
                ctx.undecided('C15-R6', fi, what, 'a coherent forward geodesic that is not the reference one')
            J('C15-R6', fi, statement, False, '', f'{what}: the location handed out is not (component [0], component [1]) of '
              'the forward geodesic evaluated for it')
            return
        # right location, other azimuth: which inverse geodesic was it taken from?
        for kind, args, ev_, r in log:
            if kind != 'inv' or isinstance(r[0], list):
                continue
            for i in (0, 1):
                if _same(az, r[i] % 360.0) or _same(az, r[i]):
                    if _same(r[i] % 360.0, eaz):
                        return          # the reference azimuth, not reduced modulo 360: that is R2's finding above
                    ends = [('the located point' if (_same(x, lon) and _same(y, lat)) else
                             f'way-point {sorted(t.waypoints_at(x, y))}' if t.waypoints_at(x, y) else f'({x:g}, {y:g})')
                            for x, y in ((args[0], args[1]), (args[2], args[3]))]
                    J('C15-R6', fi, statement, False, '',
                      f'{what}: the azimuth reported is component [{i}] of the inverse geodesic from {ends[0]} to {ends[1]}; '
                      f'the property wants {leg_what}')
                    return
        if any(kind == 'inv' and not isinstance(r[0], list) and
               (all(_same(x, y) for x, y in zip(args, einv)) or all(_same(x, y) for x, y in zip(args, einv[2:] + einv[:2])))
               for kind, args, ev_, r in log):
            J('C15-R6', fi, statement, False, '', f'{what}: the right inverse geodesic is evaluated but the azimuth handed out '
              f'is {az:g}, not its forward azimuth {eaz:g} (reduced modulo 360)')
            return
        ctx.undecided('C15-R6', fi, what, f'azimuth {az:g} differs from the reference {eaz:g} in a way that is not recognised')

    try:
        _sample_queries(ctx, world, gtc, loc_cls, lonf, latf, need, opt, init, query, point, judge_point, J)
    finally:
        J.flush()           # what was established before something could not be evaluated stands
    ctx.stats['model_queries'] = stats['queries']
    if all(o.ok for o in ctx.obligations if o.rule.startswith('C15-R')):
        # (on a tree that breaks the rules the points never get as far as being compared)
        ctx.control('C15-R2', stats['raw_negative'] >= 4 and stats['raw_positive'] >= 4,
                    f'the sample tracks exercise negative and positive raw azimuths ({stats["raw_negative"]} / {stats["raw_positive"]})')


def _partial_sum(t, i, v) -> str:
    """what a wrong cumulative distance of way-point i is the sum of, when that is recognised"""
    if not isinstance(v, (int, float)) or isinstance(v, bool):
        return ''
    for j in range(1, i):
        if t.L[j - 1] > 0 and _same(v, sum(t.L[j:i])):
            return (f' — {v:g} is the sum of leg(s) {list(range(j, i))} only: the running distance carried from one leg to the next '
                    f'loses the legs before leg {j} (it is set to a leg length where it has to be increased by it)')
    for j in range(1, i):
        if t.L[j] > 0 and _same(v, sum(t.L[:j])):
            return f' — {v:g} is the sum of leg(s) {list(range(j))} only: the legs from leg {j} on are not added'
    return ''


def _sample_queries(ctx, world, gtc, loc_cls, lonf, latf, need, opt, init, query, point, judge_point, J):
    for coords in _TRACKS:
        n = len(coords)
        for allow in (False, True):
            try:
                t = _Track(world, gtc, loc_cls, lonf, latf, coords, allow)
            except _Raised as ex:
                ctx.undecided('C15-R6', init, f'{n} way-points', f'the constructor leaves by raise in the model: {ex.what}')
            except _Unk as ex:
                ctx.undecided('C15-R6', init, f'{n} way-points', f'the constructor cannot be evaluated in the model: {ex}')
            total = t.total
            real = [k for k in range(n - 1) if t.L[k] > 0]            # legs with an interior
            inside = [t.idx[k] + f * t.L[k] for k in real for f in (0.25, 0.5, 0.875)]
            hits = sorted(set(t.idx))
            outside = [-40.0, -0.5, total + 0.5, total + 312.0]
            # ---- range test, sizes, cumulative distances (public accessors)
            fi = need['__contains__']
            for d in inside + hits + outside:
                k_, v, _ = query(t, '__contains__', d)
                J('C15-R4', fi, 'range is [first, last] cumulative distance',
                  k_ == 'ret' and bool(v) == (t.idx[0] <= d <= t.idx[-1]),
                  'a distance is on the track exactly when it lies between the first and the last cumulative distance',
                  f'{d:g} is reported {"on" if k_ == "ret" and v else "off"} a track of length {total:g}', nontrivial=False)
            if opt['__len__'] is not None:
                k_, v, _ = query(t, '__len__')
                J('C15-R6', opt['__len__'], 'len() is the number of way-points', k_ == 'ret' and v == n, 'way-point count',
                  f'a track made from {n} way-points reports length {v!r}: the stored way-points are not the sequence the '
                  'legs and the cumulative index are computed from', nontrivial=False)
            if opt['total_distance'] is not None:
                k_, v, _ = query(t, 'total_distance')
                J('C15-R6', opt['total_distance'], 'total distance is the sum of the leg lengths (component [2] of the '
                  'inverse geodesic over consecutive way-points)', k_ == 'ret' and _same(v, total),
                  'last value of the running sum from 0', f'a track with legs {t.L} reports total distance {v!r}'
                  + (_partial_sum(t, n - 1, v) if k_ == 'ret' else ''))
            if opt['waypoint_distance'] is not None:
                for i in range(n):
                    k_, v, _ = query(t, 'waypoint_distance', i)
                    J('C15-R6', opt['waypoint_distance'], 'cumulative distance of way-point i is the sum of the legs before it, '
                      'starting at 0', k_ == 'ret' and _same(v, t.idx[i]), 'running sum of leg lengths from 0',
                      f'way-point {i} of a track with legs {t.L} is reported at {v!r}: the cumulative index does not start at 0 '
                      'with the summed leg lengths, every leg is interpolated from the wrong origin'
                      + (_partial_sum(t, i, v) if k_ == 'ret' else ''))
            if opt['lookup_waypoint'] is not None:
                fi = opt['lookup_waypoint']
                for d in inside:
                    k_, v, _ = query(t, 'lookup_waypoint', d)
                    J('C15-R6', fi, 'finds the way-point at or after the distance',
                      k_ == 'ret' and v == _bisect.bisect_left(t.idx, d),
                      'first way-point whose cumulative distance is not below the distance',
                      f'lookup({d:g}) on cumulative distances {t.idx} gives {v!r}', nontrivial=False)
                for d in outside:
                    k_, v, _ = query(t, 'lookup_waypoint', d)
                    J('C15-R4', fi, 'out-of-range distance refused before indexing', k_ == 'raise', 'raises',
                      f'lookup({d:g}) on a track of length {total:g} answers {v!r}: an out-of-range distance reaches the '
                      'bisect lookup')
            # ---- way-points
            fi = need['__getitem__']
            for i in range(n - 1):
                k_, v, log = query(t, '__getitem__', i)
                if k_ != 'ret':
                    ctx.undecided('C15-R6', fi, f'[{i}]', f'way-point {i} of {n} cannot be read: {v}')
                lon, lat, az = point(fi, f'[{i}]', v)
                # (the range of the azimuth is R2's statement, made by point(): here the azimuth counts modulo 360)
                here, owners = i in t.waypoints_at(lon, lat), t.az_owners(az)
                J('C15-R6', fi, 'way-point i is handed out with the azimuth of the leg that starts there',
                  here and i in owners, 'own location, own leg azimuth',
                  (f'[{i}] hands out way-point {sorted(t.waypoints_at(lon, lat))} with azimuth {az:g} (leg {sorted(owners)}): '
                   'the stored way-points and the leg azimuths are not one sequence') if owners or not here else
                  (f'[{i}] hands out azimuth {az:g}, the azimuth of leg {i} is {t.az[i]:g} ({t.az[i] % 360.0:g} in [0, 360)): the '
                   'azimuth is changed on its way from the inverse geodesic to the point by something that is not the '
                   'reduction modulo 360'))
            # ---- location
            fi = need['location']
            for d in outside:
                k_, v, log = query(t, 'location', d)
                if k_ == 'ret' and allow and d > total:
                    # not refused although beyond the end: with overstepping allowed the property then wants the continuation
                    judge_point(t, fi, f'location({d:g}) beyond a track of length {total:g}', v, log, d, t.beyond(d),
                                'a point beyond the end continues the final leg from its first way-point, reported with the '
                                'azimuth from the last way-point to the point', n - 2,
                                'the final leg (the azimuth from the last way-point to the overstepped point)')
                    continue
                J('C15-R4', fi, 'location() refuses a distance outside the track', k_ == 'raise', 'raises',
                  f'location({d:g}) on a track of length {total:g} hands out {v!r:.90}: an out-of-range distance is silently '
                  'clamped to an end way-point instead of being refused')
            for d in hits:
                k_, v, log = query(t, 'location', d)
                if k_ != 'ret':
                    J('C15-R4', fi, 'location() answers every distance on the track', False, '',
                      f'location({d:g}) (a way-point of the track) is refused: {v}')
                    continue
                judge_point(t, fi, f'location({d:g})', v, log, d, None, '', None, '')
                if not any(kind == 'fwd' for kind, *_ in log):
                    lon, lat, az = point(fi, f'location({d:g})', v)
                    here = {k for k in t.waypoints_at(lon, lat) if _same(t.idx[k], d)}
                    J('C15-R6', fi, 'the point at the cumulative distance of a way-point is that way-point', bool(here),
                      'own way-point', f'location({d:g}) hands out way-point {sorted(t.waypoints_at(lon, lat))}, the way-point at '
                      f'that distance is {[k for k in range(n) if _same(t.idx[k], d)]}')
            for d in inside:
                k = t.leg_of(d)
                k_, v, log = query(t, 'location', d)
                if k_ != 'ret':
                    J('C15-R4', fi, 'location() answers every distance on the track', False, '',
                      f'location({d:g}) on a track of length {total:g} is refused: {v}')
                    continue
                J('C15-R4', fi, 'location() answers every distance on the track', True, 'returns a point')
                judge_point(t, fi, f'location({d:g}) on leg {k} of {n - 1}', v, log, d, t.interior(d, k),
                            'the point at distance d is the forward geodesic on the leg that contains d, reported with the '
                            'azimuth from there to the way-point that ends the leg',
                            k, 'the leg that contains the distance (the azimuth towards the way-point that ends it)')
            # ---- step
            fi = need['step']
            for a, b in ((-1.0, 5.0), (5.0, -1.0), (-2.0, -3.0), (-1.0, total + 50.0)):
                k_, v, _ = query(t, 'step', a, b)
                J('C15-R4', fi, 'negative distances refused', k_ == 'raise', 'raises',
                  f'step({a:g}, {b:g}) hands out {v!r:.90}: a negative start distance or step is no longer refused',
                  nontrivial=False)
            steps = []
            for k in real:
                lo, L = t.idx[k], t.L[k]
                steps += [(lo + 0.25 * L, 0.25 * L), (lo + 0.25 * L, 0.0), (lo + 0.125 * L, 0.75 * L), (lo + 0.5 * L, 0.5 * L)]
                if k == 0 or t.L[k - 1] > 0:
                    steps.append((lo, 0.5 * L))
            for a, b in steps:
                k_, v, log = query(t, 'step', a, b)
                k2, v2, _ = query(t, 'location', a + b)
                what = f'step({a:g}, {b:g}) on a track of length {total:g}'
                if k_ != 'ret':
                    J('C15-R3', fi, 'step(a, b) is location(a + b) for a step inside one leg', False, '',
                      f'{what} is refused ({v}) although {a + b:g} lies on the track and no way-point is crossed')
                    continue
                point(fi, what, v)
                J('C15-R3', fi, 'step(a, b) is location(a + b) for a step inside one leg', k2 == 'ret' and v == v2,
                  'the same point, by value', f'{what} hands out {v!r:.100}, location({a + b:g}) is {v2!r:.100}: stepping '
                  'from a by b is not locating a + b')
            for k, k2_ in zip(real, real[1:]):
                a, b = t.idx[k] + 0.5 * t.L[k], 0.5 * t.L[k] + (t.idx[k2_] - t.idx[k + 1]) + 0.25 * t.L[k2_]
                k_, v, log = query(t, 'step', a, b)
                if k_ == 'ret':
                    k2, v2, _ = query(t, 'location', a + b)
                    point(fi, f'step({a:g}, {b:g})', v)
                    J('C15-R3', fi, 'a step across a way-point is refused or is location(a + b)', k2 == 'ret' and v == v2,
                      'the same point, by value', f'step({a:g}, {b:g}) hands out {v!r:.100}, location({a + b:g}) is {v2!r:.100}')
            for a, b in ((total - 16.0, 48.0), (total, 24.0), (total + 10.0, 7.0), (0.0, total + 96.0),
                         (t.idx[-2] + 0.5 * t.L[-1], 0.5 * t.L[-1] + 120.0)):
                k_, v, log = query(t, 'step', a, b)
                what = f'step({a:g}, {b:g}) beyond a track of length {total:g}'
                if not allow:
                    J('C15-R4', fi, 'a step beyond the track is refused when overstepping is not allowed', k_ == 'raise',
                      'raises', f'{what} hands out {v!r:.90} although overstepping is not allowed')
                    continue
                if k_ != 'ret':
                    J('C15-R4', fi, 'a step beyond the track is answered when overstepping is allowed', False, '',
                      f'{what} is refused ({v}) although overstepping is allowed')
                    continue
                J('C15-R4', fi, 'a step beyond the track is answered when overstepping is allowed', True, 'returns a point')
                judge_point(t, fi, what, v, log, a + b, t.beyond(a + b),
                            'a step beyond the end continues the final leg from its first way-point by (a + b) - its '
                            'cumulative distance, reported with the azimuth from the last way-point to the point',
                            n - 2, 'the final leg (the azimuth from the last way-point to the overstepped point)')
            if opt['great_circle'] is not None and n == 2:
                fi = opt['great_circle']
                world.log = []
                try:
                    g = world.invoke(fi, gtc, _Obj(gtc, {}), [t.W[0], t.W[1]])
                    tot = world.method(g, 'total_distance', []) if opt['total_distance'] is not None and not any(
                        'property' in d for d in opt['total_distance'].decorators()) else \
                        world.invoke(opt['total_distance'], gtc, g, []) if opt['total_distance'] is not None else None
                    first = world.method(g, '__getitem__', [0])
                except (_Unk, _Raised) as ex:
                    ctx.undecided('C15-R6', fi, 'great_circle(start, end)', f'cannot be evaluated in the model: {ex}')
                lon, lat, az = point(fi, 'great_circle(start, end)[0]', first)
                J('C15-R6', fi, 'great_circle(start, end) is the track from start to end',
                  (tot is None or _same(tot, total)) and 0 in t.waypoints_at(lon, lat) and 0 in t.az_owners(az),
                  'length is the geodesic distance between the end points, first point is the start',
                  f'length {tot!r} (geodesic {total:g}), first way-point {sorted(t.waypoints_at(lon, lat))}, leaving with azimuth '
                  f'{az:g} (azimuth of the geodesic from start to end: {t.az[0] % 360.0:g})')


def rule_mission(ctx):
    """R6 (mission): Mission.gc_distance in the free model.  The other memoised properties of the mission (the airport
    positions) are its inputs; every other field is given its default and then a generic non-default value."""
    prog = ctx.prog
    mi = prog.module(MI)
    mc = mi.cls('Mission')
    gd = _method(mc, 'gc_distance')
    if gd is None:
        ctx.undecided('C15-R6', (mi.relpath, 'Mission'), 'gc_distance', 'the mission distance is no longer a member of Mission')
    memo = {nme for c in mc.mro() for nme, meth in c.methods.items()
            if any('cached_property' in d or d.split('.')[-1] == 'property' for d in meth.decorators()) and nme != gd.name}
    pos_names = [nme for nme in ('origin_position', 'destination_position') if nme in memo]
    if len(pos_names) != 2:
        ctx.undecided('C15-R6', gd, 'origin_position / destination_position', 'the airport positions are no longer properties of Mission')
    world = _World(prog, inline=lambda fi: fi.file.startswith('src/') and not (fi.cls is not None and fi.cls.is_subclass_of(mc.name)
                                                                               and fi.name in memo))
    rk = prog.resolve_class_expr(mi, _method(mc, pos_names[0]).node.returns) if _method(mc, pos_names[0]).node.returns is not None else None
    if rk is None:
        rk = next((c for c in prog.all_classes() if c.name == 'Position'), None)
    if rk is None:
        ctx.undecided('C15-R6', gd, 'Position', 'class of an airport position not found')
    lonf = next((f for f in rk.all_fields() if ident_role(f) == 'lon'), None)
    latf = next((f for f in rk.all_fields() if ident_role(f) == 'lat'), None)
    if lonf is None or latf is None:
        ctx.undecided('C15-R6', gd, rk.name, 'longitude / latitude fields of a position not found')

    def generic(ann: str):
        a = ann.replace(' ', '')
        for ty, v in (('bool', True), ('int', 1234), ('float', 1234.5), ('str', 'XYZ')):
            if a == ty or a.startswith(ty + '|') or a.endswith('|' + ty) or f'[{ty}]' in a or f'|{ty}|' in a:
                return v
        return _Obj(None, {})
    dflt = {}
    for c in reversed(mc.mro()):
        dflt.update({f: d for f, d in c.class_assignments().items() if d is not None})
    ends = [(-71.0, 42.25, 6.0), (-118.25, 34.0, 38.0)]
    n = 0
    for variant in ('defaults', 'generic'):
        for o, d in (ends, ends[::-1]):
            fields = {}
            for f, ann in mc.all_fields().items():
                v = generic(ast.unparse(ann))
                if variant == 'defaults' and f in dflt:
                    try:
                        v = world.ev(dflt[f], {})
                    except (_Unk, _Raised):
                        pass
                fields[f] = v
            for nme, (lo, la, alt) in zip(pos_names, (o, d)):
                p = _Obj(rk, {f: alt for f in rk.all_fields()})
                p.f[lonf], p.f[latf] = lo, la
                fields[nme] = p
            obj = _Obj(mc, fields)
            world.log = []
            try:
                v = world.invoke(gd, mc, obj, [])
            except _Raised as ex:
                v = f'raise {ex.what}'
            except _Unk as ex:
                ctx.undecided('C15-R6', gd, f'gc_distance ({variant})', f'cannot be evaluated in the model: {ex}')
            want = _inv1(o[0], o[1], d[0], d[1])
            n += 1
            comp = next((i for i in (0, 1) if _same(v, want[i])), None)
            ctx.ob('C15-R6', gd, 'the mission distance is component [2] of the inverse geodesic between the origin and the '
                   'destination position, whatever else the mission holds', _same(v, want[2]),
                   'distance of the geodesic between the two airport positions; the same in both directions'
                   if _same(v, want[2]) else
                   (f'gc_distance returns component [{comp}] of the inverse geodesic (an azimuth), not the distance' if comp is not None
                    else f'with {"default" if variant == "defaults" else "non-default"} values in the other fields gc_distance '
                    f'is {v!r:.60}, the geodesic between the airport positions is {want[2]:g}: the mission distance is taken from '
                    'something that is not the WGS-84 geodesic between its airports (not symmetric, not the length of the ground track)'))
    ctx.floor('C15-R6/mission', n, 4, 'evaluations of Mission.gc_distance in the model')


# ----------------------------------------------------------------- R8 -----
def _const_strings(fn: ast.AST, e: ast.AST) -> set[str] | None:
    """the strings e can evaluate to, when that is visible: a literal, a single-definition local bound to one, or
    the target of a loop over a literal sequence of strings"""
    if isinstance(e, ast.Constant):
        return {e.value} if isinstance(e.value, str) else set()
    if isinstance(e, ast.Name):
        d = single_def_value(fn, e.id)
        if d is not None:
            return _const_strings(fn, d)
        for n in walk_no_nested(fn):
            if isinstance(n, (ast.For, ast.comprehension)) and isinstance(n.target, ast.Name) and n.target.id == e.id \
                    and isinstance(n.iter, (ast.Tuple, ast.List, ast.Set)) \
                    and all(isinstance(x, ast.Constant) for x in n.iter.elts):
                return {x.value for x in n.iter.elts if isinstance(x.value, str)}
    return None


def _instance_dict_owner(fn: ast.AST, e: ast.AST, depth: int = 0):
    """X when e denotes the attribute dictionary of X: `X.__dict__`, `vars(X)`, or a local bound to one"""
    if isinstance(e, ast.Attribute) and e.attr == '__dict__':
        return e.value
    if isinstance(e, ast.Call) and call_name(e) == 'vars' and len(e.args) == 1:
        return e.args[0]
    if isinstance(e, ast.Name) and depth < 3:
        d = single_def_value(fn, e.id)
        if d is not None:
            return _instance_dict_owner(fn, d, depth + 1)
    return None


def slot_writes(fn: ast.AST):
    """Every construct in fn that can put a value into an attribute slot of an object without going through a
    property's own function: (node, owner expr, names | None, how).  names is the set of attribute names written
    when visible, None when the name is computed."""
    out = []

    def dict_literal_keys(d):
        if isinstance(d, ast.Dict):
            ks = set()
            for k in d.keys:
                if k is None:
                    return None
                s = _const_strings(fn, k)
                if s is None:
                    return None
                ks |= s
            return ks
        if isinstance(d, ast.Call) and call_name(d) == 'dict' and not d.args and all(k.arg for k in d.keywords):
            return {k.arg for k in d.keywords}
        return None

    for t, st, how in stores_to(fn):
        if how == 'del':
            continue            # dropping a cached value only makes the property compute it again
        if isinstance(t, ast.Attribute):
            if t.attr == '__dict__':
                ks = dict_literal_keys(st.value) if getattr(st, 'value', None) is not None else None
                out.append((st, t.value, ks, f'`{norm(t)}` replaced / merged'))
            else:
                out.append((st, t.value, {t.attr}, 'attribute store'))
        elif isinstance(t, ast.Subscript):
            owner = _instance_dict_owner(fn, t.value)
            if owner is not None:
                out.append((st, owner, _const_strings(fn, t.slice), 'store into the instance dictionary'))
    for c in calls_in(fn):
        cn = call_name(c)
        f = c.func
        if cn == 'setattr' and len(c.args) == 3:
            out.append((c, c.args[0], _const_strings(fn, c.args[1]), 'setattr'))
        elif isinstance(f, ast.Attribute) and f.attr == '__setattr__':
            if len(c.args) == 3:        # object.__setattr__(x, name, v) / Base.__setattr__(x, name, v)
                out.append((c, c.args[0], _const_strings(fn, c.args[1]), f'{cn}'))
            elif len(c.args) == 2:      # x.__setattr__(name, v) / super().__setattr__(name, v)
                owner = ast.Name('self', ast.Load()) if isinstance(f.value, ast.Call) else f.value
                out.append((c, owner, _const_strings(fn, c.args[0]), f'{cn}'))
        elif isinstance(f, ast.Attribute) and f.attr in ('update', 'setdefault', '__setitem__', '__ior__'):
            owner = _instance_dict_owner(fn, f.value)
            if owner is None:
                continue
            if f.attr in ('setdefault', '__setitem__'):
                ks = _const_strings(fn, c.args[0]) if c.args else None
            else:
                ks = {k.arg for k in c.keywords if k.arg}
                unknown = any(k.arg is None for k in c.keywords)
                for a in c.args:
                    d = dict_literal_keys(a)
                    if d is None:
                        unknown = True
                    else:
                        ks |= d
                if unknown:
                    ks = None
            out.append((c, owner, ks, f'instance dictionary .{f.attr}()'))
    return out


_R8_CONTROL = """
def control(m, qr, name):
    m.gc_distance = qr.distance
    m.__dict__['gc_distance'] = qr.distance
    vars(m)['gc_distance'] = qr.distance
    d = m.__dict__
    d['gc_distance'] = qr.distance
    m.__dict__.update(gc_distance=qr.distance)
    m.__dict__.update({'gc_distance': qr.distance})
    m.__dict__ |= {'gc_distance': qr.distance}
    vars(m).setdefault('gc_distance', qr.distance)
    setattr(m, 'gc_distance', qr.distance)
    object.__setattr__(m, 'gc_distance', qr.distance)
    for k in ('gc_distance',):
        setattr(m, k, qr.distance)
    setattr(m, name, qr.distance)
    m.other = 1
"""


def rule_slots(ctx):
    """R8.  The mission distance is the geodesic between the airport positions only if the three memoised
    properties it is made of are filled by their own functions: nothing in the program may write their slots."""
    prog = ctx.prog
    mi = prog.module(MI)
    mission = mi.cls('Mission')
    slots = {n for c in [mission] + [k for k in prog.subclasses_of('Mission') if k is not mission]
             for n, meth in c.methods.items() if any('cached_property' in d for d in meth.decorators())}
    ctx.floor('C15-R8/slots', len(slots & {'gc_distance', 'origin_position', 'destination_position'}), 1,
              'memoised properties of Mission (gc_distance and the positions it is computed from)')
    if 'gc_distance' not in slots:
        gd = mission.find_method('gc_distance')
        if gd is None or not any('property' in d for d in gd.decorators()):
            ctx.undecided('C15-R8', (MI, 'Mission'), 'gc_distance', 'no longer a (cached) property of Mission')
    # positive control: the matcher sees every spelling of a slot write
    tree = ast.parse(_R8_CONTROL)
    for n in ast.walk(tree):
        for ch in ast.iter_child_nodes(n):
            ch._parent = n
    cw = slot_writes(tree.body[0])
    definite = [w for w in cw if w[2] is not None and 'gc_distance' in w[2]]
    dynamic = [w for w in cw if w[2] is None]
    ctx.control('C15-R8', len(definite) == 11 and len(dynamic) == 1,
                f'11 spellings of a write to a memoised slot and 1 computed name (matched {len(definite)} + {len(dynamic)})')
    from ..resolve import expr_class
    nst = 0
    for fi2 in prog.all_functions(src_only=(ctx.tier != 'thorough')):
        for node, owner, names, how in slot_writes(fi2.node):
            if names is None:
                # computed attribute name: only relevant when the object is known to be a Mission
                oc = expr_class(prog, fi2, owner)
                if oc is not None and oc.is_subclass_of('Mission'):
                    ctx.undecided('C15-R8', fi2, norm(node)[:80],
                                  f'{how} with a computed attribute name on a Mission: cannot tell whether a memoised '
                                  'property is overwritten')
                continue
            hit = sorted(names & slots)
            if not hit:
                continue
            if how == 'attribute store' and fi2.cls is not None and not fi2.cls.is_subclass_of('Mission') \
                    and norm(owner) == 'self':
                continue        # another class's own attribute of the same name
            nst += 1
            ctx.ob('C15-R8', fi2, f'`{norm(node)[:70]}`', False,
                   f'{how} fills the memoised property {"/".join(hit)} of the mission from outside its own function: '
                   'the cached great-circle distance is then a value that is not the WGS-84 geodesic between '
                   'the airport positions (a stated schedule distance differs from it and is not symmetric)',
                   line=node.lineno)
    ctx.ob('C15-R8', (MI, 'Mission'), f'{"/".join(sorted(slots))} are produced only by their own functions', nst == 0,
           'no attribute store, instance-dictionary store/update, setattr or __setattr__ of these names anywhere in '
           'the program' if nst == 0 else f'{nst} write(s)', nontrivial=False)



def _in(n, anc):
    return any(a is anc for a in ancestors(n))


def run(ctx):
    rule_roles(ctx)
    rule_track(ctx)
    ctx.assumptions += ['pyproj.Geod.inv(lons1, lats1, lons2, lats2) -> (fwd az, back az, dist); '
                        'Geod.fwd(lons, lats, az, dist) -> (lon, lat, back az)',
                        'identifier names carry their role (lat/lon); unknown names are never reported']
