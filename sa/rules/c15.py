"""C15 — ground tracks and mission distances are true WGS-84 great circles.

R1  argument roles of every geodesic call (T-ROLE): pyproj.Geod.inv takes
    (lon1, lat1, lon2, lat2), fwd takes (lon, lat, azimuth, distance); wrappers
    that forward their parameters get the derived signature and their callers
    are checked against it.  The instance floor counts the call sites in, or
    reached through resolved calls from, ground_track.py and mission.py.
R2  azimuth convention: the single Point constructor normalises with % 360 and
    every point handed out is built by it.
R3  step(a, b) is location(a + b) / _overstep(a + b).
R4  overstep only behind its guard; out-of-range requests raise before any
    indexing.
R5  leg coherence: in every forward-geodesic evaluation of the ground track the
    start waypoint, the leg azimuth and the cumulative distance subtracted
    refer to the same leg (index expressions compared as polynomials).  An
    evaluation is a GEOD.fwd call in a GroundTrack method or in anything it
    reaches; a helper that forwards its parameters to the call is judged at
    its call sites, with the arguments substituted (through several levels,
    positional or keyword).
R6  which component of a geodesic result is used as what, by def-use and not
    by spelling (`call[i]`, unpacking, a local bound to either): the leg
    azimuths are component [0] and the summed leg lengths component [2] of
    the one inverse geodesic over (waypoint i, waypoint i+1) pairs; the
    cumulative index is their running sum starting at 0 (accumulate([0] + D),
    accumulate(D, initial=0), [0] + accumulate(D), cumsum forms); stored
    waypoints and leg coordinates are one sequence; the azimuth of an
    interpolated point is component [0] of the geodesic from the returned
    point to the waypoint that ends the leg it was interpolated on (R5's leg
    + 1); the mission distance is component [2] between origin and
    destination.
R7  queries are pure: no GroundTrack method other than the constructor stores
    to self.
R8  the mission distance is only ever the geodesic: the memoised properties of
    Mission (gc_distance and the two airport positions it is computed from)
    are filled by their own functions only.  Anywhere in the program, no
    attribute store, no store / update / setdefault / |= on the instance
    dictionary (`x.__dict__`, `vars(x)`, or a local bound to one), no
    setattr / object.__setattr__ may name one of them (names seen through
    literals, single-definition locals and loops over literal tuples; a
    computed name on an object known to be a Mission is undecided; deleting a
    cached value is allowed).  Positive control: twelve spellings.
"""

from __future__ import annotations

import ast
import copy

from ..algebra import normal_form
from ..astutil import first_stmt, last_stmt  # noqa: F401
from ..astutil import (ancestors, call_name, calls_in, guards_of, norm, single_def_value, stmt_of, stores_to,
                       tuple_def_component, walk_no_nested)
from ..cfg import CFG
from ..resolve import callers_of, closure
from ..roles import GEOD_SIG, check_geod_call, expr_role, geod_calls, wrapper_signature

GT = 'trajectories/ground_track.py'
MI = 'missions/mission.py'
OTHER_PROPERTY = {'src/AEIC/missions/writable_database.py': 'C13-R1'}


def rule_roles(ctx):
    prog = ctx.prog
    fns = prog.all_functions(src_only=(ctx.tier != 'thorough'))
    # everything the ground track and the mission reach through resolved calls belongs to them, wherever a
    # geodesic call has been moved to
    reach = closure(prog, [f for f in prog.all_functions() if f.file.endswith((GT, MI))])
    if ctx.tier != 'thorough':
        fns = [f for f in fns if f.file.endswith((GT, MI)) or 'gridding' in f.file or f.file.endswith('utils/__init__.py')]
        fns += [f for f in reach if f not in fns]
    sites = geod_calls(prog, fns)
    # module-level code (scripts, notebooks) in the thorough tier
    ctx.floor('C15-R1', len([s for s in sites if s[0] in reach]), 5,
              'geodesic call sites in, or reached from, ground_track.py and mission.py')
    unresolved = 0
    for fi, c, kind in sites:
        if fi.file in OTHER_PROPERTY:
            ctx.note(f'C15-R1: call site in {fi.file} {fi.qualname} is decided under {OTHER_PROPERTY[fi.file]}')
            continue
        res = check_geod_call(fi, c, kind)
        conflicts = [r for r in res if r[4] == 'conflict']
        unresolved += sum(1 for r in res if r[4] == 'unresolved')
        desc = ', '.join(f'arg{i}={got or "?"}' for i, want, txt, got, v in res)
        ctx.ob('C15-R1', fi, f'GEOD.{kind}({desc})', not conflicts,
               f'slots ({", ".join(r[1] for r in res)}) receive matching roles' if not conflicts else
               '; '.join(f'slot {i} expects {want} but receives `{txt}` ({got})' for i, want, txt, got, v in conflicts)
               + ' — the geodesic is computed between the wrong points (NaN beyond |lon| > 90)',
               line=c.lineno)
    # wrappers
    for fi in fns:
        sig = wrapper_signature(prog, fi)
        if len(sig) >= 2:
            off = 1 if fi.params[:1] in (['self'], ['cls']) else 0
            for caller, call in callers_of(prog, fi):
                if ctx.tier != 'thorough' and caller not in fns:
                    continue
                confl = []
                desc = []
                for pi, want in sorted(sig.items()):
                    ai = pi - off
                    arg = call.args[ai] if 0 <= ai < len(call.args) else None
                    if arg is None:
                        for k in call.keywords:
                            if k.arg == fi.params[pi]:
                                arg = k.value
                    got = expr_role(caller.node, arg) if arg is not None else None
                    desc.append(f'{fi.params[pi]}={got or "?"}')
                    if got is None:
                        unresolved += 1
                    elif got != want:
                        confl.append((fi.params[pi], want, norm(arg), got))
                ctx.ob('C15-R1', caller, f'{fi.name}({", ".join(desc)})', not confl,
                       f'wrapper forwards to the geodesic with derived signature {sorted(sig.items())}' if not confl
                       else '; '.join(f'parameter {p} is forwarded to a {w} slot but receives `{t}` ({g})'
                                      for p, w, t, g in confl), line=call.lineno)
    ctx.stats['unresolved_role_arguments'] = unresolved


def rule_track(ctx):
    prog = ctx.prog
    m = prog.module(GT)
    # R2
    pi = m.functions.get('GroundTrack.Point.__post_init__')
    ctor_normalises = False
    if pi is not None:
        sts = [st for t, st, how in stores_to(pi.node) if norm(t) == 'self.azimuth']
        ctor_normalises = len(sts) == 1 and (norm(sts[0].value) in ('self.azimuth % 360.0', 'self.azimuth % 360') or
                                             (isinstance(sts[0], ast.AugAssign) and isinstance(sts[0].op, ast.Mod)
                                              and norm(sts[0].value) in ('360.0', '360')))
        ctx.ob('C15-R2', pi, 'azimuth normalised to [0, 360)', ctor_normalises,
               norm(sts[0]) if ctor_normalises else 'Point no longer normalises azimuths with % 360', nontrivial=True)
    if not ctor_normalises:
        # the other sound design: every place that builds a Point passes an azimuth that is already normalised
        def normalised(fi, e, depth=0):
            if isinstance(e, ast.BinOp) and isinstance(e.op, ast.Mod) and norm(e.right) in ('360', '360.0'):
                return True
            if isinstance(e, ast.Call):
                from ..resolve import resolve_call
                h = resolve_call(prog, fi, e)
                if h is not None:
                    rets = [r.value for r in walk_no_nested(h.node) if isinstance(r, ast.Return) and r.value is not None]
                    return bool(rets) and all(normalised(h, r, depth + 1) for r in rets)
                if call_name(e) == 'float' and e.args:
                    return normalised(fi, e.args[0], depth + 1)
            if isinstance(e, ast.Subscript) and norm(e.value).startswith('self.'):
                attr = norm(e.value)
                defs = [st for f2 in m.functions.values() for t, st, how in stores_to(f2.node) if norm(t) == attr]
                ok_ = bool(defs)
                for d in defs:
                    v = getattr(d, 'value', None)
                    if isinstance(v, (ast.ListComp, ast.GeneratorExp)):
                        ok_ = ok_ and normalised(fi, v.elt, depth + 1)
                    elif v is not None and isinstance(v, ast.BinOp):
                        ok_ = ok_ and normalised(fi, v, depth + 1)
                    else:
                        ok_ = False
                return ok_
            if isinstance(e, ast.Name) and depth < 4:
                defs = [st for t, st, how in stores_to(fi.node) if isinstance(t, ast.Name) and t.id == e.id]
                return bool(defs) and all(getattr(d, 'value', None) is not None and normalised(fi, d.value, depth + 1) for d in defs)
            return False
        nsites = 0
        for fi in m.functions.values():
            for c in calls_in(fi.node):
                if call_name(c) in ('GroundTrack.Point', 'self.Point', 'Point') and (len(c.args) >= 2 or any(k.arg == 'azimuth' for k in c.keywords)):
                    az = c.args[1] if len(c.args) >= 2 else next(k.value for k in c.keywords if k.arg == 'azimuth')
                    nsites += 1
                    ok = normalised(fi, az)
                    ctx.ob('C15-R2', fi, f'Point(…, {norm(az)[:40]}) receives a normalised azimuth', ok,
                           'reduced modulo 360 before the point is built' if ok else
                           ('the point constructor does not normalise, and this site passes the raw geodesic azimuth '
                            '(−180, 180]: points built here can report a negative azimuth'), line=c.lineno)
        ctx.floor('C15-R2/sites', nsites, 3, 'Point construction sites')
    for qn in ('GroundTrack.location', 'GroundTrack._overstep', 'GroundTrack.__getitem__', 'GroundTrack.step'):
        fi = m.func(qn)
        for r in [n for n in walk_no_nested(fi.node) if isinstance(n, ast.Return) and n.value is not None]:
            v = r.value
            ok = isinstance(v, ast.Call) and call_name(v) in (
                'GroundTrack.Point', 'self.Point', 'Point', 'self.location', 'self._overstep')
            ctx.ob('C15-R2', fi, f'return {norm(v)[:60]}', ok,
                   'built by the normalising constructor' if ok else
                   'a point is handed out without passing the normalising constructor', line=r.lineno,
                   nontrivial=False)
    for fi in m.functions.values():
        for t, st, how in stores_to(fi.node):
            if isinstance(t, ast.Attribute) and t.attr == 'azimuth' and (pi is None or fi.qualname != pi.qualname):
                ctx.ob('C15-R2', fi, norm(st), False, 'azimuth overwritten outside the normalising constructor',
                       line=st.lineno)

    # R3 / R4
    st_ = m.func('GroundTrack.step')
    p_from, p_step = st_.params[1], st_.params[2]
    total = {f'{p_from} + {p_step}', f'{p_step} + {p_from}'}
    g = CFG(st_.node)
    for c in calls_in(st_.node):
        cn = call_name(c)
        if cn in ('self.location', 'self._overstep'):
            ok = len(c.args) == 1 and norm(c.args[0]) in total
            ctx.ob('C15-R3', st_, f'{cn}({norm(c.args[0]) if c.args else ""})', ok,
                   'locates the sum of start distance and step' if ok else
                   'stepping from a by b is not locating a + b', line=c.lineno)
        if cn == 'self._overstep':
            gs = guards_of(c)
            # some dominating raise under `not self.allow_overstep` must precede in the same arm
            arm = stmt_of(c)
            body = getattr(arm, '_parent', None)
            sibs = []
            for a in ancestors(c):
                if isinstance(a, ast.If):
                    sibs = a.orelse if any(arm is s or _in(arm, s) for s in a.orelse) else a.body
                    break
            guard_ok = any(isinstance(s, ast.If) and norm(s.test) == 'not self.allow_overstep'
                           and isinstance(first_stmt(s.body), ast.Raise) for s in sibs
                           if s.lineno < c.lineno)
            ctx.ob('C15-R4', st_, 'overstep only when allowed', guard_ok,
                   '`if not self.allow_overstep: raise` precedes the overstep' if guard_ok else
                   'a step beyond the track is taken although overstepping is not allowed', line=c.lineno)
    neg = [n for n in walk_no_nested(st_.node) if isinstance(n, ast.If) and n.body
           and isinstance(first_stmt(n.body), ast.Raise) and f'{p_from} < 0' in norm(n.test) and f'{p_step} < 0' in norm(n.test)]
    ctx.ob('C15-R4', st_, 'negative distances refused', bool(neg),
           norm(neg[0].test) if neg else 'negative start distance or step is no longer refused', nontrivial=False)
    callers = callers_of(prog, m.func('GroundTrack._overstep'))
    ok = all(c.qualname == 'GroundTrack.step' for c, _ in callers) and callers
    ctx.ob('C15-R4', m.func('GroundTrack._overstep'), 'called only from step', bool(ok),
           'single guarded call site' if ok else f'called from {[c.qualname for c, _ in callers]}')
    lw = m.func('GroundTrack.lookup_waypoint')
    g = CFG(lw.node)
    dom = g.dominators(edge_ok=lambda a, b, lab: lab != 'e')
    gate = None
    for n in g.nodes:
        if n.kind == 'stmt' and isinstance(n.stmt, ast.Raise):
            gs = guards_of(n.stmt)
            if any(norm(t) == f'{lw.params[1]} not in self' and pol for t, pol, _ in gs):
                gate = [x for _, _, o in gs for x in g.nodes_of(o)]
    rets = [n for n in g.nodes if n.kind == 'stmt' and isinstance(n.stmt, ast.Return)]
    ok = gate is not None and all(any(t in dom[r.id] for t in gate) for r in rets)
    ctx.ob('C15-R4', lw, 'out-of-range distance refused before indexing', ok,
           '`if distance not in self: raise` dominates the lookup' if ok else
           'an out-of-range distance reaches the bisect lookup')
    loc_ = m.func('GroundTrack.location')
    gl = CFG(loc_.node)
    doml = gl.dominators(edge_ok=lambda a, b, lab: lab != 'e')
    chk = [n for n in gl.nodes if n.stmt is not None and n.kind == 'stmt' and
           any(call_name(c) == 'self.lookup_waypoint' and c.args and norm(c.args[0]) == loc_.params[1] for c in calls_in(n.stmt))]
    retsl = [n for n in gl.nodes if n.kind == 'stmt' and isinstance(n.stmt, ast.Return)]
    ok = bool(chk) and all(chk[0].id in doml[r.id] for r in retsl)
    early = [r for r in retsl if not chk or chk[0].id not in doml[r.id]]
    ctx.ob('C15-R4', loc_, 'location() range-checks the distance before producing any point', ok,
           'the refusing lookup dominates every return' if ok else
           (f'`{early[0].text()[:60]}` (line {early[0].line}) returns a point before the range check: an out-of-range '
            'distance is silently clamped to an end waypoint instead of being refused'),
           line=(early[0].line if early else loc_.node.lineno))
    # R7 queries are pure: a location depends on the distance asked for, not on earlier queries
    gtc = m.cls('GroundTrack')
    nq = 0
    for meth in gtc.methods.values():
        if meth.name in ('__init__', '__post_init__'):
            continue
        nq += 1
        writes = [st for t, st, how in stores_to(meth.node) if isinstance(t, (ast.Attribute, ast.Subscript))
                  and norm(t).startswith('self.')]
        ctx.ob('C15-R7', meth, f'{meth.name} does not modify the track', not writes,
               'no store to self' if not writes else
               (f'`{norm(writes[0])[:60]}` keeps state between queries: the point returned for a distance then depends '
                'on which distances were asked for before (a lookup that resumes from a cursor is wrong for any '
                'non-monotonic query sequence)'), line=(writes[0].lineno if writes else meth.node.lineno),
               nontrivial=bool(writes))
    ctx.floor('C15-R7', nq, 6, 'GroundTrack query methods')
    rule_slots(ctx)
    cont = m.func('GroundTrack.__contains__')
    r = [n for n in walk_no_nested(cont.node) if isinstance(n, ast.Return)]
    ok = len(r) == 1 and norm(r[0].value) in (
        'distance >= self.index[0] and distance <= self.index[-1]',
        'self.index[0] <= distance <= self.index[-1]')
    ctx.ob('C15-R4', cont, 'range is [first, last] cumulative distance', ok,
           norm(r[0].value) if ok else 'range test of the track changed', nontrivial=False)

    legs_of = rule_legs(ctx)

    rule_components(ctx, legs_of)


# ----------------------------------------------------------------- R5 -----
class _Subst(ast.NodeTransformer):
    def __init__(self, mapping):
        self.mapping = mapping

    def visit_Name(self, n):
        if isinstance(n.ctx, ast.Load) and n.id in self.mapping:
            return copy.deepcopy(self.mapping[n.id])
        return n


def _resolve_locals(fi, e: ast.AST, depth: int = 0) -> ast.AST:
    """e with every single-definition local of fi replaced by its defining expression (parameters and locals
    bound to call results stay)"""
    if depth > 4:
        return e
    mapping = {}
    for x in ast.walk(e):
        if isinstance(x, ast.Name) and isinstance(x.ctx, ast.Load) and x.id not in fi.params and x.id not in mapping:
            d = single_def_value(fi.node, x.id)
            # a local bound to a call result is one opaque value: it keeps its name
            if d is not None and not any(isinstance(y, ast.Call) for y in ast.walk(d)):
                mapping[x.id] = _resolve_locals(fi, d, depth + 1)
    if not mapping:
        return e
    return _Subst(mapping).visit(copy.deepcopy(e))


def _bind_call(callee, call: ast.Call):
    """{parameter name: argument expression} of a resolved call, or None when the receiver is another object"""
    params = list(callee.params)
    f = call.func
    if params[:1] in (['self'], ['cls']):
        if not isinstance(f, ast.Attribute):
            return None
        recv = norm(f.value)
        if recv not in ('self', 'cls', 'super()') and not recv[:1].isupper():
            return None             # another instance: `self.` inside the callee is not the caller's self
        if recv[:1].isupper() and params[0] == 'self':
            return None
        params = params[1:]
    elif isinstance(f, ast.Attribute) and norm(f.value) not in ('self', 'cls') and not norm(f.value)[:1].isupper() \
            and callee.cls is not None:
        return None
    if any(isinstance(a, ast.Starred) for a in call.args) or any(k.arg is None for k in call.keywords):
        return None
    out = dict(zip(params, call.args))
    for k in call.keywords:
        if k.arg in params:
            out[k.arg] = k.value
    a = callee.node.args
    pos = a.posonlyargs + a.args
    for arg, dflt in list(zip(pos[len(pos) - len(a.defaults):], a.defaults)) + \
            [(x, d) for x, d in zip(a.kwonlyargs, a.kw_defaults) if d is not None]:
        out.setdefault(arg.arg, dflt)
    return out


def _idx_key(e: ast.AST, shift: int = 0) -> str:
    """canonical text of an index expression (+ shift), so that `pos - 1`, `-1 + pos` and `pos - 2 + 1` agree"""
    if shift:
        e = ast.BinOp(left=e, op=ast.Add(), right=ast.Constant(shift))
    try:
        return str(normal_form(e, {}))
    except Exception:
        return norm(e)


def _leg_of_slot(slot: int, e: ast.AST):
    """which leg (named by the index of its start waypoint) a forward-geodesic argument refers to, or None"""
    if slot in (0, 1):
        if isinstance(e, ast.Attribute):
            e = e.value
        if isinstance(e, ast.Subscript) and norm(e.value) == 'self.waypoints':
            return _idx_key(e.slice)
        return None
    if slot == 2:
        if isinstance(e, ast.Subscript) and norm(e.value) == 'self.azimuths':
            i = e.slice
            neg = isinstance(i, ast.UnaryOp) and isinstance(i.op, ast.USub) and isinstance(i.operand, ast.Constant)
            # azimuths has one entry per leg: counted from the end, entry -k belongs to the leg that starts at
            # waypoint -(k+1)
            return _idx_key(i, -1 if neg else 0)
        return None
    if isinstance(e, ast.BinOp) and isinstance(e.op, ast.Sub) and isinstance(e.right, ast.Subscript) \
            and norm(e.right.value) == 'self.index':
        return _idx_key(e.right.slice)
    return None


SLOT_NAMES = ('start lon', 'start lat', 'azimuth', 'distance origin')


def rule_legs(ctx):
    """R5.  Every forward-geodesic evaluation of the ground track - written in a GroundTrack method or reached from
    one through helpers that forward their parameters - is judged with the arguments as they are at the outermost
    call site: start waypoint, leg azimuth and the cumulative distance subtracted must belong to one leg."""
    prog = ctx.prog
    m = prog.module(GT)
    gt_fns = list(m.functions.values())
    reach = closure(prog, gt_fns)
    judged = []
    legs_of: dict[str, list] = {}

    def fwd_slots(c: ast.Call):
        _, kw = GEOD_SIG['fwd']
        out = []
        for i in range(4):
            a = c.args[i] if i < len(c.args) and not any(isinstance(x, ast.Starred) for x in c.args[:i + 1]) \
                else next((k.value for k in c.keywords if k.arg == kw[i]), None)
            if a is None:
                return None
            out.append(a)
        return out

    def record(fi, leg, depth):
        """the leg an evaluation works on, in terms of the function it is written in and - when it is named by
        that function's parameters - of every ground-track caller"""
        legs_of.setdefault(fi.qualname, []).append(leg)
        own = set(fi.params) - {'self', 'cls'}
        if depth < 4 and any(isinstance(x, ast.Name) and x.id in own for x in ast.walk(leg)):
            for caller, call in callers_of(prog, fi):
                bound = _bind_call(fi, call) if caller.file.endswith(GT) else None
                if bound is not None:
                    record(caller, _resolve_locals(caller, _Subst(bound).visit(copy.deepcopy(leg))), depth + 1)

    def judge(fi, slots, site, via, depth):
        slots = [_resolve_locals(fi, s) for s in slots]
        legs = [_leg_of_slot(i, s) for i, s in enumerate(slots)]
        own = set(fi.params) - {'self', 'cls'}
        open_ = [i for i, l in enumerate(legs) if l is None]
        from_params = [i for i in open_ if any(isinstance(x, ast.Name) and x.id in own for x in ast.walk(slots[i]))]
        if open_ and from_params and depth < 4:
            # a helper that forwards its parameters: judge every call of it instead
            callers = callers_of(prog, fi)
            if not callers:
                ctx.note(f'C15-R5: {fi.qualname} forwards parameters to the forward geodesic and has no resolved caller')
                return
            for caller, call in callers:
                if not caller.file.endswith(GT):
                    ctx.note(f'C15-R5: call of {fi.qualname} from {caller.file} {caller.qualname} is not a ground-track leg')
                    continue
                bound = _bind_call(fi, call)
                if bound is None:
                    ctx.undecided('C15-R5', caller, norm(call)[:80], f'cannot bind the arguments of {fi.qualname}')
                judge(caller, [_Subst(bound).visit(copy.deepcopy(s)) for s in slots], call,
                      via + [fi.qualname], depth + 1)
            return
        if open_:
            ctx.undecided('C15-R5', fi, norm(site)[:80], 'leg components not recognised: ' +
                          ', '.join(f'{SLOT_NAMES[i]} = `{norm(slots[i])[:40]}`' for i in open_))
        named = dict(zip(SLOT_NAMES, legs))
        ok = len(set(legs)) == 1
        judged.append(fi)
        w = slots[0].value if isinstance(slots[0], ast.Attribute) else slots[0]
        record(fi, w.slice, 0)
        ctx.ob('C15-R5', fi, f'fwd legs {named}' + (f' via {" <- ".join(via)}' if via else ''), ok,
               'start point, azimuth and distance origin belong to one leg' if ok else
               'the forward geodesic starts at one waypoint but uses the azimuth / distance origin of another '
               'leg: points leave the great circle', line=site.lineno)

    for fi, c, kind in geod_calls(prog, reach):
        if kind != 'fwd':
            continue
        slots = fwd_slots(c)
        if slots is None:
            if fi.file.endswith(GT):
                ctx.undecided('C15-R5', fi, norm(c)[:80], 'arguments of the forward geodesic not recognised')
            continue
        if not fi.file.endswith(GT):
            # only as a helper of the ground track: its own arguments must come from parameters
            own = set(fi.params) - {'self', 'cls'}
            if all(_leg_of_slot(i, _resolve_locals(fi, s)) is None and not
                   any(isinstance(x, ast.Name) and x.id in own for x in ast.walk(_resolve_locals(fi, s)))
                   for i, s in enumerate(slots)):
                continue
        judge(fi, slots, c, [], 0)
    ctx.floor('C15-R5', len(judged), 2, 'forward geodesic evaluations of the ground track')
    return legs_of


# ----------------------------------------------------------------- R6 -----
_CONVERSIONS = {'list', 'tuple', 'np.asarray', 'np.array', 'numpy.asarray', 'numpy.array', 'float'}


def _strip_conv(e: ast.AST) -> ast.AST:
    while isinstance(e, ast.Call) and call_name(e) in _CONVERSIONS and len(e.args) == 1 and not e.keywords:
        e = e.args[0]
    return e


def _component(fi, e: ast.AST, depth: int = 0):
    """(call, i) when e denotes element i of the tuple a call returns: `call(...)[i]`, a local bound by unpacking
    the call, a local bound to either, or `t[i]` with t a local bound to the call"""
    e = _strip_conv(e)
    if depth > 4:
        return None
    if isinstance(e, ast.Subscript) and isinstance(e.slice, ast.Constant) and isinstance(e.slice.value, int):
        v = e.value
        if isinstance(v, ast.Name):
            v = single_def_value(fi.node, v.id) or v
        if isinstance(v, ast.Call):
            return v, e.slice.value
        return None
    if isinstance(e, ast.Name):
        td = tuple_def_component(fi.node, e.id)
        if td is not None and isinstance(td[0], ast.Call):
            return td
        d = single_def_value(fi.node, e.id)
        if d is not None:
            return _component(fi, d, depth + 1)
    return None


def _zero_list(e: ast.AST) -> bool:
    return isinstance(e, (ast.List, ast.Tuple)) and len(e.elts) == 1 and isinstance(e.elts[0], ast.Constant) \
        and not isinstance(e.elts[0].value, bool) and e.elts[0].value == 0


def _running_sum_from_zero(e: ast.AST):
    """D when e evaluates to [0, D0, D0+D1, ...]: accumulate([0] + D), accumulate(D, initial=0),
    [0] + list(accumulate(D)), np.cumsum([0] + D), np.concatenate(([0], np.cumsum(D)))"""
    e = _strip_conv(e)

    def plain_sum(c):
        """D when c is accumulate(D) / np.cumsum(D) with the default (addition) and no start value"""
        c = _strip_conv(c)
        if isinstance(c, ast.Call) and call_name(c).split('.')[-1] in ('accumulate', 'cumsum') and len(c.args) == 1 \
                and not c.keywords:
            return c.args[0]
        return None
    if isinstance(e, ast.Call) and call_name(e).split('.')[-1] in ('accumulate', 'cumsum') and len(e.args) == 1:
        kws = {k.arg: k.value for k in e.keywords}
        a = e.args[0]
        if not kws and isinstance(a, ast.BinOp) and isinstance(a.op, ast.Add) and _zero_list(a.left):
            return _strip_conv(a.right)
        if set(kws) == {'initial'} and call_name(e).split('.')[-1] == 'accumulate' \
                and isinstance(kws['initial'], ast.Constant) and not isinstance(kws['initial'].value, bool) \
                and kws['initial'].value == 0:
            return _strip_conv(a)
        return None
    if isinstance(e, ast.BinOp) and isinstance(e.op, ast.Add) and _zero_list(e.left):
        return plain_sum(e.right)
    if isinstance(e, ast.Call) and call_name(e).split('.')[-1] == 'concatenate' and len(e.args) == 1 \
            and isinstance(e.args[0], (ast.Tuple, ast.List)) and len(e.args[0].elts) == 2 and _zero_list(e.args[0].elts[0]):
        return plain_sum(e.args[0].elts[1])
    return None


def _slice_kind(e: ast.AST):
    """('head' | 'tail', base text) for seq[:-1] / seq[1:]"""
    if not (isinstance(e, ast.Subscript) and isinstance(e.slice, ast.Slice)) or e.slice.step is not None:
        return None
    lo, hi = e.slice.lower, e.slice.upper

    def const(x, v):
        return isinstance(x, ast.Constant) and x.value == v and not isinstance(x.value, bool) or \
            (v < 0 and isinstance(x, ast.UnaryOp) and isinstance(x.op, ast.USub) and isinstance(x.operand, ast.Constant)
             and x.operand.value == -v)
    if (lo is None or const(lo, 0)) and hi is not None and const(hi, -1):
        return 'head', norm(e.value)
    if lo is not None and const(lo, 1) and (hi is None or (isinstance(hi, ast.Constant) and hi.value is None)):
        return 'tail', norm(e.value)
    return None


def rule_components(ctx, legs_of):
    prog = ctx.prog
    m = prog.module(GT)
    ini = m.func('GroundTrack.__init__')
    invs = [c for f, c, k in geod_calls(prog, [ini]) if k == 'inv']
    coord_names = []
    ok, why = False, 'leg construction changed: not one inverse-geodesic call over the waypoint sequence'
    if len(invs) == 1 and len(invs[0].args) == 4:
        inv = invs[0]
        kinds = [_slice_kind(a) for a in inv.args]          # as written: the coordinate lists keep their names
        ok = all(k is not None for k in kinds) and [k[0] for k in kinds] == ['head', 'head', 'tail', 'tail'] \
            and kinds[0][1] == kinds[2][1] and kinds[1][1] == kinds[3][1] and kinds[0][1] != kinds[1][1]
        why = 'legs are not (waypoint i, waypoint i+1) pairs over one longitude and one latitude sequence'
        if ok:
            coord_names = [kinds[0][1], kinds[1][1]]
            az = [st for t, st, how in stores_to(ini.node) if norm(t) == 'self.azimuths']
            ok = len(az) == 1
            why = 'self.azimuths is not stored exactly once'
            if ok:
                st = az[0]
                if isinstance(st, ast.Assign) and st.value is inv and isinstance(st.targets[0], (ast.Tuple, ast.List)):
                    pos = [i for i, x in enumerate(st.targets[0].elts) if norm(x) == 'self.azimuths']
                    ok = pos == [0]
                else:
                    comp = _component(ini, st.value)
                    if comp is None or comp[0] is not inv:
                        ctx.undecided('C15-R6', ini, norm(st)[:80], 'cannot tell which geodesic result the leg azimuths are')
                    ok = comp[1] == 0
                why = 'the leg azimuths are not the forward azimuths (component [0]) of the inverse geodesic'
    ctx.ob('C15-R6', ini, 'legs are consecutive waypoint pairs; azimuth=[0]', ok,
           norm(stmt_of(invs[0]))[:110] if ok else why)
    # the stored waypoints and the coordinates the legs are computed from are one and the same sequence
    wps = [st for t, st, how in stores_to(ini.node) if norm(t) == 'self.waypoints']
    srcs = {}
    for nm in coord_names:
        d = [st.value for t, st, how in stores_to(ini.node) if isinstance(t, ast.Name) and t.id == nm]
        if len(d) == 1 and isinstance(d[0], (ast.ListComp, ast.GeneratorExp)) and len(d[0].generators) == 1 \
                and not d[0].generators[0].ifs:
            srcs[nm] = norm(d[0].generators[0].iter)
        elif len(d) == 1 and isinstance(_strip_conv(d[0]), (ast.ListComp, ast.GeneratorExp)):
            g = _strip_conv(d[0])
            if len(g.generators) == 1 and not g.generators[0].ifs:
                srcs[nm] = norm(g.generators[0].iter)
    if len(wps) != 1 or len(srcs) != 2:
        ctx.undecided('C15-R6', ini, 'self.waypoints / coordinate lists', 'waypoint bookkeeping of the constructor not recognised')
    wsrc = norm(wps[0].value)
    ok = all(s_ in (wsrc, 'self.waypoints') for s_ in srcs.values())
    ctx.ob('C15-R6', ini, f'self.waypoints = {wsrc[:50]}; coordinates from {sorted(set(srcs.values()))}', ok,
           'legs, cumulative index and stored waypoints describe the same list' if ok else
           (f'the track stores `{wsrc[:60]}` but computes leg azimuths and the cumulative index from `{sorted(set(srcs.values()))[0]}`: '
            'when the two differ (repeated fixes removed, points filtered) location() projects from the wrong waypoint and '
            'step(a, b) is no longer location(a + b)'), line=wps[0].lineno)
    idx = [st for t, st, how in stores_to(ini.node) if norm(t) == 'self.index']
    ok, why = len(idx) == 1 and len(invs) == 1, 'cumulative waypoint index is not stored exactly once'
    if ok:
        D = _running_sum_from_zero(idx[0].value)
        bare = _strip_conv(idx[0].value)
        if D is None and isinstance(bare, ast.Call) and call_name(bare).split('.')[-1] in ('accumulate', 'cumsum') \
                and len(bare.args) == 1 and not bare.keywords:
            D, ok, why = None, False, ('the cumulative index does not start at 0: entry i is then the distance to '
                                       'waypoint i + 1 and every leg is interpolated from the wrong origin')
        elif D is None:
            ctx.undecided('C15-R6', ini, norm(idx[0])[:90], 'form of the cumulative index not recognised')
        if D is not None:
            comp = _component(ini, D)
            ok = comp is not None and comp[0] is invs[0] and comp[1] == 2
            why = 'the cumulative index does not sum the leg lengths (component [2] of the inverse geodesic)'
    ctx.ob('C15-R6', ini, 'cumulative index = running sum of leg lengths from 0', ok,
           norm(idx[0].value) if ok else why)
    td = m.func('GroundTrack.total_distance')
    r = [n for n in walk_no_nested(td.node) if isinstance(n, ast.Return)]
    ok = len(r) == 1 and r[0].value is not None and norm(_resolve_locals(td, r[0].value)) in (
        'self.index[-1]', 'self.index[len(self.index) - 1]')
    ctx.ob('C15-R6', td, 'total distance is the last cumulative value', ok,
           'self.index[-1]' if ok else 'total distance changed', nontrivial=False)
    # the azimuth reported for an interpolated point is measured at that point, towards the waypoint that ends the leg
    loc = m.func('GroundTrack.location')
    for f, c, k in geod_calls(prog, [loc]):
        if k != 'inv' or len(c.args) < 4:
            continue
        a = [_resolve_locals(loc, x) for x in c.args[:4]]
        ends = [x.value if isinstance(x, ast.Attribute) else x for x in a[2:]]
        ok = all(isinstance(x, ast.Subscript) and norm(x.value) == 'self.waypoints' for x in ends) \
            and norm(ends[0]) == norm(ends[1])
        why = 'the azimuth is not measured towards one waypoint of the track'
        if ok:
            legs = legs_of.get(loc.qualname, [])
            if not legs:
                ctx.undecided('C15-R6', loc, norm(stmt_of(c))[:80], 'the leg this point is interpolated on is not known')
            ok = all(_idx_key(ends[0].slice) == _idx_key(l, 1) for l in legs)
            why = (f'the azimuth is measured towards waypoint [{norm(ends[0].slice)}], which is not the end of the leg '
                   'the point was interpolated on')
        if ok:
            # component [0] of this geodesic is what the returned point carries, and it is measured at that point
            used = []
            for r in walk_no_nested(loc.node):
                if not (isinstance(r, ast.Return) and isinstance(r.value, ast.Call)):
                    continue
                az = r.value.args[1] if len(r.value.args) >= 2 else next(
                    (kw.value for kw in r.value.keywords if kw.arg == 'azimuth'), None)
                comp = _component(loc, az) if az is not None else None
                if comp is not None and comp[0] is c:
                    used.append((r, comp[1]))
            if not used:
                ctx.undecided('C15-R6', loc, norm(stmt_of(c))[:80], 'cannot tell where the result of this geodesic goes')
            ok = all(i == 0 for _, i in used)
            why = 'the returned point carries the back azimuth / distance of this geodesic, not its forward azimuth'
            for r, _ in used:
                pts = [x for x in ast.walk(_resolve_locals(loc, r.value.args[0])) if isinstance(x, ast.Call)
                       and call_name(x).split('.')[-1] == 'Location' and len(x.args) >= 2] if r.value.args else []
                if ok and pts and not any(norm(_resolve_locals(loc, p.args[0])) == norm(a[0]) and
                                          norm(_resolve_locals(loc, p.args[1])) == norm(a[1]) for p in pts):
                    ok, why = False, 'the azimuth is measured at a different point from the one returned'
        ctx.ob('C15-R6', loc, 'azimuth taken at the located point towards the next waypoint', ok,
               norm(stmt_of(c))[:100] if ok else why, line=c.lineno)
    mi = prog.module(MI)
    gd = mi.func('Mission.gc_distance')
    r = [n for n in walk_no_nested(gd.node) if isinstance(n, ast.Return)]
    ginv = [c for f, c, k in geod_calls(prog, [gd]) if k == 'inv']
    comp = _component(gd, r[0].value) if len(r) == 1 and r[0].value is not None else None
    if comp is None or len(ginv) != 1 or comp[0] is not ginv[0]:
        ctx.undecided('C15-R6', gd, norm(r[0])[:80] if r else 'return', 'cannot tell which geodesic result the mission distance is')
    ok = comp[1] == 2
    ctx.ob('C15-R6', gd, 'mission distance is component [2] of the inverse geodesic', ok,
           'distance component' if ok else f'gc_distance returns component [{comp[1]}] of the inverse geodesic (an azimuth), not the distance')
    args = [norm(_resolve_locals(gd, a)) for a in ginv[0].args]
    ok = len(args) == 4 and args[0].startswith('self.origin_position') and args[1].startswith('self.origin_position') \
        and args[2].startswith('self.destination_position') and args[3].startswith('self.destination_position')
    ctx.ob('C15-R6', gd, 'distance is between origin and destination', ok,
           'origin pair then destination pair' if ok else 'end points of the mission distance are mixed up',
           nontrivial=False)


# ----------------------------------------------------------------- R8 -----
def _const_strings(fn: ast.AST, e: ast.AST) -> set[str] | None:
    """the strings e can evaluate to, when that is visible: a literal, a single-definition local bound to one, or
    the target of a loop over a literal sequence of strings"""
    if isinstance(e, ast.Constant):
        return {e.value} if isinstance(e.value, str) else set()
    if isinstance(e, ast.Name):
        d = single_def_value(fn, e.id)
        if d is not None:
            return _const_strings(fn, d)
        for n in walk_no_nested(fn):
            if isinstance(n, (ast.For, ast.comprehension)) and isinstance(n.target, ast.Name) and n.target.id == e.id \
                    and isinstance(n.iter, (ast.Tuple, ast.List, ast.Set)) \
                    and all(isinstance(x, ast.Constant) for x in n.iter.elts):
                return {x.value for x in n.iter.elts if isinstance(x.value, str)}
    return None


def _instance_dict_owner(fn: ast.AST, e: ast.AST, depth: int = 0):
    """X when e denotes the attribute dictionary of X: `X.__dict__`, `vars(X)`, or a local bound to one"""
    if isinstance(e, ast.Attribute) and e.attr == '__dict__':
        return e.value
    if isinstance(e, ast.Call) and call_name(e) == 'vars' and len(e.args) == 1:
        return e.args[0]
    if isinstance(e, ast.Name) and depth < 3:
        d = single_def_value(fn, e.id)
        if d is not None:
            return _instance_dict_owner(fn, d, depth + 1)
    return None


def slot_writes(fn: ast.AST):
    """Every construct in fn that can put a value into an attribute slot of an object without going through a
    property's own function: (node, owner expr, names | None, how).  names is the set of attribute names written
    when visible, None when the name is computed."""
    out = []

    def dict_literal_keys(d):
        if isinstance(d, ast.Dict):
            ks = set()
            for k in d.keys:
                if k is None:
                    return None
                s = _const_strings(fn, k)
                if s is None:
                    return None
                ks |= s
            return ks
        if isinstance(d, ast.Call) and call_name(d) == 'dict' and not d.args and all(k.arg for k in d.keywords):
            return {k.arg for k in d.keywords}
        return None

    for t, st, how in stores_to(fn):
        if how == 'del':
            continue            # dropping a cached value only makes the property compute it again
        if isinstance(t, ast.Attribute):
            if t.attr == '__dict__':
                ks = dict_literal_keys(st.value) if getattr(st, 'value', None) is not None else None
                out.append((st, t.value, ks, f'`{norm(t)}` replaced / merged'))
            else:
                out.append((st, t.value, {t.attr}, 'attribute store'))
        elif isinstance(t, ast.Subscript):
            owner = _instance_dict_owner(fn, t.value)
            if owner is not None:
                out.append((st, owner, _const_strings(fn, t.slice), 'store into the instance dictionary'))
    for c in calls_in(fn):
        cn = call_name(c)
        f = c.func
        if cn == 'setattr' and len(c.args) == 3:
            out.append((c, c.args[0], _const_strings(fn, c.args[1]), 'setattr'))
        elif isinstance(f, ast.Attribute) and f.attr == '__setattr__':
            if len(c.args) == 3:        # object.__setattr__(x, name, v) / Base.__setattr__(x, name, v)
                out.append((c, c.args[0], _const_strings(fn, c.args[1]), f'{cn}'))
            elif len(c.args) == 2:      # x.__setattr__(name, v) / super().__setattr__(name, v)
                owner = ast.Name('self', ast.Load()) if isinstance(f.value, ast.Call) else f.value
                out.append((c, owner, _const_strings(fn, c.args[0]), f'{cn}'))
        elif isinstance(f, ast.Attribute) and f.attr in ('update', 'setdefault', '__setitem__', '__ior__'):
            owner = _instance_dict_owner(fn, f.value)
            if owner is None:
                continue
            if f.attr in ('setdefault', '__setitem__'):
                ks = _const_strings(fn, c.args[0]) if c.args else None
            else:
                ks = {k.arg for k in c.keywords if k.arg}
                unknown = any(k.arg is None for k in c.keywords)
                for a in c.args:
                    d = dict_literal_keys(a)
                    if d is None:
                        unknown = True
                    else:
                        ks |= d
                if unknown:
                    ks = None
            out.append((c, owner, ks, f'instance dictionary .{f.attr}()'))
    return out


_R8_CONTROL = """
def control(m, qr, name):
    m.gc_distance = qr.distance
    m.__dict__['gc_distance'] = qr.distance
    vars(m)['gc_distance'] = qr.distance
    d = m.__dict__
    d['gc_distance'] = qr.distance
    m.__dict__.update(gc_distance=qr.distance)
    m.__dict__.update({'gc_distance': qr.distance})
    m.__dict__ |= {'gc_distance': qr.distance}
    vars(m).setdefault('gc_distance', qr.distance)
    setattr(m, 'gc_distance', qr.distance)
    object.__setattr__(m, 'gc_distance', qr.distance)
    for k in ('gc_distance',):
        setattr(m, k, qr.distance)
    setattr(m, name, qr.distance)
    m.other = 1
"""


def rule_slots(ctx):
    """R8.  The mission distance is the geodesic between the airport positions only if the three memoised
    properties it is made of are filled by their own functions: nothing in the program may write their slots."""
    prog = ctx.prog
    mi = prog.module(MI)
    mission = mi.cls('Mission')
    slots = {n for c in [mission] + [k for k in prog.subclasses_of('Mission') if k is not mission]
             for n, meth in c.methods.items() if any('cached_property' in d for d in meth.decorators())}
    ctx.floor('C15-R8/slots', len(slots & {'gc_distance', 'origin_position', 'destination_position'}), 1,
              'memoised properties of Mission (gc_distance and the positions it is computed from)')
    if 'gc_distance' not in slots:
        gd = mission.find_method('gc_distance')
        if gd is None or not any('property' in d for d in gd.decorators()):
            ctx.undecided('C15-R8', (MI, 'Mission'), 'gc_distance', 'no longer a (cached) property of Mission')
    # positive control: the matcher sees every spelling of a slot write
    tree = ast.parse(_R8_CONTROL)
    for n in ast.walk(tree):
        for ch in ast.iter_child_nodes(n):
            ch._parent = n
    cw = slot_writes(tree.body[0])
    definite = [w for w in cw if w[2] is not None and 'gc_distance' in w[2]]
    dynamic = [w for w in cw if w[2] is None]
    ctx.control('C15-R8', len(definite) == 11 and len(dynamic) == 1,
                f'11 spellings of a write to a memoised slot and 1 computed name (matched {len(definite)} + {len(dynamic)})')
    from ..resolve import expr_class
    nst = 0
    for fi2 in prog.all_functions(src_only=(ctx.tier != 'thorough')):
        for node, owner, names, how in slot_writes(fi2.node):
            if names is None:
                # computed attribute name: only relevant when the object is known to be a Mission
                oc = expr_class(prog, fi2, owner)
                if oc is not None and oc.is_subclass_of('Mission'):
                    ctx.undecided('C15-R8', fi2, norm(node)[:80],
                                  f'{how} with a computed attribute name on a Mission: cannot tell whether a memoised '
                                  'property is overwritten')
                continue
            hit = sorted(names & slots)
            if not hit:
                continue
            if how == 'attribute store' and fi2.cls is not None and not fi2.cls.is_subclass_of('Mission') \
                    and norm(owner) == 'self':
                continue        # another class's own attribute of the same name
            nst += 1
            ctx.ob('C15-R8', fi2, f'`{norm(node)[:70]}`', False,
                   f'{how} fills the memoised property {"/".join(hit)} of the mission from outside its own function: '
                   'the cached great-circle distance is then a value that is not the WGS-84 geodesic between '
                   'the airport positions (a stated schedule distance differs from it and is not symmetric)',
                   line=node.lineno)
    ctx.ob('C15-R8', (MI, 'Mission'), f'{"/".join(sorted(slots))} are produced only by their own functions', nst == 0,
           'no attribute store, instance-dictionary store/update, setattr or __setattr__ of these names anywhere in '
           'the program' if nst == 0 else f'{nst} write(s)', nontrivial=False)



def _in(n, anc):
    return any(a is anc for a in ancestors(n))


def run(ctx):
    rule_roles(ctx)
    rule_track(ctx)
    ctx.assumptions += ['pyproj.Geod.inv(lons1, lats1, lons2, lats2) -> (fwd az, back az, dist); '
                        'Geod.fwd(lons, lats, az, dist) -> (lon, lat, back az)',
                        'identifier names carry their role (lat/lon); unknown names are never reported']
