"""C19 — BADA-3 fuel-burn integration keeps mass, thrust and fuel flow consistent.

R1  protocol conformance: every subscript / attribute access on
    `self.aircraft_parameters` is supported by Bada3AircraftParameters (declared
    field, method, or __getitem__ for subscripts).
R2  thrust shape: total-energy thrust is limited above by max cruise thrust in
    cruise and max climb thrust otherwise, then replaced by descent thrust
    exactly where it is negative; descent thrust is chosen by the h_p_des
    comparison in feet.
R3  cruise-only correction: cruise fuel flow is used exactly where in_cruise,
    nominal fuel flow elsewhere; specific ground range = ground speed / fuel
    flow behind a non-zero guard.
R4  trapezoid update shape: mass[1:] = mass[0] − cumtrapz(1/sgr), mirrored
    backward.
R5  MTOW clamp: in the fuel-dependent initial-mass iterations mass[0] is only
    ever assigned from min(…, mtow); the two sibling iterations agree up to the
    reserve term.
R7  assign_parameters_fromdict assigns every entry it is given (no value-based
    skipping).
R6  equation conformance (T-ALG): every straight-line BADA-3 formula equals the
    independent transcription in reference_equations.py as an exact rational
    function.
"""

from __future__ import annotations

import ast

from ..algebra import AlgebraError, module_constants
from ..astutil import (call_name, calls_in, guards_of, kwarg, norm, single_def_value, stmt_of,
                       stores_to, walk_no_nested)
from ..conform import code_normal_form, compare, ref_normal_form, returned_expr
from ..reference_equations import BADA3, BADA3_CALLS

MODEL = 'BADA/model.py'
PARAMS = 'BADA/aircraft_parameters.py'
BASE = 'BADA/fuel_burn_base.py'
OBJ = 'self.aircraft_parameters'


def _np_where(e):
    if isinstance(e, ast.Call) and call_name(e) in ('np.where', 'numpy.where') and len(e.args) == 3:
        return e.args
    return None


def rule_protocol(ctx):
    prog = ctx.prog
    pm = prog.module(PARAMS)
    pc = pm.cls('Bada3AircraftParameters')
    fields = set(pc.all_fields())
    methods = {k for c in pc.mro() for k in c.methods}
    has_getitem = '__getitem__' in methods
    mods = [prog.module(MODEL)]
    if ctx.tier == 'thorough':
        mods.append(prog.module('BADA/helper_functions.py'))
    n = 0
    for m in mods:
        for fi in m.functions.values():
            for x in walk_no_nested(fi.node):
                if isinstance(x, ast.Subscript) and norm(x.value) == OBJ:
                    n += 1
                    key = x.slice.value if isinstance(x.slice, ast.Constant) else None
                    ok = has_getitem and (key is None or key in fields)
                    ctx.ob('C19-R1', fi, f"{OBJ}[{key!r}]", ok,
                           'item access supported and names a declared parameter' if ok else
                           ("Bada3AircraftParameters is a dataclass without __getitem__: the model raises "
                            "TypeError on the library's own parameter object" if not has_getitem else
                            f'`{key}` is not a declared parameter'), line=x.lineno)
                elif isinstance(x, ast.Attribute) and norm(x.value) == OBJ:
                    n += 1
                    ok = x.attr in fields or x.attr in methods
                    ctx.ob('C19-R1', fi, f'{OBJ}.{x.attr}', ok,
                           'declared parameter' if ok else f'`{x.attr}` is not declared on Bada3AircraftParameters',
                           line=x.lineno, nontrivial=False)
    ctx.floor('C19-R1', n, 30, 'accesses of the parameter object')
    gi = pc.find_method('__getitem__')
    if gi is not None:
        r = returned_expr(gi.node)
        ok = r is not None and norm(r) in ('getattr(self, key)', 'self.__dict__[key]', 'vars(self)[key]')
        ctx.ob('C19-R1', gi, '__getitem__ returns the attribute of that name', ok,
               norm(r) if ok else 'item access does not return the parameter of that name')


def rule_thrust(ctx):
    prog = ctx.prog
    m = prog.module(MODEL)
    ct = m.func('Bada3FuelBurnModel.calculate_thrust')
    defs = [st for t, st, how in stores_to(ct.node) if isinstance(t, ast.Name) and t.id == 'thrust']
    ret = returned_expr(ct.node)
    if ret is not None and norm(ret) != 'thrust':
        # the last step is written directly in the return: treat it as a final definition
        pseudo = ast.Assign(targets=[ast.Name('thrust', ast.Store())], value=ret)
        ast.copy_location(pseudo, ret)
        pseudo.end_lineno = getattr(ret, 'end_lineno', ret.lineno)
        defs = defs + [pseudo]
        ret = ast.Name('thrust', ast.Load())
    if ret is None or norm(ret) != 'thrust' or len(defs) < 2:
        ctx.undecided('C19-R2', ct, 'thrust', 'thrust is not built by successive re-definitions of one local')
    # definite wrong forms: a lower *bound* (clip / maximum) instead of substitution where negative
    for d in defs[1:]:
        v = d.value
        if isinstance(v, ast.Call) and call_name(v) in ('np.clip', 'numpy.clip') and len(v.args) >= 3 \
                and norm(v.args[0]) == 'thrust':
            ctx.ob('C19-R2', ct, f'negative thrust replaced by descent thrust', False,
                   f'`{norm(v)[:70]}` bounds thrust below by {norm(v.args[1])}: every total-energy thrust under the '
                   'descent thrust is raised to it, also small positive values BADA-3 keeps as computed',
                   line=d.lineno)
            return
        if isinstance(v, ast.Call) and call_name(v) in ('np.maximum', 'numpy.maximum', 'max') and \
                'thrust' in [norm(a) for a in v.args]:
            ctx.ob('C19-R2', ct, f'negative thrust replaced by descent thrust', False,
                   f'`{norm(v)[:70]}` is a lower bound, not a substitution where thrust < 0', line=d.lineno)
            return
    if len(defs) < 3:
        ctx.undecided('C19-R2', ct, 'thrust', 'thrust is not built by total energy, cap and descent substitution')
    # 1: total energy
    ok = isinstance(defs[0].value, ast.Call) and call_name(defs[0].value) == 'self.calculate_thrust_by_total_energy'
    ctx.ob('C19-R2', ct, 'thrust starts as total-energy thrust', ok, norm(defs[0].value)[:60] if ok else
           'first definition is not the total-energy thrust', line=defs[0].lineno, nontrivial=False)
    te = defs[0].value
    if ok:
        a = [norm(x) for x in te.args]
        okp = a == ['drag', 'mass', 'v_tas', 'rocd', 'acceleration']
        ctx.ob('C19-R2', ct, f'total energy arguments {a}', okp, 'in declared order' if okp else
               'arguments of the total-energy thrust are permuted', line=te.lineno, nontrivial=False)
    # 2: cap
    cap = _np_where(defs[1].value)
    okc = False
    why = 'second definition is not an upper cap by np.where'
    if cap is not None:
        c, a, b = cap
        mx = None
        if isinstance(c, ast.Compare) and len(c.ops) == 1:
            l, r = norm(c.left), norm(c.comparators[0])
            if isinstance(c.ops[0], (ast.Gt, ast.GtE)) and l == 'thrust' and norm(a) == r and norm(b) == 'thrust':
                okc, mx = True, r
            elif isinstance(c.ops[0], (ast.Lt, ast.LtE)) and l == 'thrust' and norm(b) == r and norm(a) == 'thrust':
                okc, mx = True, r
        why = f'thrust limited above by {mx}' if okc else f'cap has the wrong shape: {norm(defs[1].value)[:80]}'
        if okc:
            md = single_def_value(ct.node, mx)
            w = _np_where(md) if md is not None else None
            oksel = w is not None and norm(w[0]) == 'in_cruise' and 'cruise' in norm(w[1]) and 'climb' in norm(w[2])
            ctx.ob('C19-R2', ct, f'{mx} = {norm(md)[:70] if md is not None else "?"}', bool(oksel),
                   'max cruise thrust in cruise, max climb thrust otherwise' if oksel else
                   'the thrust limit is not selected by the cruise flag between cruise and climb maxima',
                   line=(md.lineno if md is not None else ct.node.lineno))
            for nm, meth in (('cruise', 'calculate_max_cruise_thrust'), ('climb', 'calculate_max_climb_thrust')):
                if oksel:
                    src = single_def_value(ct.node, norm(w[1] if nm == 'cruise' else w[2]))
                    okm = isinstance(src, ast.Call) and call_name(src) == f'self.engine_model.{meth}'
                    ctx.ob('C19-R2', ct, f'max {nm} thrust from {meth}', okm, 'engine model' if okm else
                           f'max {nm} thrust comes from the wrong method', nontrivial=False)
    elif isinstance(defs[1].value, ast.Call) and call_name(defs[1].value) in ('np.minimum', 'np.clip'):
        why = f'{call_name(defs[1].value)} form: not recognised as the cap alone'
    ctx.ob('C19-R2', ct, 'thrust limited above by the maximum thrust', okc, why, line=defs[1].lineno)
    # 3: descent substitution (last definition)
    last = defs[-1]
    sub = _np_where(last.value)
    oks = False
    why = (f'`{norm(last.value)[:70]}`: thrust is not replaced by descent thrust exactly where it is negative '
           '(a lower clip at descent thrust also raises small positive thrusts)')
    dname = None
    if sub is not None:
        c, a, b = sub
        if isinstance(c, ast.Compare) and len(c.ops) == 1 and norm(c.left) == 'thrust' and norm(c.comparators[0]) == '0':
            if isinstance(c.ops[0], ast.Lt) and norm(b) == 'thrust':
                oks, dname = True, norm(a)
            elif isinstance(c.ops[0], ast.GtE) and norm(a) == 'thrust':
                oks, dname = True, norm(b)
        if oks:
            why = f'np.where(thrust < 0, {dname}, thrust)'
    ctx.ob('C19-R2', ct, 'negative thrust replaced by descent thrust', oks, why, line=last.lineno)
    if oks:
        dd = single_def_value(ct.node, dname)
        w = _np_where(dd) if dd is not None else None
        okd = w is not None and norm(w[0]) in ('altitude * METERS_TO_FEET > self.aircraft_parameters.h_p_des',
                                               'self.aircraft_parameters.h_p_des < altitude * METERS_TO_FEET') \
            and 'high' in norm(w[1]) and 'low' in norm(w[2])
        ctx.ob('C19-R2', ct, f'{dname} = {norm(dd)[:80] if dd is not None else "?"}', bool(okd),
               'high-altitude descent thrust above h_p_des (compared in feet), low otherwise' if okd else
               'descent thrust selection changed (unit or branch)', line=(dd.lineno if dd is not None else last.lineno))
    # order: cap before substitution
    ctx.ob('C19-R2', ct, 'cap precedes the descent substitution', defs[1].lineno < last.lineno and len(defs) == 3,
           'three definitions in order' if len(defs) == 3 else f'{len(defs)} definitions of thrust', nontrivial=False)
    # pressure/density/cl/cd/drag chain
    chain = {'pressure': 'pressure_at_altitude_isa_bada4(altitude)', 'rho': 'calculate_air_density(pressure, temperature)',
             'cl': 'self.calculate_cl(mass, rho, v_tas)', 'cd': 'self.calculate_cd(cl)',
             'drag': 'self.calculate_drag(cd, rho, v_tas)'}
    for k, v in chain.items():
        d = single_def_value(ct.node, k)
        ok = d is not None and norm(d) == v
        ctx.ob('C19-R2', ct, f'{k} = {v}', ok, 'aerodynamic chain' if ok else f'{k} is computed differently: {norm(d) if d is not None else None}',
               nontrivial=False)


def rule_fuelflow(ctx):
    prog = ctx.prog
    m = prog.module(MODEL)
    sg = m.func('Bada3FuelBurnModel.calculate_specific_ground_range')
    defs = [st for t, st, how in stores_to(sg.node) if isinstance(t, ast.Name) and t.id == 'fuel_flow']
    w = _np_where(defs[-1].value) if defs else None
    ok = w is not None and norm(w[0]) == 'in_cruise'
    cr = single_def_value(sg.node, norm(w[1])) if ok else None
    ok = ok and isinstance(cr, ast.Call) and call_name(cr) == 'self.engine_model.calculate_cruise_fuel_flow' \
        and norm(w[2]) == 'fuel_flow' and isinstance(defs[0].value, ast.Call) \
        and call_name(defs[0].value) == 'self.engine_model.calculate_nominal_fuel_flow'
    ctx.ob('C19-R3', sg, 'cruise fuel flow exactly where in_cruise, nominal elsewhere', bool(ok),
           norm(defs[-1].value) if ok else 'the cruise correction is applied outside cruise or not at all',
           line=(defs[-1].lineno if defs else sg.node.lineno))
    for st in defs[:1] + ([stmt_of(cr)] if cr is not None else []):
        a = [norm(x) for x in st.value.args]
        okp = a == ['thrust', 'v_tas']
        ctx.ob('C19-R3', sg, f'{call_name(st.value).split(".")[-1]}({", ".join(a)})', okp,
               'thrust and true airspeed' if okp else 'fuel-flow arguments permuted', line=st.lineno, nontrivial=False)
    th = single_def_value(sg.node, 'thrust')
    ok = isinstance(th, ast.Call) and call_name(th) == 'self.calculate_thrust' and \
        [norm(x) for x in th.args] == ['mass', 'temperature', 'altitude', 'v_tas', 'rocd', 'acceleration', 'in_cruise']
    ctx.ob('C19-R3', sg, 'thrust from calculate_thrust with the flight state in declared order', ok,
           'limited thrust' if ok else 'fuel flow is not computed from the limited thrust of this state',
           line=(th.lineno if th is not None else sg.node.lineno))
    r = returned_expr(sg.node)
    ok = isinstance(r, ast.Call) and call_name(r) == 'np.divide' and [norm(x) for x in r.args[:2]] == ['groundspeed', 'fuel_flow'] \
        and kwarg(r, 'where') is not None and norm(kwarg(r, 'where')) == 'fuel_flow != 0'
    ctx.ob('C19-R3', sg, 'specific ground range = ground speed / fuel flow (guarded)', ok,
           norm(r)[:90] if ok else 'specific ground range is not ground speed over fuel flow', line=(r.lineno if r is not None else 0))


def rule_update(ctx):
    prog = ctx.prog
    b = prog.module(BASE)
    fw = b.func('BaseFuelBurnModel.update_mass_vector')
    bw = b.func('BaseFuelBurnModel.update_mass_vector_backward')
    st = [s for t, s, how in stores_to(fw.node) if isinstance(t, ast.Subscript) and norm(t.value) == 'mass']
    ok = len(st) == 1 and norm(st[0].targets[0]) == 'mass[1:]' and isinstance(st[0].value, ast.BinOp) \
        and isinstance(st[0].value.op, ast.Sub) and norm(st[0].value.left) == 'mass[0]' \
        and isinstance(st[0].value.right, ast.Call) and call_name(st[0].value.right) == 'cumulative_trapezoid'
    if ok:
        c = st[0].value.right
        ok = norm(c.args[0]) == '1 / specific_ground_range_corrected' and kwarg(c, 'dx') is not None \
            and norm(kwarg(c, 'dx')) == 'segment_distance'
    ctx.ob('C19-R4', fw, 'forward: mass[1:] = mass[0] − ∫ (1/sgr) ds (trapezoid)', ok,
           norm(st[0])[:100] if ok else 'forward mass update is not the cumulative trapezoid of fuel per distance subtracted from mass[0]',
           line=(st[0].lineno if st else fw.node.lineno))
    st = [s for t, s, how in stores_to(bw.node) if isinstance(t, ast.Subscript) and norm(t.value) == 'mass']
    ci = single_def_value(bw.node, 'cumulative_integral')
    ok = len(st) == 1 and norm(st[0].targets[0]) == 'mass[:-1]' and norm(st[0].value) == 'mass[-1] + cumulative_integral' \
        and ci is not None and norm(ci) == 'cumulative_trapezoid(1 / specific_ground_range_corrected[::-1], dx=segment_distance)[::-1]'
    ctx.ob('C19-R4', bw, 'backward: mass[:-1] = mass[-1] + reversed ∫ (1/sgr) ds', ok,
           'mirror image of the forward update' if ok else 'backward mass update is not the mirror of the forward one',
           line=(st[0].lineno if st else bw.node.lineno))
    for f in (fw, bw):
        d = single_def_value(f.node, 'specific_ground_range_corrected')
        w = _np_where(d) if d is not None else None
        ok = w is not None and norm(w[0]) == 'specific_ground_range < 1' and norm(w[1]) == 'np.inf' and norm(w[2]) == 'specific_ground_range'
        ctx.ob('C19-R4', f, 'degenerate range treated as no fuel burn', ok, norm(d) if ok else 'degenerate-range handling changed',
               nontrivial=False)
        r = returned_expr(f.node)
        ctx.ob('C19-R4', f, 'returns the updated mass vector', r is not None and norm(r) == 'mass', 'mass', nontrivial=False)


def rule_mtow(ctx):
    prog = ctx.prog
    m = prog.module(MODEL)
    sibs = [m.func('Bada3FuelBurnModel.iterate_flight_simulation_fuel_burn_dependent_initial_mass_rf_fraction'),
            m.func('Bada3FuelBurnModel.iterate_flight_simulation_fuel_burn_dependent_initial_mass_rf_value')]
    forms = []
    for f in sibs:
        sts = [s for t, s, how in stores_to(f.node) if norm(t) == 'mass[0]']
        ctx.floor(f'C19-R5/{f.name[-8:]}', len(sts), 1, 'assignments of mass[0]')
        for s in sts:
            v = s.value
            if isinstance(v, ast.Name):
                d = single_def_value(f.node, v.id)
                v = d if d is not None else v
            ok = False
            inner = None
            if isinstance(v, ast.Call) and call_name(v) in ('np.min', 'min', 'np.minimum', 'np.amin'):
                args = v.args[0].elts if len(v.args) == 1 and isinstance(v.args[0], (ast.Tuple, ast.List)) else v.args
                names = [norm(a) for a in args]
                ok = 'mtow' in names and len(args) == 2
                inner = next((a for a in args if norm(a) != 'mtow'), None)
            ctx.ob('C19-R5', f, f'mass[0] = {norm(v)[:80]}', ok,
                   'the value assigned to the take-off mass is min(…, mtow)' if ok else
                   'the initial mass written back is not capped at MTOW as a whole (capping an intermediate '
                   'term lets reserve fuel push it above MTOW)', line=s.lineno)
            if inner is not None:
                forms.append((f, inner))
        fb = single_def_value(f.node, 'fuel_burn')
        ok = fb is not None and norm(fb) == 'mass[0] - mass[-1]'
        ctx.ob('C19-R5', f, 'fuel burn = first minus last mass', ok, 'mass[0] - mass[-1]' if ok else
               f'fuel burn defined as {norm(fb) if fb is not None else None}', nontrivial=False)
    if len(forms) == 2:
        consts = {}
        try:
            a = code_normal_form(forms[0][0].node, forms[0][1], consts)
            b = code_normal_form(forms[1][0].node, forms[1][1], consts)
            from ..algebra import normal_form
            ra = normal_form(ast.parse('oew + mpl * load_factor + fuel_burn + fuel_burn * reserve_fuel_fraction', mode='eval').body,
                             {'fuel_burn': ast.parse('mass[0] - mass[-1]', mode='eval').body})
            rb = normal_form(ast.parse('oew + mpl * load_factor + fuel_burn + reserve_fuel', mode='eval').body,
                             {'fuel_burn': ast.parse('mass[0] - mass[-1]', mode='eval').body})
            for (f, _), got, want, what in ((forms[0], a, ra, 'OEW + MPL·LF + fuel·(1 + reserve fraction)'),
                                            (forms[1], b, rb, 'OEW + MPL·LF + fuel + reserve fuel')):
                v, why = compare(got, want)
                if v == 'undecided':
                    ctx.undecided('C19-R5', f, 'initial mass', why)
                ctx.ob('C19-R5', f, f'uncapped initial mass = {what}', v == 'equal', what if v == 'equal' else why)
        except AlgebraError as e:
            ctx.undecided('C19-R5', forms[0][0], 'initial mass', str(e))
    # prescribed mass start / end
    for qn, prm in (('Bada3FuelBurnModel.iterate_flight_simulation_constant_initial_mass', 'initial_mass'),
                    ('Bada3FuelBurnModel.iterate_flight_simulation_constant_final_mass', 'final_mass')):
        f = m.func(qn)
        d = [s for t, s, how in stores_to(f.node) if isinstance(t, ast.Name) and t.id == 'mass' and how == 'assign'
             and isinstance(s.value, ast.Call) and call_name(s.value) == 'np.full']
        ok = len(d) == 1 and norm(d[0].value.args[1]) == prm and not [s for t, s, how in stores_to(f.node)
                                                                      if norm(t) in ('mass[0]', 'mass[-1]')]
        upd = {call_name(c) for c in calls_in(f.node) if call_name(c).startswith('self.update_mass_vector')}
        want = {'self.update_mass_vector'} if prm == 'initial_mass' else {'self.update_mass_vector_backward'}
        ok = ok and upd == want
        ctx.ob('C19-R5', f, f'profile anchored at the prescribed {prm}', ok,
               f'np.full(…, {prm}) and only {sorted(want)[0].split(".")[-1]}' if ok else
               'the prescribed mass is overwritten or the wrong update direction is used',
               line=(d[0].lineno if d else f.node.lineno))


def rule_equations(ctx):
    prog = ctx.prog
    m = prog.module(MODEL)
    consts = module_constants(prog.module('units.py'))
    n = 0
    for qn, (ref, defs) in BADA3.items():
        fi = m.func(qn)
        r = returned_expr(fi.node)
        if r is None:
            ctx.undecided('C19-R6', fi, 'return', 'not a single-return function')
        try:
            code = code_normal_form(fi.node, r, consts, param_objs=(OBJ,), call_map=BADA3_CALLS)
            want = ref_normal_form(ref, consts, defs)
        except AlgebraError as e:
            ctx.undecided('C19-R6', fi, norm(r)[:60], f'cannot normalise: {e}')
        v, why = compare(code, want)
        if v == 'undecided':
            ctx.undecided('C19-R6', fi, norm(r)[:60], why)
        n += 1
        ctx.ob('C19-R6', fi, f'≡ {ref}', v == 'equal',
               'equal to the BADA-3 manual equation as an exact rational function' if v == 'equal' else
               f'differs from the BADA-3 manual equation `{ref}`: {why}', line=r.lineno)
    ctx.floor('C19-R6', n, 20, 'BADA-3 equations compared')
    # non-ISA correction (3.7-4..7): opaque clip/maximum, compared structurally
    mc = m.func('Bada3EngineModel.calculate_max_climb_thrust')
    r = returned_expr(mc.node)
    dte = single_def_value(mc.node, 'delta_temperature_eff')
    dt = single_def_value(mc.node, 'delta_temperature')
    ok = r is not None and norm(r) == ("self.calculate_max_climb_thrust_isa(altitude, v_tas) * (1 - np.clip(delta_temperature_eff * "
                                       "np.maximum(0, self.aircraft_parameters['c_tc5']), 0, 0.4))")
    ok = ok and dte is not None and norm(dte) == "delta_temperature - self.aircraft_parameters['c_tc4']" \
        and dt is not None and norm(dt) == 'temperature - temperature_at_altitude_isa_bada4(altitude)'
    ctx.ob('C19-R6', mc, 'non-ISA correction: ISA thrust × (1 − clip(ΔT_eff·max(0, Ctc5), 0, 0.4)), ΔT_eff = ΔT − Ctc4', bool(ok),
           'matches (3.7-4..7)' if ok else 'temperature correction of the maximum climb thrust changed',
           line=(r.lineno if r is not None else mc.node.lineno))
    rule_engine_dispatch(ctx)


# --- engine selection: the dispatch decided by specialising the function on each engine type ---------------

ENGINE_TYPE = f'{OBJ}.engine_type'
ENGINE_SLOT = 'self.engine_model'
ENGINE_MODELS = {'Jet': 'Bada3JetEngineModel', 'Turboprop': 'Bada3TurbopropEngineModel',
                 'Piston': 'Bada3PistonEngineModel'}


class _Undecided(Exception):
    pass


class _Raised(Exception):
    def __init__(self, name):
        super().__init__(name)
        self.name = name


class _Ref:
    """a value known only by name (class, function, object path)"""

    def __init__(self, name):
        self.name = name

    def __eq__(self, o):
        return isinstance(o, _Ref) and o.name == self.name

    def __hash__(self):
        return hash(('ref', self.name))

    def __repr__(self):
        return self.name


class _Inst:
    """result of calling a named callable"""

    def __init__(self, callee, args, kwargs):
        self.callee, self.args, self.kwargs = callee, args, kwargs

    def __repr__(self):
        a = [repr(x) for x in self.args] + [f'{k}={v!r}' for k, v in self.kwargs.items()]
        return f'{self.callee}({", ".join(a)})'


_UNKNOWN = object()
_STR_METHODS = ('lower', 'upper', 'strip', 'casefold', 'title', 'capitalize')

# exception classes a failed table lookup raises, with the handler names that catch them
_CATCHES = {'KeyError': {'KeyError', 'LookupError', 'Exception', 'BaseException'},
            'AttributeError': {'AttributeError', 'Exception', 'BaseException'}}


class _Specialiser:
    """Follow one function along the single path it takes when some access paths have known constant values
    (here: the engine type).  Tests, `match` cases, conditional expressions and table look-ups that depend only on
    known values are decided; everything else is carried as an opaque value and only matters if a decision or
    the requested result depends on it (then: undecided).  Nothing is executed: this is evaluation of the
    extracted syntax over an explicit environment."""

    def __init__(self, prog, fi, env):
        self.prog, self.fi = prog, fi
        self.env = dict(env)
        self.g = _cfg(fi.node)
        self.subjects = {}

    # -- values
    def _global(self, name):
        m = self.fi.module
        r = self.prog.resolve_name(m, name)
        if isinstance(r, tuple) and r[0] == 'const':
            saved, self.env = self.env, {}
            try:
                return self.val(r[1].constants[r[2]])
            except _Undecided:
                return _UNKNOWN
            finally:
                self.env = saved
        if r is not None and hasattr(r, 'name'):
            return _Ref(r.name)
        return _Ref(name)

    def _class_const(self, attr):
        c = self.fi.cls
        for k in (c.mro() if c is not None else []):
            v = k.class_assignments().get(attr)
            if v is not None:
                saved, self.env = self.env, {}
                try:
                    return self.val(v)
                except _Undecided:
                    return _UNKNOWN
                finally:
                    self.env = saved
        return None

    def val(self, e):
        if isinstance(e, ast.Constant):
            return e.value
        if isinstance(e, ast.Name):
            return self.env[e.id] if e.id in self.env else self._global(e.id)
        if isinstance(e, ast.Attribute):
            t = norm(e)
            if t in self.env:
                return self.env[t]
            if isinstance(e.value, ast.Name) and e.value.id in ('self', 'cls') \
                    or norm(e.value) in ('type(self)', 'self.__class__'):
                v = self._class_const(e.attr)
                if v is not None:
                    return v
            d = _dotted(e)
            if d is not None:
                head, _, rest = d.partition('.')
                if head not in self.env and head in self.fi.module.imports:
                    r = self.prog.resolve_dotted(self.fi.module.imports[head] + '.' + rest)
                    if r is not None and hasattr(r, 'name'):
                        return _Ref(r.name)
            bv = self.val(e.value)
            if isinstance(bv, _Ref):
                full = f'{bv.name}.{e.attr}'
                return self.env[full] if full in self.env else _Ref(full)
            return _UNKNOWN
        if isinstance(e, ast.Dict):
            out = {}
            for k, v in zip(e.keys, e.values):
                if k is None:
                    return _UNKNOWN
                kv = self.val(k)
                if kv is _UNKNOWN or isinstance(kv, (_Ref, _Inst, dict, list)):
                    return _UNKNOWN
                out[kv] = self.val(v)
            return out
        if isinstance(e, (ast.Tuple, ast.List, ast.Set)):
            vs = [self.val(x) for x in e.elts]
            return _UNKNOWN if any(v is _UNKNOWN for v in vs) else tuple(vs)
        if isinstance(e, ast.Subscript):
            d, k = self.val(e.value), self.val(e.slice)
            if isinstance(d, _Ref) and isinstance(k, str):
                # item access on an object that forwards items to attributes (the parameter object does)
                full = f'{d.name}.{k}'
                return self.env[full] if full in self.env else _UNKNOWN
            if isinstance(d, dict) and k is not _UNKNOWN and not isinstance(k, (_Inst, dict)):
                if k in d:
                    return d[k]
                raise _Raised('KeyError')
            return _UNKNOWN
        if isinstance(e, ast.IfExp):
            return self.val(e.body if self.truth(e.test) else e.orelse)
        if isinstance(e, ast.NamedExpr):
            v = self.val(e.value)
            self.env[e.target.id] = v
            return v
        if isinstance(e, (ast.Compare, ast.BoolOp)) or isinstance(e, ast.UnaryOp) and isinstance(e.op, ast.Not):
            try:
                return self.truth(e)
            except _Undecided:
                return _UNKNOWN
        if isinstance(e, ast.Call):
            f = e.func
            if isinstance(f, ast.Attribute) and f.attr == 'get' and 1 <= len(e.args) <= 2 and not e.keywords:
                d = self.val(f.value)
                if isinstance(d, dict):
                    k = self.val(e.args[0])
                    if k is _UNKNOWN or isinstance(k, (_Inst, dict)):
                        return _UNKNOWN
                    return d[k] if k in d else (self.val(e.args[1]) if len(e.args) == 2 else None)
            if isinstance(f, ast.Name) and f.id == 'getattr' and 2 <= len(e.args) <= 3 and f.id not in self.env:
                o, a = self.val(e.args[0]), self.val(e.args[1])
                if isinstance(o, _Ref) and isinstance(a, str):
                    full = f'{o.name}.{a}'
                    return self.env[full] if full in self.env else _Ref(full)
                return _UNKNOWN
            if isinstance(f, ast.Attribute) and f.attr in _STR_METHODS and not e.args and not e.keywords:
                b = self.val(f.value)
                if isinstance(b, str):
                    return getattr(b, f.attr)()
                if not isinstance(b, _Ref):
                    return _UNKNOWN
            fv = self.val(f)
            if isinstance(fv, _Ref):
                if any(isinstance(a, ast.Starred) for a in e.args) or any(k.arg is None for k in e.keywords):
                    return _Inst(fv.name, [_UNKNOWN], {})
                return _Inst(fv.name, [self.val(a) for a in e.args], {k.arg: self.val(k.value) for k in e.keywords})
            if fv is None:
                raise _Raised('TypeError')
            return _UNKNOWN
        return _UNKNOWN

    def truth(self, e):
        if isinstance(e, ast.UnaryOp) and isinstance(e.op, ast.Not):
            return not self.truth(e.operand)
        if isinstance(e, ast.BoolOp):
            for v in e.values:
                t = self.truth(v)
                if isinstance(e.op, ast.And) and not t:
                    return False
                if isinstance(e.op, ast.Or) and t:
                    return True
            return isinstance(e.op, ast.And)
        if isinstance(e, ast.Compare):
            left = self.val(e.left)
            for op, c in zip(e.ops, e.comparators):
                right = self.val(c)
                if left is _UNKNOWN or right is _UNKNOWN:
                    raise _Undecided(f'`{norm(e)}` depends on a value that is not known')
                if isinstance(op, (ast.Eq, ast.NotEq)):
                    if isinstance(left, _Inst) or isinstance(right, _Inst):
                        raise _Undecided(f'`{norm(e)}`: equality of a created object')
                    r = (left == right) == isinstance(op, ast.Eq)
                elif isinstance(op, (ast.Is, ast.IsNot)):
                    if isinstance(left, _Inst) or isinstance(right, _Inst):
                        raise _Undecided(f'`{norm(e)}`: identity of a created object')
                    same = (left is right) if (left is None or right is None or isinstance(left, bool)
                                               or isinstance(right, bool)) else (left == right)
                    r = same == isinstance(op, ast.Is)
                elif isinstance(op, (ast.In, ast.NotIn)):
                    if not isinstance(right, (dict, tuple, str)):
                        raise _Undecided(f'`{norm(e)}`: membership in an unknown container')
                    try:
                        r = (left in right) == isinstance(op, ast.In)
                    except TypeError:
                        raise _Undecided(f'`{norm(e)}`') from None
                else:
                    raise _Undecided(f'`{norm(e)}`: ordering comparison')
                if not r:
                    return False
                left = right
            return True
        v = self.val(e)
        if v is _UNKNOWN:
            raise _Undecided(f'`{norm(e)}` is not known')
        if isinstance(v, (_Ref, _Inst)):
            return True
        return bool(v)

    def _matches(self, pat, subj):
        if isinstance(pat, ast.MatchValue):
            v = self.val(pat.value)
            if v is _UNKNOWN or subj is _UNKNOWN:
                raise _Undecided(f'case {norm(pat)}')
            return v == subj
        if isinstance(pat, ast.MatchSingleton):
            return subj is pat.value
        if isinstance(pat, ast.MatchOr):
            return any(self._matches(p, subj) for p in pat.patterns)
        if isinstance(pat, ast.MatchAs):
            ok = True if pat.pattern is None else self._matches(pat.pattern, subj)
            if ok and pat.name is not None:
                self.env[pat.name] = subj
            return ok
        raise _Undecided(f'case pattern `{norm(pat)}`')

    # -- control
    def _succ(self, n, lab):
        s = [b for b, l in self.g.succ[n] if l == lab]
        if len(s) != 1:
            raise _Undecided(f'no unique `{lab}` successor at `{self.g.nodes[n].text()[:50]}`')
        return s[0]

    def _store(self, t, v):
        if isinstance(t, ast.Name):
            self.env[t.id] = v
        elif isinstance(t, ast.Attribute):
            self.env[norm(t)] = v
        elif isinstance(t, (ast.Tuple, ast.List)):
            for i, x in enumerate(t.elts):
                self._store(x, v[i] if isinstance(v, tuple) and len(v) == len(t.elts) else _UNKNOWN)
        elif isinstance(t, ast.Subscript):
            base = t.value
            key = norm(base) if isinstance(base, ast.Attribute) else base.id if isinstance(base, ast.Name) else None
            if key is not None:
                self.env[key] = _UNKNOWN

    def _raise_at(self, n, name):
        """continue in the handler that catches `name`, or leave the function"""
        tgt = [b for b, l in self.g.succ[n] if l == 'e']
        while tgt:
            d = self.g.nodes[tgt[0]]
            if d.kind != 'dispatch':
                break
            outer = None
            for b, l in self.g.succ[d.id]:
                h = self.g.nodes[b]
                if h.kind == 'except':
                    ty = h.stmt.type
                    names = {'BaseException'} if ty is None else {
                        norm(x).split('.')[-1] for x in (ty.elts if isinstance(ty, ast.Tuple) else [ty])}
                    if names & _CATCHES.get(name, {name, 'Exception', 'BaseException'}):
                        if h.stmt.name:
                            self.env[h.stmt.name] = _UNKNOWN
                        return self._succ(h.id, 'n')
                else:
                    outer = b
            tgt = [outer] if outer is not None else []
        raise _Raised(name)

    def run(self, limit=400):
        """-> ('return', env) | ('raise', exception name)"""
        g = self.g
        n = g.entry
        for _ in range(limit):
            node = g.nodes[n]
            if n == g.exit:
                return 'return', self.env
            if n == g.raise_exit:
                return 'raise', '?'
            try:
                if node.kind in ('entry', 'join', 'finally', 'with'):
                    n = self._succ(n, 'n')
                elif node.kind == 'test':
                    n = self._succ(n, 't' if self.truth(node.stmt.test) else 'f')
                elif node.kind == 'match':
                    sv = self.val(node.stmt.subject)
                    for c in node.stmt.cases:
                        self.subjects[id(c)] = sv
                    n = self._succ(n, 'n')
                elif node.kind == 'case':
                    c = node.stmt
                    ok = self._matches(c.pattern, self.subjects[id(c)]) and (c.guard is None or self.truth(c.guard))
                    n = self._succ(n, 't' if ok else 'f')
                elif node.kind == 'stmt':
                    s = node.stmt
                    if isinstance(s, ast.Return):
                        if s.value is not None:
                            self.env['<return>'] = self.val(s.value)
                        return 'return', self.env
                    if isinstance(s, ast.Raise):
                        nm = '?'
                        if s.exc is not None:
                            x = s.exc.func if isinstance(s.exc, ast.Call) else s.exc
                            nm = (_dotted(x) or '?').split('.')[-1]
                        n = self._raise_at(n, nm)
                        continue
                    if isinstance(s, ast.Assert):
                        try:
                            if not self.truth(s.test):
                                n = self._raise_at(n, 'AssertionError')
                                continue
                        except _Undecided:
                            pass
                    elif isinstance(s, ast.Assign):
                        v = self.val(s.value)
                        for t in s.targets:
                            self._store(t, v)
                    elif isinstance(s, ast.AnnAssign):
                        if s.value is not None:
                            self._store(s.target, self.val(s.value))
                    elif isinstance(s, ast.AugAssign):
                        self._store(s.target, _UNKNOWN)
                    elif isinstance(s, ast.Expr):
                        v = self.val(s.value)
                        # setattr(self, 'name', value) is a store
                        if isinstance(s.value, ast.Call) and isinstance(s.value.func, ast.Name) \
                                and s.value.func.id == 'setattr' and len(s.value.args) == 3:
                            o, a, x = s.value.args
                            av = self.val(a)
                            if isinstance(av, str):
                                self.env[f'{norm(o)}.{av}'] = self.val(x)
                            else:
                                raise _Undecided(f'`{norm(s)}` stores to an attribute that is not known')
                    elif isinstance(s, ast.Delete):
                        for t in s.targets:
                            self._store(t, _UNKNOWN)
                    n = self._succ(n, 'n')
                else:
                    raise _Undecided(f'`{node.text()[:60]}`: loops and handlers are not followed')
            except _Raised as r:
                try:
                    n = self._raise_at(n, r.name)
                except _Raised as r2:
                    return 'raise', r2.name
        raise _Undecided('path does not end')


def _cfg(fn):
    from ..cfg import CFG
    return CFG(fn)


def _dotted(e):
    from ..loader import dotted_name
    return dotted_name(e)


def rule_engine_dispatch(ctx):
    """Each engine type receives its own engine model.  Decided by following `create_engine_model` once per engine
    type with `aircraft_parameters.engine_type` bound to that string: whatever the dispatch is written as (if/elif,
    guard clauses, `match`, a dict of classes, a conditional expression), the value left in `self.engine_model` must be
    an instance of that type's model class built from `self.aircraft_parameters`."""
    prog = ctx.prog
    m = prog.module(MODEL)
    ce = m.func('Bada3FuelBurnModel.create_engine_model')
    n = 0
    for et, want in ENGINE_MODELS.items():
        sp = _Specialiser(prog, ce, {ENGINE_TYPE: et, OBJ: _Ref(OBJ)})
        try:
            how, res = sp.run()
        except _Undecided as u:
            ctx.undecided('C19-R6', ce, f'engine type {et!r}', f'dispatch cannot be followed: {u}')
        n += 1
        if how == 'raise':
            ctx.ob('C19-R6', ce, f'engine type {et!r} -> {want}', False,
                   f'create_engine_model raises {res} for engine type {et!r}: the {et.lower()} fuel-flow/thrust model '
                   'is never created', line=ce.node.lineno)
            continue
        got = res.get(ENGINE_SLOT, res.get('<return>'))
        if got is None or got is _UNKNOWN or not isinstance(got, _Inst):
            ctx.undecided('C19-R6', ce, f'engine type {et!r}',
                          f'the value left in {ENGINE_SLOT} is not a recognisable constructor call ({got!r})')
        ok = got.callee == want
        args = list(got.args) + list(got.kwargs.values())
        okp = len(args) == 1 and args[0] == _Ref(OBJ)
        ctx.ob('C19-R6', ce, f'engine type {et!r} -> {want}', ok,
               f'{got!r}' if ok else
               f'engine type {et!r} is given {got.callee}: an engine type is mapped to the wrong fuel-flow/thrust model',
               line=ce.node.lineno)
        if ok:
            ctx.ob('C19-R6', ce, f'{want} built from the model\'s own parameter object', okp,
                   OBJ if okp else f'{got!r}: the engine model does not read the parameters of this aircraft',
                   line=ce.node.lineno, nontrivial=False)
    ctx.floor('C19-R6/dispatch', n, len(ENGINE_MODELS), 'engine types followed through create_engine_model')


def rule_assign_all(ctx):
    """R7: the coefficients the engine model reads are the ones that were assigned: assign_parameters_fromdict stores
    every entry of the dictionary, whatever its value (0.0 is a legitimate coefficient)."""
    from ..astutil import ancestors
    pm = ctx.prog.module(PARAMS)
    fi = pm.func('Bada3AircraftParameters.assign_parameters_fromdict')
    sets = [c for c in calls_in(fi.node) if call_name(c) == 'setattr']
    ctx.floor('C19-R7', len(sets), 1, 'setattr in assign_parameters_fromdict')
    for c in sets:
        lp = next((a for a in ancestors(c) if isinstance(a, (ast.For, ast.While))), None)
        inner = [norm(t) for t, pol, o in guards_of(stmt_of(c)) if lp is not None and any(a is lp for a in ancestors(o))]
        esc = [norm(t) for x in (ast.walk(lp) if lp is not None else []) if isinstance(x, (ast.Continue, ast.Break))
               for t, pol, o in guards_of(x)] if lp is not None else []
        has_esc = lp is not None and any(isinstance(x, (ast.Continue, ast.Break)) for x in ast.walk(lp))
        ok = lp is not None and not inner and not has_esc
        ctx.ob('C19-R7', fi, f'{norm(c)} for every entry', ok, 'unconditional in the loop over the dictionary' if ok else
               (f'entries are skipped when {inner or esc}: a coefficient that is legitimately zero (Ctc3, Ctc4, Ctc5 …) is not '
                'assigned, so the object keeps its previous value (or None) and thrust limits are evaluated with coefficients '
                'nobody supplied'), line=c.lineno)
        if lp is not None and len(c.args) == 3:
            key, val = norm(c.args[1]), norm(c.args[2])
            tgt = norm(lp.target).strip('()')
            ok2 = (tgt == key and val == f'{norm(lp.iter)}[{key}]') or (tgt == f'{key}, {val}' and norm(lp.iter).endswith('.items()'))
            ctx.ob('C19-R7', fi, f'setattr(self, {key}, {val})', ok2, 'each key receives its own value' if ok2 else
                   'key and value do not come from the same dictionary entry', line=c.lineno, nontrivial=False)


def run(ctx):
    rule_assign_all(ctx)
    rule_protocol(ctx)
    rule_thrust(ctx)
    rule_fuelflow(ctx)
    rule_update(ctx)
    rule_mtow(ctx)
    rule_equations(ctx)
    ctx.assumptions += ['scipy cumulative_trapezoid implements the trapezoid rule; numpy where/divide semantics',
                        'reference equations transcribed from the BADA 3 user manual (sections 3.2, 3.6, 3.7, 3.9)']
