"""C19 — BADA-3 fuel-burn integration keeps mass, thrust and fuel flow consistent.

R1  protocol conformance: every subscript / attribute / getattr access on
    `self.aircraft_parameters` is supported by Bada3AircraftParameters (declared
    field, method, or __getitem__ for subscripts).  A key that is looked up in a
    module-level table nobody changes (rating name -> parameter name) stands for
    every entry of the table: each must be a declared parameter.

R2-R4 are decided on the *resolved value* of a result: every local replaced by
the expression defining it at that point (a re-bound local and a chain of
single-assignment locals give the same tree), plain module-level helper
functions of the BADA package and `self.` helper methods the manual has no
equation for looked through, call arguments bound to the callee's parameters
(positional or keyword).  When a helper is opened for a literal argument
(`rating='cruise'`), tests on literals are decided and only the arm taken is
followed (if / elif, guard clauses, `match`, conditional expressions, `'k' in
TABLE`), look-ups of a literal key in a module-level table nobody changes are
replaced by the entry, getattr(x, 'name') is x.name, and a `try` whose handlers
all end in `raise` is its body.

R2  thrust shape: the returned thrust is np.where(T < 0, D, T) (or the `>= 0`
    mirror) where T - the same expression on both sides - is the total-energy
    thrust limited above by M (np.where in any of its four orientations, or
    np.minimum); M is max cruise thrust where in_cruise and max climb thrust
    otherwise; D is the high-altitude descent rating strictly above h_p_des
    compared in feet, the low-altitude rating otherwise; total-energy thrust is
    evaluated for drag(cd(cl(mass, rho, v_tas)), rho, v_tas), mass, v_tas,
    rocd, acceleration with rho from the ISA pressure at altitude and the
    temperature; all ratings at (altitude, v_tas, temperature).  A rating is
    recognised by name when it is the engine model's method of that name (R6
    compares the method with the manual), otherwise by value: engine-model calls
    are opened (one definition for all engine classes, literal arguments decide
    its dispatch) and the result must equal the manual's equation for that
    rating (3.7-8: Ctcr x max climb thrust, 3.7-9/10: Ctdes,high/low x max climb
    thrust) as an exact rational function, with every max-climb-thrust call in it
    at (altitude, v_tas, temperature).  np.clip /
    np.maximum with the descent thrust as a lower bound is a violation.  A guard
    clause that returns the limited thrust before the substitution is accepted
    only under a condition that says no element of that thrust is negative
    (not any(T < 0), all(T >= 0), min(T) >= 0); any other condition (no
    descending point, all cruise, ...) lets negative thrust escape: violation.
    An object that only files its constructor arguments (`profile = P(temperature, altitude, …)`: NamedTuple,
    dataclass, or an __init__ of `self.f = parameter` statements) gives back the argument at `profile.f` when nobody in
    the package stores to `.f` afterwards.  A compute-once call `profile.m('key', lambda: E)` is E when R8 (below)
    accepts the call site; otherwise R2 / R3 leave the verdict to R8 (or are undecided with it).
R3  cruise-only correction: specific ground range is np.divide(groundspeed, F,
    where=F != 0) with F = np.where(in_cruise, cruise fuel flow, nominal fuel
    flow), both from one thrust and v_tas, the thrust from calculate_thrust at
    the state passed in - the call, or the same value written out in place
    (equal, locals resolved, to what calculate_thrust returns for the
    parameters of the same names).
R4  trapezoid update: the single store to mass is mass[1:] = mass[0] −
    cumulative_trapezoid(1 / S, dx=segment_distance), backward mass[:-1] =
    mass[-1] + cumulative_trapezoid((1 / S) reversed, dx=…) reversed, with S the
    specific ground range floored: np.where(sgr < 1, np.inf, sgr).
R5  MTOW clamp: in the fuel-dependent initial-mass iterations mass[0] is only
    ever assigned from min(…, mtow); the two sibling iterations agree up to the
    reserve term.  And the vector is only handed back capped: at every `return`
    of the mass vector inside or after the iteration loop the last store to
    mass[0] on every path is that capped assignment (must-analysis over the
    statement structure: a new array or any other store to mass[0] un-caps, the
    forward update keeps mass[0], arms of a test are joined, a loop runs at least
    one pass and its body is judged for the state before the loop and for the
    state a pass leaves) - a convergence test that returns before the first
    pass has assigned the capped take-off mass hands back the caller's
    estimate, which may lie above MTOW.
R7  assign_parameters_fromdict assigns every entry it is given (no value-based
    skipping).
R9  flight state handed on as received: in every entry point of the iteration (a public method of Bada3FuelBurnModel
    that receives temperature, altitude, v_tas, rocd, acceleration, in_cruise, groundspeed and segment_distance), each
    evaluation of calculate_specific_ground_range - reached directly or through helpers of the package, with the
    arguments carried in locals, tuples, NamedTuples / dataclasses (positional or keyword construction, field reads,
    _replace, methods of the record), dicts, * / ** expansion - binds to each of the seven state parameters the entry
    point's own parameter of that name, unmodified (shape-preserving coercions aside); a parameter that arrives under
    another role (ground speed as true airspeed) is a violation.  The mass it is evaluated for is a mass vector computed in
    the function; every update_mass_vector[_backward] call receives the specific ground range evaluated for the mass
    vector it updates and the entry point's segment_distance.  An evaluation written out in place (the helper that took
    the state as an object was dissolved into the entry point) counts when the range handed to the update - resolved over
    the straight-line statements of its block, objects built once from the parameters included - equals, with one mass
    expression M throughout, what calculate_specific_ground_range returns for the entry point's own seven state
    parameters (none of them rebound to anything but itself); M must be the vector being updated.
    Decided by abstract interpretation over the CFG (values:
    parameter as received / record of values / result of call sites / specific ground range with its bound arguments;
    joins keep what all paths agree on).  Floors: four entry points, each with an evaluation and an update.
R8  a formula is a function of its arguments: a method of the model classes that can return something an earlier call
    left on the object (`self.x` written outside __init__, also through getattr / __dict__) must do so under a key,
    compared with the stored key, that determines by content every argument the computed answer reads; a key built
    from id(...) of an argument, or one that omits an argument that is read, is a violation.  An embedded
    last-result memo that leaves v_tas out of its key is the positive control.
    The same for a value that is not returned but gone on with: `self.a = V` under a test that a key differs from the one
    an earlier call stored (`key != self.k`, `not key == self.k`, `key not in self.k`, also as one alternative of an `or`)
    in a method that reads `self.a` - when the key is unchanged the method works with the V of the earlier call.  Every
    parameter V is computed from (through locals) must enter the key by content (itself, or all of it through asarray /
    tobytes / tuple / tolist ...): a parameter the key says nothing about, or an id(...) key, is a violation (R2 then leaves
    the verdict to R8); one that enters only as a length / shape / element is undecided.
    A compute-once accessor of any class of the package (`m(self, key, compute)`: whatever its control flow, every value
    it returns is `compute()` or the entry of one attribute S under `key`, and what it stores in S goes under `key`) is
    judged at each call site `obj.m('k', lambda: E)`: the answer is the one this call would compute when S is the
    object's own (created empty in the constructor / default_factory=dict, touched by nothing but the accessor), 'k' is a
    literal that every call site of the package pairs with the same computation, E reads only `obj` and `self`, and no
    field of the object is stored to after construction.  S bound in the class body only (one dictionary for all
    objects of the process), E reading a local that changes between calls on the same object (the mass), or one key
    standing for two computations is a violation; anything else that cannot be shown is undecided.
R6  equation conformance (T-ALG): the value every BADA-3 formula method returns - locals resolved, package helper
    functions looked through, and `self.m(...)` calls opened by substitution when every class the object can have finds
    the same definition of m - equals the independent transcription in reference_equations.py as an exact rational
    function.  Two readings, one equal suffices: (1) the methods the manual has symbols for (eta, maximum climb thrust)
    stay symbols on both sides; (2) they are opened too and the reference symbol is replaced by the manual's own
    equation for that engine class (so cruise flow may be written `nominal flow * Cfcr`, through eta, or spelled
    out).  `different` is taken from (1) only when both sides use the same symbols, else from (2); a rational code form
    against an equation with clip / maximum is a definite difference.  The non-ISA correction (3.7-4..7) is compared
    the same way with clip / maximum as opaque functions identified by the value of their arguments.  Of several
    returns, the one computed in the call is compared (stored answers are R8's; a return that cannot be reached - after
    an unconditional return, or under a test on literals that is false - does not count).
    Engine selection: `create_engine_model` is followed once per engine type
    with `aircraft_parameters.engine_type` bound to that string (partial
    evaluation over the CFG: if/elif, guard clauses, `match` with literal /
    or-patterns, dict of classes with [] / .get, conditional expressions, try /
    except KeyError, string methods; a `for` over a sequence whose items are
    known - a display of (name, class) pairs, a table or its items() / keys() /
    values(), enumerate / zip / reversed of those - walked item by item with
    break / continue / else / early return, a counting `while`, a comprehension
    or next(generator, default) over such a sequence, tuple indexing; calls of
    the package's own functions, static / class methods and of methods of the
    same object whose definition no subclass replaces are followed with the
    arguments bound, stores to self.* carried back); the value left in
    `self.engine_model` must be an instance of that type's model built from the
    model's own parameter object.
"""

from __future__ import annotations

import ast

from ..algebra import AlgebraError, module_constants
from ..astutil import (call_name, calls_in, guards_of, kwarg, norm, single_def_value, stmt_of,
                       stores_to, walk_no_nested)
from ..conform import code_normal_form, compare, ref_normal_form, returned_expr
from ..reference_equations import BADA3, BADA3_CALLS

MODEL = 'BADA/model.py'
PARAMS = 'BADA/aircraft_parameters.py'
BASE = 'BADA/fuel_burn_base.py'
OBJ = 'self.aircraft_parameters'


def _possible_keys(prog, module, fn, e, bound, depth=0):
    """the strings a key expression can be, when that is a closed set: a literal, an entry of a module-level table nobody
    changes (looked up by anything), a conditional expression of those, a local bound once to one of those; else None"""
    if isinstance(e, ast.Constant):
        return [e.value] if isinstance(e.value, str) else None
    if isinstance(e, ast.IfExp):
        a, b = (_possible_keys(prog, module, fn, x, bound, depth) for x in (e.body, e.orelse))
        return None if a is None or b is None else a + b
    if isinstance(e, ast.Name) and depth < 4:
        v = single_def_value(fn, e.id)
        return _possible_keys(prog, module, fn, v, bound, depth + 1) if v is not None else None
    t = None
    if isinstance(e, ast.Subscript) and isinstance(e.value, ast.Name) and e.value.id not in bound:
        t = _literal_table(prog, module, e.value.id)
    elif isinstance(e, ast.Call) and isinstance(e.func, ast.Attribute) and e.func.attr == 'get' and len(e.args) == 1 \
            and isinstance(e.func.value, ast.Name) and e.func.value.id not in bound:
        t = _literal_table(prog, module, e.func.value.id)
    if t is not None:
        vals = t.values if isinstance(t, ast.Dict) else t.elts
        if vals and all(isinstance(v, ast.Constant) and isinstance(v.value, str) for v in vals):
            return [v.value for v in vals]
    return None


def rule_protocol(ctx):
    prog = ctx.prog
    pm = prog.module(PARAMS)
    pc = pm.cls('Bada3AircraftParameters')
    fields = set(pc.all_fields())
    methods = {k for c in pc.mro() for k in c.methods}
    has_getitem = '__getitem__' in methods
    mods = [prog.module(MODEL)]
    if ctx.tier == 'thorough':
        mods.append(prog.module('BADA/helper_functions.py'))
    n = 0
    for m in mods:
        for fi in m.functions.values():
            bound = _bound_names(fi.node)
            for x in walk_no_nested(fi.node):
                if isinstance(x, ast.Subscript) and norm(x.value) == OBJ:
                    n += 1
                    keys = _possible_keys(prog, m, fi.node, x.slice, bound)
                    bad = [k_ for k_ in (keys or []) if k_ not in fields]
                    ok = has_getitem and not bad
                    ctx.ob('C19-R1', fi, f"{OBJ}[{norm(x.slice)[:50]}]", ok,
                           'item access supported and names a declared parameter' if ok else
                           ("Bada3AircraftParameters is a dataclass without __getitem__: the model raises "
                            "TypeError on the library's own parameter object" if not has_getitem else
                            f'`{bad[0]}` is not a declared parameter'), line=x.lineno)
                elif isinstance(x, ast.Attribute) and norm(x.value) == OBJ:
                    n += 1
                    ok = x.attr in fields or x.attr in methods
                    ctx.ob('C19-R1', fi, f'{OBJ}.{x.attr}', ok,
                           'declared parameter' if ok else f'`{x.attr}` is not declared on Bada3AircraftParameters',
                           line=x.lineno, nontrivial=False)
                elif isinstance(x, ast.Call) and isinstance(x.func, ast.Name) and x.func.id == 'getattr' and 'getattr' not in bound \
                        and len(x.args) >= 2 and norm(x.args[0]) == OBJ:
                    n += 1
                    keys = _possible_keys(prog, m, fi.node, x.args[1], bound)
                    bad = [k_ for k_ in (keys or []) if k_ not in fields and k_ not in methods]
                    ok = not bad or len(x.args) == 3
                    ctx.ob('C19-R1', fi, f'getattr({OBJ}, {norm(x.args[1])[:50]})', ok,
                           'declared parameter' if ok else f'`{bad[0]}` is not declared on Bada3AircraftParameters',
                           line=x.lineno, nontrivial=False)
    ctx.floor('C19-R1', n, 20, 'accesses of the parameter object')
    gi = pc.find_method('__getitem__')
    if gi is not None:
        r = returned_expr(gi.node)
        ok = r is not None and norm(r) in ('getattr(self, key)', 'self.__dict__[key]', 'vars(self)[key]')
        ctx.ob('C19-R1', gi, '__getitem__ returns the attribute of that name', ok,
               norm(r) if ok else 'item access does not return the parameter of that name')


# --- value flow of straight-line functions ---------------------------------------------------------------
#
# R2-R4 are statements about which value flows where ("the thrust that is tested against zero is the capped
# total-energy thrust").  They are decided on the *resolved* expression of a result: every local replaced by the
# expression that defines it at that point (a re-bound local and a chain of single-assignment locals resolve to the
# same tree), and calls of plain module-level helper functions of the BADA package replaced by what they return.

def _clone(n):
    if isinstance(n, ast.AST):
        new = n.__class__()
        for f in n._fields:
            setattr(new, f, _clone(getattr(n, f, None)))
        for a in ('lineno', 'col_offset', 'end_lineno', 'end_col_offset'):
            if hasattr(n, a):
                setattr(new, a, getattr(n, a))
        return new
    if isinstance(n, list):
        return [_clone(x) for x in n]
    return n


class _Subst(ast.NodeTransformer):
    def __init__(self, env):
        self.env = env

    def visit_Name(self, n):
        if isinstance(n.ctx, ast.Load) and n.id in self.env:
            return _clone(self.env[n.id])
        return n


def _fn_params(fn, drop_self):
    a = fn.args
    ps = [x.arg for x in a.posonlyargs + a.args]
    if drop_self and ps and ps[0] in ('self', 'cls'):
        ps = ps[1:]
    return ps, [x.arg for x in a.kwonlyargs]


def bind_args(call: ast.Call, fn, drop_self: bool):
    """param name -> argument expression of `call` for callee `fn` (None if it cannot be bound)"""
    if any(isinstance(a, ast.Starred) for a in call.args) or any(k.arg is None for k in call.keywords):
        return None
    ps, kwonly = _fn_params(fn, drop_self)
    if len(call.args) > len(ps):
        return None
    out = dict(zip(ps, call.args))
    for k in call.keywords:
        if k.arg in out or k.arg not in ps + kwonly:
            return None
        out[k.arg] = k.value
    a = fn.args
    npos = len(a.posonlyargs + a.args)
    allpos = [x.arg for x in a.posonlyargs + a.args]
    for name, d in zip(allpos[npos - len(a.defaults):], a.defaults):
        out.setdefault(name, d)
    for x, d in zip(a.kwonlyargs, a.kw_defaults):
        if d is not None:
            out.setdefault(x.arg, d)
    if any(p not in out for p in ps + kwonly):
        return None
    return out


def _bound_names(fn):
    """every name the function binds (parameters, assignment / loop / with / except / import targets, nested defs)"""
    a = fn.args
    out = {x.arg for x in a.posonlyargs + a.args + a.kwonlyargs}
    out |= {x.arg for x in (a.vararg, a.kwarg) if x is not None}
    for x in walk_no_nested(fn):
        if isinstance(x, ast.Name) and isinstance(x.ctx, (ast.Store, ast.Del)):
            out.add(x.id)
        elif isinstance(x, (ast.FunctionDef, ast.AsyncFunctionDef, ast.ClassDef)) and x is not fn:
            out.add(x.name)
        elif isinstance(x, ast.ExceptHandler) and x.name:
            out.add(x.name)
        elif isinstance(x, (ast.Import, ast.ImportFrom)):
            out |= {(al.asname or al.name).split('.')[0] for al in x.names}
    return out


_READ_ONLY_METHODS = ('get', 'keys', 'values', 'items', 'copy', 'index', 'count')


def _literal_table(prog, module, name):
    """the display a module-level name is bound to, when it is a table nobody changes: bound once to a dict / tuple / list
    display, and every other mention of the name in the program's modules that can see it is a read (subscript load,
    read-only method, membership test, iteration, len)"""
    cache = prog.__dict__.setdefault('_c19_tables', {})
    r = prog.resolve_name(module, name)
    if not (isinstance(r, tuple) and r[0] == 'const'):
        return None
    home, nm = r[1], r[2]
    key = (home.relpath, nm)
    if key in cache:
        return cache[key]
    cache[key] = None
    v = home.constants.get(nm)
    if not isinstance(v, (ast.Dict, ast.Tuple, ast.List)):
        return None
    if isinstance(v, ast.Dict) and not all(isinstance(k, ast.Constant) for k in v.keys):
        return None
    ndefs = 0
    for m in prog.src_modules():
        if m is not home and not any(d.endswith('.' + nm) or d == nm for d in m.imports.values()):
            continue
        local = nm if m is home else next((a for a, d in m.imports.items() if d.endswith('.' + nm)), None)
        if local is None:
            continue
        parents = {}
        for x in ast.walk(m.tree):
            for ch in ast.iter_child_nodes(x):
                parents[id(ch)] = x
        for x in ast.walk(m.tree):
            if not (isinstance(x, ast.Name) and x.id == local):
                continue
            if isinstance(x.ctx, ast.Store):
                ndefs += 1
                continue
            if isinstance(x.ctx, ast.Del):
                return None
            par = parents.get(id(x))
            if isinstance(par, ast.Subscript) and par.value is x and isinstance(par.ctx, ast.Load):
                continue
            if isinstance(par, ast.Attribute) and par.value is x and par.attr in _READ_ONLY_METHODS:
                continue
            if isinstance(par, ast.Compare) and x in par.comparators and all(isinstance(o, (ast.In, ast.NotIn)) for o in par.ops):
                continue
            if isinstance(par, (ast.For, ast.comprehension)) and par.iter is x:
                continue
            if isinstance(par, ast.Call) and isinstance(par.func, ast.Name) and par.func.id in ('len', 'sorted', 'list', 'tuple', 'set', 'frozenset', 'dict'):
                continue
            return None
    if ndefs != 1:
        return None
    cache[key] = v
    return v


def fold_tables(prog, module, e, bound=()):
    """`e` with look-ups of a literal key in a module-level table nobody changes replaced by the entry: TABLE['k'],
    TABLE.get('k'[, d]), TUPLE[2], 'k' in TABLE; `a if <test on literals> else b` by the arm taken; getattr(x, 'name') by x.name.  A key
    the table does not have is left as written (the look-up raises / defaults)."""
    class T(ast.NodeTransformer):
        def visit_Compare(self, n):
            n = self.generic_visit(n)
            if len(n.ops) == 1 and isinstance(n.ops[0], (ast.In, ast.NotIn)) and isinstance(n.left, ast.Constant) \
                    and isinstance(n.comparators[0], ast.Name) and n.comparators[0].id not in bound:
                t = _literal_table(prog, module, n.comparators[0].id)
                members = None if t is None else (t.keys if isinstance(t, ast.Dict) else t.elts)
                if members is not None and all(isinstance(x, ast.Constant) for x in members):
                    try:
                        r = any(x.value == n.left.value and type(x.value) is type(n.left.value) for x in members)
                    except Exception:
                        return n
                    return ast.copy_location(ast.Constant(r == isinstance(n.ops[0], ast.In)), n)
            return n

        def visit_IfExp(self, n):
            n = self.generic_visit(n)
            t = const_truth(n.test)
            return n if t is None else (n.body if t else n.orelse)

        def visit_Subscript(self, n):
            n = self.generic_visit(n)
            if isinstance(n.ctx, ast.Load) and isinstance(n.value, ast.Name) and n.value.id not in bound and isinstance(n.slice, ast.Constant):
                t = _literal_table(prog, module, n.value.id)
                k = n.slice.value
                if isinstance(t, ast.Dict):
                    hits = [v for kk, v in zip(t.keys, t.values) if type(kk.value) is type(k) and kk.value == k]
                    if hits:
                        return _clone(hits[-1])
                elif t is not None and isinstance(k, int) and not isinstance(k, bool) and -len(t.elts) <= k < len(t.elts) \
                        and not any(isinstance(x, ast.Starred) for x in t.elts):
                    return _clone(t.elts[k])
            return n

        def visit_Call(self, n):
            n = self.generic_visit(n)
            f = n.func
            if isinstance(f, ast.Name) and f.id == 'getattr' and 'getattr' not in bound and len(n.args) == 2 and not n.keywords \
                    and isinstance(n.args[1], ast.Constant) and isinstance(n.args[1].value, str) and n.args[1].value.isidentifier():
                return ast.copy_location(ast.Attribute(value=n.args[0], attr=n.args[1].value, ctx=ast.Load()), n)
            if isinstance(f, ast.Attribute) and f.attr == 'get' and isinstance(f.value, ast.Name) and f.value.id not in bound \
                    and 1 <= len(n.args) <= 2 and not n.keywords and isinstance(n.args[0], ast.Constant):
                t = _literal_table(prog, module, f.value.id)
                if isinstance(t, ast.Dict):
                    k = n.args[0].value
                    hits = [v for kk, v in zip(t.keys, t.values) if type(kk.value) is type(k) and kk.value == k]
                    if hits:
                        return _clone(hits[-1])
                    return _clone(n.args[1]) if len(n.args) == 2 else ast.copy_location(ast.Constant(None), n)
            return n

    return T().visit(e)


def const_truth(e):
    """truth value of a test made of literals only (comparisons, membership in a literal display, and / or / not), else None"""
    try:
        if isinstance(e, ast.Constant):
            return bool(e.value)
        if isinstance(e, ast.UnaryOp) and isinstance(e.op, ast.Not):
            t = const_truth(e.operand)
            return None if t is None else not t
        if isinstance(e, ast.BoolOp):
            ts = [const_truth(v) for v in e.values]
            if isinstance(e.op, ast.And):
                return False if any(t is False for t in ts) else (None if any(t is None for t in ts) else True)
            return True if any(t is True for t in ts) else (None if any(t is None for t in ts) else False)
        if isinstance(e, ast.Compare):
            vals = [ast.literal_eval(x) for x in [e.left] + list(e.comparators)]
            for op, a, b in zip(e.ops, vals, vals[1:]):
                if isinstance(op, ast.Eq):
                    r = a == b
                elif isinstance(op, ast.NotEq):
                    r = a != b
                elif isinstance(op, ast.In):
                    r = a in b
                elif isinstance(op, ast.NotIn):
                    r = a not in b
                elif isinstance(op, (ast.Is, ast.IsNot)) and (a is None or b is None or isinstance(a, bool) or isinstance(b, bool)):
                    r = (a is b) == isinstance(op, ast.Is)
                else:
                    return None
                if not r:
                    return False
            return True
    except (ValueError, TypeError, SyntaxError, MemoryError, RecursionError):
        return None
    return None


def _match_arm(s: ast.Match, subject):
    """the body `match` runs for a literal subject (value / or / wildcard patterns without guards), else None"""
    if not isinstance(subject, ast.Constant):
        return None

    def hit(p):
        if isinstance(p, ast.MatchValue):
            return (p.value.value == subject.value and type(p.value.value) is type(subject.value)) if isinstance(p.value, ast.Constant) else None
        if isinstance(p, ast.MatchSingleton):
            return p.value is subject.value
        if isinstance(p, ast.MatchOr):
            rs = [hit(x) for x in p.patterns]
            return True if any(r is True for r in rs) else (None if any(r is None for r in rs) else False)
        if isinstance(p, ast.MatchAs) and p.pattern is None and p.name is None:
            return True
        return None
    for c in s.cases:
        r = hit(c.pattern)
        if r is None or c.guard is not None:
            return None
        if r:
            return c.body
    return []


# --- objects that carry the flight state, and answers kept on them -------------------------------------------
#
# A refactoring may bundle the flight state in an object (`profile = Profile(temperature, altitude, ...)`) and keep
# quantities derived from it on that object (`profile.derived('max_thrust', lambda: self._max_thrust(profile))`).
# A field read of such an object *is* the constructor argument when nobody stores to the field after construction;
# a compute-once call *is* its thunk when the store it answers from belongs to this one object (created empty in its
# constructor, touched by nobody else), the key is a literal that every call site pairs with the same computation,
# and the computation reads nothing but the object itself and `self` - then an earlier answer under that key on that
# object is the answer computed now.

def _package_modules(prog):
    return [m for m in prog.src_modules() if m.relpath.startswith('src/AEIC/BADA/')]


def _attr_mentions(prog):
    """attribute name -> [(module, class name or None, function name or None, node, parent)] for every `x.attr` in the
    BADA package (cached per program)"""
    cache = prog.__dict__.get('_c19_attr_mentions')
    if cache is not None:
        return cache
    cache = {}

    def visit(m, n, cls, fn, parent):
        if isinstance(n, ast.ClassDef):
            cls, fn = n.name, None
        elif isinstance(n, (ast.FunctionDef, ast.AsyncFunctionDef)):
            fn = fn or n.name
        if isinstance(n, ast.Attribute):
            cache.setdefault(n.attr, []).append((m, cls, fn, n, parent))
        for ch in ast.iter_child_nodes(n):
            visit(m, ch, cls, fn, n)
    for m in _package_modules(prog):
        visit(m, m.tree, None, None, None)
    prog.__dict__['_c19_attr_mentions'] = cache
    return cache


_MUTATORS = ('append', 'extend', 'insert', 'pop', 'popitem', 'clear', 'update', 'setdefault', 'remove', 'sort', 'reverse',
             'fill', 'resize', 'put', 'itemset', '__setitem__', '__delitem__', 'add', 'discard')


def _is_write(n, parent):
    """the attribute node `n` is stored to, deleted, element-stored, augmented or mutated through a method"""
    if isinstance(n.ctx, (ast.Store, ast.Del)):
        return True
    if isinstance(parent, ast.Subscript) and parent.value is n and isinstance(parent.ctx, (ast.Store, ast.Del)):
        return True
    if isinstance(parent, ast.Attribute) and parent.value is n and parent.attr in _MUTATORS:
        return True
    return False


def _field_frozen(prog, k, field):
    """nobody in the package stores to `.field` of any object, the constructor of `k` (on self) aside"""
    for m, cls, fn, n, parent in _attr_mentions(prog).get(field, ()):
        if not _is_write(n, parent):
            continue
        if cls == k.name and m is k.module and fn in ('__init__', '__post_init__') and isinstance(n.value, ast.Name) and n.value.id == 'self':
            continue
        return False
    return True


def _simple_arg(e):
    return isinstance(e, (ast.Name, ast.Constant)) or (isinstance(e, ast.Attribute) and _simple_arg(e.value))


def ctor_fields(prog, module, call):
    """{field: constructor argument} for `K(args)` with K a class of the program whose construction only files its
    arguments: a NamedTuple / dataclass without __init__, or an __init__ whose top-level statements `self.f = <parameter>`
    are followed; only fields nobody stores to afterwards are given.  -> (class, mapping) or None"""
    if not isinstance(call, ast.Call):
        return None
    k = prog.resolve_class_expr(module, call.func)
    if k is None:
        return None
    out = {}
    rf = _record_fields(prog, module, call.func)
    if rf is not None:
        names = [n for n, _ in rf[1]]
        if any(isinstance(a, ast.Starred) for a in call.args) or any(kw.arg is None for kw in call.keywords) or len(call.args) > len(names):
            return None
        out = dict(zip(names, call.args))
        for kw in call.keywords:
            if kw.arg in out or kw.arg not in names:
                return None
            out[kw.arg] = kw.value
        for n, d in rf[1]:
            if n not in out and isinstance(d, ast.Constant):
                out[n] = d
    else:
        init = k.find_method('__init__')
        if init is None or init.node.decorator_list or k.find_method('__new__') is not None \
                or k.find_method('__getattr__') is not None or k.find_method('__getattribute__') is not None:
            return None
        b = bind_args(call, init.node, True)
        if b is None:
            return None
        rebound = {x.id for x in walk_no_nested(init.node) if isinstance(x, ast.Name) and isinstance(x.ctx, (ast.Store, ast.Del))}
        seen = set()
        for st in init.node.body:
            tv = None
            if isinstance(st, ast.Assign) and len(st.targets) == 1:
                tv = (st.targets[0], st.value)
            elif isinstance(st, ast.AnnAssign) and st.value is not None:
                tv = (st.target, st.value)
            if tv is None:
                continue
            t, v = tv
            if isinstance(t, ast.Attribute) and isinstance(t.value, ast.Name) and t.value.id == 'self':
                if t.attr in seen:
                    out.pop(t.attr, None)
                    continue
                seen.add(t.attr)
                if isinstance(v, ast.Name) and v.id in b and v.id not in rebound:
                    out[t.attr] = b[v.id]
        # a field stored under a branch / loop of the constructor is not a plain copy of the argument
        for x in walk_no_nested(init.node):
            if isinstance(x, ast.Attribute) and isinstance(x.ctx, (ast.Store, ast.Del)) and isinstance(x.value, ast.Name) \
                    and x.value.id == 'self' and x.attr in out \
                    and not any(x is (st.targets[0] if isinstance(st, ast.Assign) else getattr(st, 'target', None)) for st in init.node.body):
                out.pop(x.attr, None)
    props = {n for c in k.mro() for n in c.methods}
    out = {f: a for f, a in out.items() if f not in props and _simple_arg(a) and _field_frozen(prog, k, f)}
    return k, out


def fold_record_reads(prog, module, e):
    """`e` with `K(args).field` replaced by the argument the constructor files under that field (see ctor_fields)"""
    class T(ast.NodeTransformer):
        def visit_Attribute(self, n):
            n = self.generic_visit(n)
            if isinstance(n.ctx, ast.Load) and isinstance(n.value, ast.Call):
                cf = ctor_fields(prog, module, n.value)
                if cf is not None and n.attr in cf[1]:
                    return _clone(cf[1][n.attr])
            return n
    if not any(isinstance(x, ast.Attribute) and isinstance(x.value, ast.Call) for x in ast.walk(e)):
        return e
    return T().visit(e)


def memo_method(f):
    """Is method `f(self, key, compute)` a compute-once accessor?  Every value it returns is `compute()` evaluated now or
    the entry of one instance attribute S under `key`, and everything it stores in S goes under `key` and is such a value
    - whatever the control flow (if absent / try-except KeyError / .get and test).  -> {'store', 'key', 'thunk'} or None"""
    node = f.node
    ps = f.params
    a = node.args
    if f.cls is None or len(ps) != 3 or ps[0] != 'self' or a.vararg or a.kwarg or a.kwonlyargs or node.decorator_list:
        return None
    thunks = {c.func.id for c in calls_in(node) if isinstance(c.func, ast.Name) and c.func.id in ps[1:] and not c.args and not c.keywords}
    if len(thunks) != 1:
        return None
    thunk = next(iter(thunks))
    key = next(p_ for p_ in ps[1:] if p_ != thunk)
    stores = set()

    def entry(e):
        """attribute S when `e` is self.S[key] / self.S.get(key[, None])"""
        if isinstance(e, ast.Subscript) and norm(e.slice) == key and isinstance(e.value, ast.Attribute) and norm(e.value.value) == 'self':
            return e.value.attr
        if isinstance(e, ast.Call) and isinstance(e.func, ast.Attribute) and e.func.attr == 'get' and not e.keywords \
                and isinstance(e.func.value, ast.Attribute) and norm(e.func.value.value) == 'self' and e.args and norm(e.args[0]) == key \
                and (len(e.args) == 1 or (len(e.args) == 2 and norm(e.args[1]) == 'None')):
            return e.func.value.attr
        return None

    def fresh(e):
        return isinstance(e, ast.Call) and isinstance(e.func, ast.Name) and e.func.id == thunk

    locals_ok = set()
    for x in walk_no_nested(node):
        if isinstance(x, ast.Name) and isinstance(x.ctx, ast.Store):
            locals_ok.add(x.id)
    if key in locals_ok or thunk in locals_ok:
        return None

    def value_ok(e):
        if fresh(e) or (isinstance(e, ast.Name) and e.id in locals_ok):
            return True
        s = entry(e)
        if s is not None:
            stores.add(s)
            return True
        return False

    nret = nstore = 0
    for x in walk_no_nested(node):
        if isinstance(x, ast.Call):
            if not (fresh(x) or entry(x) is not None):
                return None
        elif isinstance(x, (ast.Assign, ast.AnnAssign)):
            if x.value is None:
                continue
            if not value_ok(x.value):
                return None
            for t in (x.targets if isinstance(x, ast.Assign) else [x.target]):
                if isinstance(t, ast.Name):
                    continue
                s = entry(t) if isinstance(t, ast.Subscript) else None
                if s is None:
                    return None
                stores.add(s)
                nstore += 1
        elif isinstance(x, ast.Return):
            if x.value is None or not value_ok(x.value):
                return None
            nret += 1
        elif isinstance(x, (ast.AugAssign, ast.Delete, ast.For, ast.While, ast.With, ast.Global, ast.Nonlocal, ast.Yield, ast.YieldFrom,
                            ast.Await, ast.Lambda, ast.FunctionDef, ast.AsyncFunctionDef, ast.ClassDef, ast.NamedExpr)) and x is not node:
            return None
    if len(stores) != 1 or not nret or not nstore:
        return None
    return {'store': next(iter(stores)), 'key': key, 'thunk': thunk}


def _memo_methods(prog):
    """method name -> [(class, FunctionInfo, description)] of the compute-once accessors of the package"""
    cache = prog.__dict__.get('_c19_memo_methods')
    if cache is None:
        cache = {}
        for m in _package_modules(prog):
            for k in m.classes.values():
                for nm, f in k.methods.items():
                    d = memo_method(f)
                    if d is not None:
                        cache.setdefault(nm, []).append((k, f, d))
        prog.__dict__['_c19_memo_methods'] = cache
    return cache


def _store_ownership(prog, k, f, d):
    """Whose is the store `self.S` a compute-once accessor answers from?  -> ('instance', why) when every object gets its
    own empty one in the constructor and nothing but the accessor touches it; ('shared', why, line) when it is created
    once for the class; ('unknown', why)"""
    S = d['store']
    fresh_init = False
    for c in k.mro():
        init = c.methods.get('__init__') or c.methods.get('__post_init__')
        if init is None:
            continue
        for st in init.node.body:
            t, v = (st.targets[0], st.value) if isinstance(st, ast.Assign) and len(st.targets) == 1 else \
                ((st.target, st.value) if isinstance(st, ast.AnnAssign) else (None, None))
            if t is not None and v is not None and norm(t) == f'self.{S}' and norm(v) in ('{}', 'dict()'):
                fresh_init = True
    class_level = None
    is_dc = any(norm(x).split('(')[0].split('.')[-1] == 'dataclass' for x in k.node.decorator_list)
    for c in k.mro():
        for st in c.node.body:
            t, v = (st.targets[0], st.value) if isinstance(st, ast.Assign) and len(st.targets) == 1 else \
                ((st.target, st.value) if isinstance(st, ast.AnnAssign) else (None, None))
            if isinstance(t, ast.Name) and t.id == S and v is not None:
                if is_dc and isinstance(v, ast.Call) and call_name(v).split('.')[-1] == 'field' and kwarg(v, 'default_factory') is not None \
                        and norm(kwarg(v, 'default_factory')) == 'dict' and 'ClassVar' not in norm(getattr(st, 'annotation', None) or ast.Constant(0)):
                    fresh_init = True
                else:
                    class_level = st
    for m, cls, fn, n, parent in _attr_mentions(prog).get(S, ()):
        inside = m is f.module and cls == k.name and fn in (f.name, '__init__', '__post_init__') and norm(n.value) == 'self'
        if not inside:
            return ('unknown', f'`.{S}` is also used at {m.relpath}:{n.lineno}')
    if fresh_init:
        return ('instance', f'`self.{S}` is created empty for each object')
    if class_level is not None:
        return ('shared', f'`{S}` is bound once in the body of class {k.name} (`{norm(class_level)[:40]}`) and no constructor gives an '
                f'object a store of its own, so `self.{S}` is one dictionary shared by every {k.name} of the process', class_level.lineno)
    return ('unknown', f'`self.{S}` is not created in the constructor')


def _receiver_class(prog, fi, e):
    """class of the object `e` (a name of function fi) when that is evident: bound once to K(...), or a parameter
    annotated K"""
    if isinstance(e, ast.Call):
        return prog.resolve_class_expr(fi.module, e.func)
    if not isinstance(e, ast.Name):
        return None
    if e.id == 'self' and fi.cls is not None and fi.params[:1] == ['self']:
        return fi.cls
    a = fi.node.args
    for p_ in a.posonlyargs + a.args + a.kwonlyargs:
        if p_.arg == e.id and p_.annotation is not None:
            ann = p_.annotation
            if isinstance(ann, ast.Constant) and isinstance(ann.value, str):
                try:
                    ann = ast.parse(ann.value, mode='eval').body
                except SyntaxError:
                    return None
            return prog.resolve_class_expr(fi.module, ann)
    v = single_def_value(fi.node, e.id)
    if isinstance(v, ast.Call):
        return prog.resolve_class_expr(fi.module, v.func)
    return None


def memo_calls(prog, fi):
    """[(call, class, accessor, description)] for the calls of compute-once accessors in function fi"""
    mm = _memo_methods(prog)
    out = []
    if not mm:
        return out
    for c in ast.walk(fi.node):
        if isinstance(c, ast.Call) and isinstance(c.func, ast.Attribute) and c.func.attr in mm:
            k = _receiver_class(prog, fi, c.func.value)
            for kk, f, d in mm[c.func.attr]:
                if k is not None and any(b is kk for b in k.mro()) and k.find_method(c.func.attr) == f:
                    out.append((c, kk, f, d))
    return out


def _thunk_text(recv, lam):
    """the computation with the receiver's name masked (call sites name the same object differently)"""
    body = _clone(lam.body)
    if isinstance(recv, ast.Name):
        for x in ast.walk(body):
            if isinstance(x, ast.Name) and x.id == recv.id:
                x.id = '<receiver>'
    return norm(body)


def memo_site(prog, fi, c, k, f, d):
    """Verdict on one call `recv.m(key, lambda: E)` of a compute-once accessor: ('ok', E) when the answer kept on the object is
    the answer computed now; ('bad', why) when it is established that it can be another one; ('undecided', why)"""
    b = bind_args(c, f.node, True)
    if b is None:
        return 'undecided', 'arguments cannot be bound'
    key, lam = b[d['key']], b[d['thunk']]
    recv = c.func.value
    if not (isinstance(lam, ast.Lambda) and not (lam.args.args or lam.args.posonlyargs or lam.args.kwonlyargs or lam.args.vararg or lam.args.kwarg)):
        return 'undecided', f'the computation handed to {f.name} is not a lambda without parameters'
    if not isinstance(recv, ast.Name):
        return 'undecided', 'the object the answer is kept on is not a plain name'
    bound = _bound_names(fi.node)
    inner = {x.id for x in ast.walk(lam.body) if isinstance(x, ast.Name) and isinstance(x.ctx, ast.Store)} | \
        {a_.arg for x in ast.walk(lam.body) if isinstance(x, ast.Lambda) for a_ in x.args.args}
    reads = sorted({x.id for x in ast.walk(lam.body) if isinstance(x, ast.Name) and x.id in bound and x.id not in inner}
                   - {'self', 'cls', recv.id})
    own = _store_ownership(prog, k, f, d)
    if own[0] == 'shared':
        return 'bad', (f'{own[1]}: `{norm(c)[:70]}` hands out what the first {k.name} of the process computed under '
                       f'{norm(key)} - the flight state of an earlier call, not the one passed in')
    if reads:
        return 'bad', (f'`{norm(c)[:70]}` keeps the answer on `{recv.id}` under the key {norm(key)} alone, but the computation also reads '
                       f'`{reads[0]}`, which changes between calls on the same `{recv.id}`: later calls get the answer computed for an earlier `{reads[0]}`')
    if own[0] != 'instance':
        return 'undecided', own[1]
    if not (isinstance(key, ast.Constant) and isinstance(key.value, str)):
        return 'undecided', f'the key `{norm(key)[:40]}` is not a literal'
    mine = _thunk_text(recv, lam)
    for m in _package_modules(prog):
        for g in m.functions.values():
            if '.<locals>.' in g.qualname:
                continue
            for c2, k2, f2, d2 in memo_calls(prog, g):
                if f2 != f:
                    continue
                b2 = bind_args(c2, f.node, True)
                if b2 is None or not isinstance(b2[d['key']], ast.Constant) or not isinstance(b2[d['thunk']], ast.Lambda):
                    return 'undecided', f'another call of {f.name} (line {c2.lineno}) has a key or a computation that cannot be read'
                if b2[d['key']].value == key.value and _thunk_text(c2.func.value, b2[d['thunk']]) != mine:
                    return 'bad', (f'the key {norm(key)} stands for `{mine[:50]}` here and for `{_thunk_text(c2.func.value, b2[d["thunk"]])[:50]}` '
                                   f'at line {int(-(-c2.lineno // 1))}: whichever runs first on an object answers for both')
    # what the computation reads of the object must stay as constructed
    for x in ast.walk(lam.body):
        if isinstance(x, ast.Attribute) and isinstance(x.value, ast.Name) and x.value.id == recv.id and not _field_frozen(prog, k, x.attr):
            return 'undecided', f'`{recv.id}.{x.attr}` is stored to after construction'
    cf_fields = set()
    init = k.find_method('__init__')
    if init is not None:
        from ..resolve import self_attr_stores
        cf_fields = {a for a, _s, _h in self_attr_stores(init)}
    for fld in cf_fields - {d['store']}:
        if not _field_frozen(prog, k, fld):
            return 'undecided', f'field `{fld}` of {k.name} is stored to after construction'
    return 'ok', lam.body


def reduce_memo_calls(prog, fi, e, notes):
    """`e` with every compute-once call whose verdict is 'ok' replaced by its computation; the others are listed in
    `notes` as (call, verdict, why)"""
    sites = {id(c): (c, k, f, d) for c, k, f, d in memo_calls(prog, fi)}
    if not sites or not any(id(x) in sites for x in ast.walk(e)):
        return e

    def cp(n):
        if isinstance(n, ast.AST):
            s = sites.get(id(n))
            if s is not None:
                vc = prog.__dict__.setdefault('_c19_site_verdicts', {})
                if id(n) not in vc:
                    vc[id(n)] = (n, memo_site(prog, fi, *s))
                v, x = vc[id(n)][1]
                if v == 'ok':
                    return cp(x)
                notes.append((s[0], v, x))
            new = n.__class__()
            for f_ in n._fields:
                setattr(new, f_, cp(getattr(n, f_, None)))
            for a in ('lineno', 'col_offset', 'end_lineno', 'end_col_offset'):
                if hasattr(n, a):
                    setattr(new, a, getattr(n, a))
            return new
        if isinstance(n, list):
            return [cp(x) for x in n]
        return n
    return cp(e)


class Flow:
    """Resolved values of a function whose body is straight-line (assignments, expression statements, one return).
    Names bound under a branch or a loop, or by an unpacking that is not element-wise, stay opaque (they resolve to
    themselves)."""

    def __init__(self, prog, fi, inline=True, _depth=0, methods=False, keep=(), consts=None):
        """methods: also open `self.m(...)` calls of methods whose dispatch is certain (see _inlinable); keep: method
        names that stay calls (they are symbols of the reference equations); consts: parameters known to be a literal
        at the call being opened (`rating='cruise'`) - tests on them are decided and only the arm taken is followed"""
        self.prog, self.fi, self.inline, self.depth = prog, fi, inline, _depth
        self.methods, self.keep = methods, frozenset(keep)
        self.env: dict[str, ast.expr] = dict(consts or {})
        self.bound = _bound_names(fi.node)
        self.done = False            # a return / raise on the one path followed has been reached
        self.raises = False          # ... and it was a raise
        self.stores: list[tuple[ast.expr, ast.expr, ast.stmt]] = []   # (target, resolved value, stmt)
        self.ret = None
        self.returns = 0
        self.straight = True
        # guard clauses `if c: [assignments]; return v` at the top level: (resolved c, resolved v, the if statement); the
        # function goes on straight-line after them with the values it had before
        self.early: list[tuple[ast.expr, ast.expr | None, ast.stmt]] = []
        # compute-once calls that could not be replaced by their computation: (call, 'bad' | 'undecided', why)
        self.memo_open: list[tuple[ast.Call, str, str]] = []
        for s in fi.node.body:
            self._stmt(s)

    def resolve(self, e):
        e = reduce_memo_calls(self.prog, self.fi, e, self.memo_open)
        e = _Subst(self.env).visit(_clone(e))
        e = fold_tables(self.prog, self.fi.module, e, self.bound)
        e = self._inline_calls(e) if self.inline else e
        return fold_record_reads(self.prog, self.fi.module, e)

    def _bind(self, t, v):
        if isinstance(t, ast.Name):
            self.env[t.id] = v
        elif isinstance(t, (ast.Tuple, ast.List)):
            if isinstance(v, (ast.Tuple, ast.List)) and len(v.elts) == len(t.elts) \
                    and not any(isinstance(x, ast.Starred) for x in list(t.elts) + list(v.elts)):
                for a, b in zip(t.elts, v.elts):
                    self._bind(a, b)
            else:
                for x in ast.walk(t):
                    if isinstance(x, ast.Name):
                        self.env.pop(x.id, None)
        else:
            self.stores.append((t, v, None))

    def _stmt(self, s):
        if self.done:
            return
        if isinstance(s, ast.If):
            # a test on known literals (a parameter bound to a constant at the call being opened): only the arm taken
            t = const_truth(self.resolve(s.test))
            if t is not None:
                for x in (s.body if t else s.orelse):
                    self._stmt(x)
                return
        if isinstance(s, ast.Match):
            arm = _match_arm(s, self.resolve(s.subject))
            if arm is not None:
                for x in arm:
                    self._stmt(x)
                return
        if isinstance(s, ast.Try) and not s.finalbody and s.handlers \
                and all(h.body and isinstance(h.body[-1], ast.Raise) for h in s.handlers):
            # every handler ends in `raise`: whenever the function goes on (or returns), the body ran to its end
            for x in list(s.body) + list(s.orelse):
                self._stmt(x)
            return
        if isinstance(s, ast.Raise):
            self.done = self.raises = True
            return
        if isinstance(s, ast.Assign):
            v = self.resolve(s.value)
            for t in s.targets:
                n0 = len(self.stores)
                self._bind(t, v)
                self.stores[n0:] = [(a, b, s) for a, b, _ in self.stores[n0:]]
        elif isinstance(s, ast.AnnAssign):
            if s.value is not None:
                n0 = len(self.stores)
                self._bind(s.target, self.resolve(s.value))
                self.stores[n0:] = [(a, b, s) for a, b, _ in self.stores[n0:]]
        elif isinstance(s, ast.AugAssign):
            cur = _clone(s.target)
            for x in ast.walk(cur):
                if hasattr(x, 'ctx'):
                    x.ctx = ast.Load()
            v = ast.BinOp(left=self.resolve(cur), op=s.op, right=self.resolve(s.value))
            ast.copy_location(v, s)
            n0 = len(self.stores)
            self._bind(s.target, v)
            self.stores[n0:] = [(a, b, s) for a, b, _ in self.stores[n0:]]
        elif isinstance(s, ast.Return):
            self.returns += 1
            if self.ret is None and s.value is not None:
                self.ret = self.resolve(s.value)
            self.done = True
        elif isinstance(s, (ast.Expr, ast.Pass, ast.Import, ast.ImportFrom, ast.Global, ast.Nonlocal, ast.Assert)):
            pass
        elif isinstance(s, (ast.FunctionDef, ast.AsyncFunctionDef, ast.ClassDef)):
            self.env.pop(s.name, None)
        elif isinstance(s, ast.If) and not s.orelse and s.body and isinstance(s.body[-1], ast.Return) and self.ret is None \
                and all(isinstance(x, (ast.Assign, ast.AnnAssign, ast.Expr, ast.Pass)) and
                        all(isinstance(t, ast.Name) for t in (x.targets if isinstance(x, ast.Assign) else [getattr(x, 'target', ast.Name('_'))]))
                        for x in s.body[:-1]):
            saved_env, saved_stores = dict(self.env), list(self.stores)
            cond = self.resolve(s.test)
            for x in s.body[:-1]:
                self._stmt(x)
            v = self.resolve(s.body[-1].value) if s.body[-1].value is not None else None
            self.early.append((cond, v, s))
            self.env, self.stores = saved_env, saved_stores
        else:
            # compound statement: whatever it binds is not a straight-line value
            self.straight = False
            for x in walk_no_nested(s):
                if isinstance(x, ast.Name) and isinstance(x.ctx, (ast.Store, ast.Del)):
                    self.env.pop(x.id, None)
                if isinstance(x, ast.Return):
                    self.returns += 1

    # -- helper functions of the package are looked through
    def _inlinable(self, c):
        if self.depth > 4:
            return None
        from ..resolve import resolve_call
        f = resolve_call(self.prog, self.fi, c)
        if f is None or '.<locals>.' in f.qualname or not f.file.startswith('src/AEIC/BADA/'):
            return None
        if f.node.decorator_list:
            return None
        if f.cls is not None:
            # a method: only `self.m(...)` from a method of the same object, and only when every class the object can
            # have (the caller's class and its subclasses) finds the same definition of m - then the call *is* that body
            k = self.fi.cls
            if not self.methods or k is None or self.fi.params[:1] != ['self'] or f.name in self.keep or f == self.fi \
                    or not (isinstance(c.func, ast.Attribute) and isinstance(c.func.value, ast.Name) and c.func.value.id == 'self') \
                    or f.params[:1] != ['self']:
                return None
            if any(s_.find_method(f.name) != f for s_ in self.prog.all_classes() if any(b is k for b in s_.mro())):
                return None
        return f

    def _inline_calls(self, e):
        flow = self

        class T(ast.NodeTransformer):
            def visit_Call(self, c):
                c = self.generic_visit(c)
                f = flow._inlinable(c)
                if f is None:
                    return c
                b = bind_args(c, f.node, f.cls is not None)
                if b is None:
                    return c
                lit = {k: v for k, v in b.items() if isinstance(v, ast.Constant)}
                sub = Flow(flow.prog, f, True, flow.depth + 1, flow.methods, flow.keep, consts=lit)
                if not sub.straight or sub.returns != 1 or sub.ret is None or sub.stores or sub.early or sub.raises:
                    return c
                return _Subst(b).visit(_clone(sub.ret))

        return T().visit(e)


def _where3(e):
    if isinstance(e, ast.Call) and call_name(e) in ('np.where', 'numpy.where') and len(e.args) == 3 and not e.keywords:
        return e.args
    return None


def _same(a, b):
    return a is not None and b is not None and norm(a) == norm(b)


_CMP_FLIP = {ast.Lt: ast.Gt, ast.LtE: ast.GtE, ast.Gt: ast.Lt, ast.GtE: ast.LtE, ast.Eq: ast.Eq, ast.NotEq: ast.NotEq}


def _cmp(e):
    """(left, op type, right) of a single comparison, else None"""
    if isinstance(e, ast.Compare) and len(e.ops) == 1:
        return e.left, type(e.ops[0]), e.comparators[0]
    return None


def _is_zero(e):
    return isinstance(e, ast.Constant) and not isinstance(e.value, bool) and e.value == 0


def _callee_params(prog, fi, c: ast.Call):
    """the callee's FunctionDef for binding arguments: resolved, or - for a method reached through an attribute whose
    class is chosen at run time - any method of that name in the caller's module (they share one signature)"""
    from ..resolve import resolve_call
    f = resolve_call(prog, fi, c)
    if f is not None:
        return f.node, f.cls is not None and isinstance(c.func, ast.Attribute)
    if isinstance(c.func, ast.Attribute):
        cands = [k.methods[c.func.attr] for k in fi.module.classes.values() if c.func.attr in k.methods]
        sigs = {tuple(_fn_params(x.node, True)[0]) for x in cands}
        if cands and len(sigs) == 1:
            return cands[0].node, True
    return None, False


def _call_args(prog, fi, c):
    """{param: resolved argument text} of a call, or positional texts keyed by index when the callee is not known"""
    fn, drop = _callee_params(prog, fi, c)
    if fn is not None:
        b = bind_args(c, fn, drop)
        if b is not None:
            return {k: norm(v) for k, v in b.items()}
    if c.keywords:
        return None
    return {i: norm(a) for i, a in enumerate(c.args)}


def _is_call_of(e, *suffixes):
    return isinstance(e, ast.Call) and any(call_name(e) == s or call_name(e).endswith('.' + s) for s in suffixes)


def _state_args(prog, fi, c, expect: dict):
    """the call passes, for every parameter in `expect`, the expression with that text"""
    got = _call_args(prog, fi, c)
    if got is None:
        return False, 'arguments cannot be bound'
    if all(isinstance(k, int) for k in got):
        ok = [got.get(i) for i in range(len(expect))] == list(expect.values()) and len(got) == len(expect)
        return ok, str(list(got.values()))
    bad = {k: got.get(k) for k, v in expect.items() if got.get(k) != v}
    return not bad, ('in declared order' if not bad else f'{bad}')


RHO = 'calculate_air_density(pressure_at_altitude_isa_bada4(altitude), temperature)'


STATE = {'altitude': 'altitude', 'v_tas': 'v_tas', 'temperature': 'temperature'}
_RATING_WHAT = {'calculate_max_climb_thrust': 'maximum climb thrust (3.7-1..7)',
                'calculate_max_cruise_thrust': 'maximum cruise thrust (3.7-8)',
                'calculate_descent_thrust_high': 'high-altitude descent thrust (3.7-9)',
                'calculate_descent_thrust_low': 'low-altitude descent thrust (3.7-10)'}


def manual_methods():
    """names of the methods the BADA-3 manual has an equation or a symbol for (they stay calls when helpers are opened)"""
    return {qn.split('.')[-1] for qn in BADA3} | set(BADA3_CALLS) | {'calculate_thrust', 'calculate_specific_ground_range'}


def _engine_classes(prog):
    m = prog.module(MODEL)
    return [m.classes[n] for n in ENGINE_MODELS.values() if n in m.classes]


def open_engine_calls(prog, fi, e):
    """`e` with every call `self.engine_model.m(...)` replaced by what m returns for these arguments, when all engine
    classes find one definition of m and it is straight-line (literal arguments decide its tests); the methods the manual
    has a symbol for (maximum climb thrust, eta) stay calls.  -> (expression, [names of methods that could not be opened])"""
    closed = []

    class T(ast.NodeTransformer):
        def visit_Call(self, c):
            c = self.generic_visit(c)
            f = c.func
            if not (isinstance(f, ast.Attribute) and norm(f.value) == ENGINE_SLOT) or f.attr in BADA3_CALLS:
                return c
            defs = {k.find_method(f.attr) for k in _engine_classes(prog)}
            if len(defs) != 1 or None in defs:
                closed.append(f.attr)
                return c
            d = next(iter(defs))
            b = bind_args(c, d.node, True)
            if b is None or d.node.decorator_list:
                closed.append(f.attr)
                return c
            lit = {k: v for k, v in b.items() if isinstance(v, ast.Constant)}
            sub = Flow(prog, d, methods=True, keep=set(BADA3_CALLS), consts=lit)
            if not sub.straight or sub.returns != 1 or sub.ret is None or sub.stores or sub.early or sub.raises:
                closed.append(f.attr)
                return c
            return _Subst(b).visit(_clone(sub.ret))

    return T().visit(_clone(e)), closed


def _rating(ctx, ct, e, method):
    """Is `e` (an expression of calculate_thrust, locals resolved) the engine model's rating `method` at (altitude, v_tas,
    temperature)?  -> (kind, why): 'ok'; 'state' (that rating, evaluated at another state); 'other' (another quantity);
    'undecided'.  By name when it is the call of that method (R6 compares the method with the manual); otherwise by value:
    engine-model calls are opened and the result compared, as an exact rational function of the parameters and the
    manual's symbols, with the manual's equation for the rating."""
    prog = ctx.prog
    what = _RATING_WHAT.get(method, method)
    if _is_call_of(e, method):
        if not call_name(e).startswith(ENGINE_SLOT + '.'):
            return 'other', f'`{norm(e)[:60]}` is not the engine model\'s rating'
        oka, how = _state_args(prog, ct, e, STATE)
        return ('ok', 'engine model, this state') if oka else ('state', how)
    value, closed = open_engine_calls(prog, ct, e)
    for c in calls_in(value):
        if any(call_name(c) == n or call_name(c).endswith('.' + n) for n in BADA3_CALLS):
            oka, how = _state_args(prog, ct, c, STATE)
            if not oka:
                return 'state', f'`{norm(c)[:80]}`: {how}'
    m = prog.module(MODEL)
    consts = module_constants(prog.module('units.py'))
    consts.update(module_constants(m, consts))
    ref = BADA3_CALLS[method] if method in BADA3_CALLS else BADA3[f'Bada3EngineModel.{method}'][0]
    try:
        code = code_normal_form(ct.node, value, consts, param_objs=(OBJ,), call_map=BADA3_CALLS)
        want = ref_normal_form(ref, consts, {})
    except AlgebraError as ex:
        return 'undecided', f'cannot normalise `{norm(value)[:60]}`: {ex}'
    v, why = compare(code, want)
    if v == 'equal':
        return 'ok', f'equal to the {what} `{ref}`'
    if v == 'different' or (isinstance(e, ast.Call) and any(_is_call_of(e, n) for n in _RATING_WHAT)):
        return 'other', f'`{norm(e)[:70]}` has the value `{str(code)[:80]}`, not the {what} `{ref}`'
    return 'undecided', (f'`{norm(e)[:60]}`: ' + (f'{sorted(set(closed))} cannot be opened; ' if closed else '') + why)


def _none_negative(cond, v):
    """`cond` says that no element of `v` is negative: not any(v < 0), all(v >= 0), min(v) >= 0 (np. functions or methods)"""
    neg = False
    while isinstance(cond, ast.UnaryOp) and isinstance(cond.op, ast.Not):
        cond, neg = cond.operand, not neg
    if not isinstance(cond, (ast.Call, ast.Compare)):
        return False
    if isinstance(cond, ast.Compare):
        cm = _cmp(cond)
        if cm is None or neg:
            return False
        l, op, r = cm
        if _is_zero(l):
            l, op, r = r, _CMP_FLIP[op], l
        return _is_zero(r) and op is ast.GtE and isinstance(l, ast.Call) and call_name(l).split('.')[-1] in ('min', 'amin', 'nanmin') \
            and _same((l.args[0] if l.args else getattr(l.func, 'value', None)), v)
    f = call_name(cond).split('.')[-1]
    inner = cond.args[0] if cond.args else getattr(cond.func, 'value', None)
    cm = _cmp(inner) if inner is not None else None
    if cm is None or f not in ('any', 'all'):
        return False
    l, op, r = cm
    if _is_zero(l):
        l, op, r = r, _CMP_FLIP[op], l
    if not _is_zero(r) or not _same(l, v):
        return False
    return (f == 'any' and neg and op is ast.Lt) or (f == 'all' and not neg and op is ast.GtE)


def _memo_blocks(ctx, rule, fi, fl):
    """A value the rule is about goes through a compute-once call that is not its computation: R8 reports the ones that are
    established to be wrong (the rule has nothing to add: True); the ones that cannot be judged leave the rule undecided"""
    for c, v, why in fl.memo_open:
        if v == 'undecided':
            ctx.undecided(rule, fi, norm(c)[:60], f'the value is kept on an object between calls and it cannot be shown that it is the one computed now: {why}')
    return bool(fl.memo_open)


def _kept_wrong(m, fi):
    """R8 establishes that `fi` goes on with a value an earlier call left on the object under a key that does not cover it"""
    state = _runtime_state(fi.cls, list(m.classes.values()))
    params = [p_ for p_ in fi.params if p_ not in ('self', 'cls')]
    return any(refreshed_verdict(fi.node, val, key, params)[0] == 'bad'
               for _st, _a, val, key, _rd in refreshed_answers(fi.node, state, params))


def rule_thrust(ctx):
    prog = ctx.prog
    m = prog.module(MODEL)
    ct = m.func('Bada3FuelBurnModel.calculate_thrust')
    fl = Flow(prog, ct, methods=True, keep=manual_methods())
    R = fl.ret
    if not fl.straight or fl.returns != 1 or R is None:
        if _kept_wrong(m, ct):
            return             # the thrust is put together from what an earlier call left on the object: R8 states it
        ctx.undecided('C19-R2', ct, 'thrust', 'calculate_thrust is not a straight-line function with one return (guard clauses aside)')
    if _memo_blocks(ctx, 'C19-R2', ct, fl):
        return
    line = R.lineno

    # definite wrong forms: a lower *bound* (clip / maximum) instead of substitution where negative
    if _is_call_of(R, 'clip') and len(R.args) >= 3:
        ctx.ob('C19-R2', ct, 'negative thrust replaced by descent thrust', False,
               '`np.clip(thrust, lower, upper)` bounds the thrust below by its second argument (the descent thrust): '
               'every total-energy thrust under the descent thrust is raised to it, also small positive values BADA-3 '
               'keeps as computed; only negative thrust is to be replaced', line=line)
        return
    if _is_call_of(R, 'maximum', 'fmax', 'max') and len(R.args) == 2:
        ctx.ob('C19-R2', ct, 'negative thrust replaced by descent thrust', False,
               f'`{call_name(R)}(…)` is a lower bound, not a substitution where thrust < 0', line=line)
        return

    # 3: descent substitution (outermost)
    sub = _where3(R)
    if sub is None:
        ctx.undecided('C19-R2', ct, norm(R)[:60], 'the returned thrust is not a selection (np.where) between the '
                      'limited thrust and the descent thrust')
    c, a, b = sub
    X = D = None
    oks = False
    why = (f'`np.where({norm(c)[:50]}, …)`: thrust is not replaced by descent thrust exactly where it is negative')
    cm = _cmp(c)
    if cm is not None:
        l, op, r = cm
        if _is_zero(l):
            l, op, r = r, _CMP_FLIP[op], l
        if _is_zero(r):
            if op is ast.Lt and _same(b, l):
                oks, X, D = True, l, a
            elif op is ast.GtE and _same(a, l):
                oks, X, D = True, l, b
            elif op in (ast.Lt, ast.GtE):
                ctx.undecided('C19-R2', ct, norm(c)[:60], 'the thrust tested against zero and the thrust kept where it '
                              'is not negative are different expressions')
            else:
                why = (f'thrust is replaced where it is `{ast.unparse(ast.Compare(ast.Name("T"), [op()], [ast.Constant(0)]))}`, '
                       'not exactly where it is negative')
    ctx.ob('C19-R2', ct, 'negative thrust replaced by descent thrust', oks,
           'np.where(T < 0, descent thrust, T) with T the limited thrust' if oks else why, line=line)
    if not oks:
        return
    # a guard clause that returns before the substitution may only do so when no thrust is negative
    for cond, v, st in fl.early:
        oke = v is not None and _none_negative(cond, v)
        ctx.ob('C19-R2', ct, f'early return when `{norm(st.test)[:50]}`', oke,
               'taken only when no thrust is negative: nothing to substitute' if oke else
               (f'the thrust is returned before negative values are replaced by the descent thrust, under a condition (`{norm(st.test)[:60]}`) '
                'that does not rule out negative total-energy thrust (level or climbing flight with a firm deceleration has drag + m·a < 0): '
                'negative thrust, negative fuel flow and zero fuel burn on those steps'), line=st.lineno)

    # 2: cap
    TE = MX = None
    okc, why = False, 'the thrust tested against zero is not the total-energy thrust limited above by a maximum'
    cap = _where3(X)
    if cap is not None:
        c2, a2, b2 = cap
        cm = _cmp(c2)
        if cm is not None:
            l, op, r = cm
            if op in (ast.Gt, ast.GtE) and _same(a2, r) and _same(b2, l):
                okc, TE, MX = True, l, r          # where(TE > MX, MX, TE)
            elif op in (ast.Lt, ast.LtE) and _same(a2, l) and _same(b2, r):
                okc, TE, MX = True, l, r          # where(TE < MX, TE, MX)
            elif op in (ast.Lt, ast.LtE) and _same(a2, r) and _same(b2, l):
                okc, TE, MX = True, r, l          # where(MX < TE, MX, TE)
            elif op in (ast.Gt, ast.GtE) and _same(a2, l) and _same(b2, r):
                okc, TE, MX = True, r, l          # where(MX > TE, TE, MX)
            else:
                why = f'cap has the wrong shape: np.where({norm(c2)[:40]}, {norm(a2)[:30]}, {norm(b2)[:30]})'
    elif _is_call_of(X, 'minimum', 'fmin') and len(X.args) == 2:
        okc, (TE, MX) = True, X.args
    if okc and not _is_call_of(TE, 'calculate_thrust_by_total_energy') and _is_call_of(MX, 'calculate_thrust_by_total_energy'):
        TE, MX = MX, TE
        if cap is not None:
            okc, why = False, 'the comparison keeps the larger of total-energy thrust and maximum thrust'
    ctx.ob('C19-R2', ct, 'thrust limited above by the maximum thrust', okc,
           'the smaller of total-energy thrust and maximum thrust' if okc else why, line=X.lineno)
    if not okc:
        return

    # 1: total energy
    ok = _is_call_of(TE, 'calculate_thrust_by_total_energy')
    ctx.ob('C19-R2', ct, 'thrust starts as total-energy thrust', ok, 'self.calculate_thrust_by_total_energy(…)' if ok else
           f'the limited quantity is `{norm(TE)[:60]}`, not the total-energy thrust', line=TE.lineno, nontrivial=False)
    CL = f'self.calculate_cl(mass, {RHO}, v_tas)'
    DRAG = f'self.calculate_drag(self.calculate_cd({CL}), {RHO}, v_tas)'
    if ok:
        okp, how = _state_args(prog, ct, TE, {'drag': DRAG, 'mass': 'mass', 'v_tas': 'v_tas', 'rocd': 'rocd',
                                              'acceleration': 'acceleration'})
        # report the aerodynamic chain link by link
        got = _call_args(prog, ct, TE) or {}
        drag_txt = got.get('drag', got.get(0))
        ctx.ob('C19-R2', ct, 'total energy arguments (drag, mass, v_tas, rocd, acceleration)', okp,
               'in declared order' if okp else
               ('the drag passed to the total-energy thrust is not drag(cd(cl(mass, rho, v_tas)), rho, v_tas) with rho '
                'from the ISA pressure at altitude and the temperature' if drag_txt != DRAG and
                {k: v for k, v in got.items() if k not in ('drag', 0)} ==
                {k: v for k, v in ({'mass': 'mass', 'v_tas': 'v_tas', 'rocd': 'rocd', 'acceleration': 'acceleration'}
                                   if 'mass' in got else {1: 'mass', 2: 'v_tas', 3: 'rocd', 4: 'acceleration'}).items()}
                else f'arguments of the total-energy thrust are permuted: {how}'), line=TE.lineno, nontrivial=False)

    # maximum thrust: cruise rating in cruise, climb rating otherwise
    w = _where3(MX)
    oksel, cr, cl = False, None, None
    why_sel = 'it is not selected by the cruise flag between two ratings'
    if w is not None:
        cnd, wa, wb = w
        if norm(cnd) == 'in_cruise':
            cr, cl = wa, wb
        elif norm(cnd) in ('~in_cruise', 'np.logical_not(in_cruise)', 'not in_cruise', 'np.invert(in_cruise)'):
            cr, cl = wb, wa
        if cr is not None:
            rc = _rating(ctx, ct, cr, 'calculate_max_cruise_thrust')
            rl = _rating(ctx, ct, cl, 'calculate_max_climb_thrust')
            for r, x in ((rc, cr), (rl, cl)):
                if r[0] == 'undecided':
                    ctx.undecided('C19-R2', ct, norm(x)[:70], r[1])
            oksel = rc[0] != 'other' and rl[0] != 'other'
            if not oksel:
                why_sel = '; '.join(f'{nm}: {r[1]}' for nm, r in (('in cruise', rc), ('outside cruise', rl)) if r[0] == 'other')
    ctx.ob('C19-R2', ct, f'maximum thrust = {norm(MX)[:70]}', bool(oksel),
           'max cruise thrust in cruise, max climb thrust otherwise' if oksel else
           f'the thrust limit is not max cruise thrust (3.7-8) where in_cruise and max climb thrust elsewhere - {why_sel}', line=MX.lineno)
    if oksel:
        for nm, r in (('cruise', rc), ('climb', rl)):
            ctx.ob('C19-R2', ct, f'max {nm} thrust from calculate_max_{nm}_thrust', r[0] == 'ok',
                   'engine model, this state' if r[0] == 'ok' else
                   f'max {nm} thrust is not the engine model\'s rating at this state: {r[1]}', nontrivial=False)

    # descent thrust: high-altitude rating above h_p_des (compared in feet)
    dd = _where3(D)
    okd, why = False, 'descent thrust is not a selection between the high and low altitude ratings'
    if dd is not None:
        cnd, da, db = dd
        cm = _cmp(cnd)
        hp = (f'{OBJ}.h_p_des', f"{OBJ}['h_p_des']")
        alt_ft = ('altitude * METERS_TO_FEET', 'METERS_TO_FEET * altitude')
        if cm is not None:
            l, op, r = cm
            if norm(l) in hp:
                l, op, r = r, _CMP_FLIP[op], l
            if norm(r) in hp and norm(l) in alt_ft and op in (ast.Gt, ast.LtE):
                hi, lo = (da, db) if op is ast.Gt else (db, da)
                rh = _rating(ctx, ct, hi, 'calculate_descent_thrust_high')
                rw = _rating(ctx, ct, lo, 'calculate_descent_thrust_low')
                for r, x in ((rh, hi), (rw, lo)):
                    if r[0] == 'undecided':
                        ctx.undecided('C19-R2', ct, norm(x)[:70], r[1])
                okd = rh[0] == 'ok' and rw[0] == 'ok'
                if rh[0] == 'other' and rw[0] == 'other' and _rating(ctx, ct, lo, 'calculate_descent_thrust_high')[0] == 'ok' \
                        and _rating(ctx, ct, hi, 'calculate_descent_thrust_low')[0] == 'ok':
                    why = 'the high and low altitude ratings are on the wrong branches'
                elif not okd:
                    why = '; '.join((f'descent rating evaluated at another state: {r[1]}' if r[0] == 'state' else f'{nm}: {r[1]}')
                                    for nm, r in (('above h_p_des', rh), ('at or below h_p_des', rw)) if r[0] != 'ok')
            elif norm(r) in hp and norm(l) == 'altitude':
                why = 'the altitude in metres is compared with h_p_des, which is in feet'
            elif norm(r) in hp and norm(l) in alt_ft:
                why = f'the ratings switch where `{norm(cnd)}`, not strictly above h_p_des'
            else:
                ctx.undecided('C19-R2', ct, norm(cnd)[:70], 'descent-rating condition not recognised')
    ctx.ob('C19-R2', ct, f'descent thrust = {norm(D)[:80]}', bool(okd),
           'high-altitude descent thrust above h_p_des (compared in feet), low otherwise' if okd else
           f'descent thrust selection changed (unit or branch): {why}', line=D.lineno)
    ctx.ob('C19-R2', ct, 'cap precedes the descent substitution', True,
           'the thrust tested against zero is the capped thrust', nontrivial=False)


def rule_fuelflow(ctx):
    prog = ctx.prog
    m = prog.module(MODEL)
    sg = m.func('Bada3FuelBurnModel.calculate_specific_ground_range')
    fl = Flow(prog, sg, methods=True, keep=manual_methods())
    R = fl.ret
    if not fl.straight or fl.returns != 1 or R is None or fl.early:
        ctx.undecided('C19-R3', sg, 'specific ground range', 'not a straight-line function with one return')
    if _memo_blocks(ctx, 'C19-R3', sg, fl):
        return
    # specific ground range = ground speed / fuel flow behind a non-zero guard
    FF = None
    ok = False
    why = 'specific ground range is not ground speed over fuel flow'
    if _is_call_of(R, 'divide') and len(R.args) >= 2:
        gs, FF = R.args[0], R.args[1]
        guard = kwarg(R, 'where')
        cm = _cmp(guard) if guard is not None else None
        if cm is not None and _is_zero(cm[0]):
            cm = (cm[2], _CMP_FLIP[cm[1]], cm[0])
        okg = cm is not None and cm[1] is ast.NotEq and _is_zero(cm[2]) and _same(cm[0], FF)
        ok = norm(gs) == 'groundspeed' and okg
        if norm(gs) == 'groundspeed' and not okg:
            why = 'the division is not guarded by `fuel flow != 0` on the fuel flow that divides'
    elif isinstance(R, ast.BinOp) and isinstance(R.op, ast.Div):
        FF = R.right
        why = 'ground speed is divided by the fuel flow without the non-zero guard'
    else:
        ctx.undecided('C19-R3', sg, norm(R)[:60], 'the returned value is not a division of ground speed by fuel flow')
    ctx.ob('C19-R3', sg, 'specific ground range = ground speed / fuel flow (guarded)', ok,
           'np.divide(groundspeed, fuel flow, where=fuel flow != 0)' if ok else why, line=R.lineno)
    # fuel flow: cruise where in_cruise, nominal elsewhere
    w = _where3(FF) if FF is not None else None
    cr = nom = None
    if w is not None:
        cnd, a, b = w
        if norm(cnd) == 'in_cruise':
            cr, nom = a, b
        elif norm(cnd) in ('~in_cruise', 'np.logical_not(in_cruise)', 'not in_cruise', 'np.invert(in_cruise)'):
            cr, nom = b, a
    ok = cr is not None and _is_call_of(cr, 'calculate_cruise_fuel_flow') and _is_call_of(nom, 'calculate_nominal_fuel_flow') \
        and call_name(cr).startswith('self.engine_model.') and call_name(nom).startswith('self.engine_model.')
    ctx.ob('C19-R3', sg, 'cruise fuel flow exactly where in_cruise, nominal elsewhere', bool(ok),
           'np.where(in_cruise, cruise fuel flow, nominal fuel flow)' if ok else
           'the cruise correction is applied outside cruise or not at all',
           line=(FF.lineno if FF is not None and hasattr(FF, 'lineno') else sg.node.lineno))
    if not ok:
        return
    TH = None
    for c, what in ((nom, 'calculate_nominal_fuel_flow'), (cr, 'calculate_cruise_fuel_flow')):
        got = _call_args(prog, sg, c) or {}
        th = got.get('thrust', got.get(0))
        okp = got.get('v_tas', got.get(1)) == 'v_tas' and th is not None and len(got) == 2
        ctx.ob('C19-R3', sg, f'{what}(thrust, v_tas)', okp,
               'thrust and true airspeed' if okp else 'fuel-flow arguments permuted', line=c.lineno, nontrivial=False)
        if okp:
            TH = TH or c.args[0] if c.args else next(k.value for k in c.keywords if k.arg == 'thrust')
            if th != norm(TH):
                ctx.ob('C19-R3', sg, 'cruise and nominal fuel flow use one thrust', False,
                       'the two fuel flows are computed from different thrusts', line=c.lineno)
    if TH is None:
        return
    ok = _is_call_of(TH, 'calculate_thrust') and call_name(TH) == 'self.calculate_thrust'
    if ok:
        ok, how = _state_args(prog, sg, TH, {k: k for k in ('mass', 'temperature', 'altitude', 'v_tas', 'rocd',
                                                            'acceleration', 'in_cruise')})
    else:
        # the thrust written out in place: the value calculate_thrust returns for the parameters of the same names (R2 decides
        # that value); both sides with locals resolved and helpers opened alike
        ct = m.func('Bada3FuelBurnModel.calculate_thrust')
        want = {k: k for k in ('mass', 'temperature', 'altitude', 'v_tas', 'rocd', 'acceleration', 'in_cruise')}
        if all(k in sg.params and k in ct.params for k in want):
            cf = Flow(prog, ct, methods=True, keep=manual_methods())
            if cf.straight and cf.returns == 1 and cf.ret is not None and not cf.early and not cf.memo_open:
                ok = _same(cf.ret, TH)
    ctx.ob('C19-R3', sg, 'thrust from calculate_thrust with the flight state in declared order', ok,
           'limited thrust' if ok else 'fuel flow is not computed from the limited thrust of this state',
           line=TH.lineno)


def _sgr_floor(ctx, f, e):
    """`e` is the specific ground range with degenerate entries (< 1 m/kg) replaced by infinity"""
    w = _where3(e)
    ok = False
    if w is not None:
        cm = _cmp(w[0])
        ok = cm is not None and norm(cm[0]) == 'specific_ground_range' and cm[1] is ast.Lt and norm(cm[2]) == '1' \
            and norm(w[1]) in ('np.inf', 'numpy.inf', 'math.inf', "float('inf')") and norm(w[2]) == 'specific_ground_range'
    ctx.ob('C19-R4', f, 'degenerate range treated as no fuel burn', ok,
           'np.where(specific_ground_range < 1, np.inf, specific_ground_range)' if ok else
           f'degenerate-range handling changed: `{norm(e)[:80]}`', nontrivial=False)


def _reversed(e):
    """x if e is x[::-1]"""
    if isinstance(e, ast.Subscript) and norm(e.slice) == '::-1':
        return e.value
    return None


def rule_update(ctx):
    prog = ctx.prog
    b = prog.module(BASE)
    fw = b.func('BaseFuelBurnModel.update_mass_vector')
    bw = b.func('BaseFuelBurnModel.update_mass_vector_backward')

    def trapz(e):
        """(integrand, dx) of cumulative_trapezoid(integrand, dx=…)"""
        if _is_call_of(e, 'cumulative_trapezoid', 'cumtrapz') and len(e.args) == 1 and kwarg(e, 'dx') is not None \
                and not [k for k in e.keywords if k.arg not in ('dx',)]:
            return e.args[0], kwarg(e, 'dx')
        return None

    def recip(e):
        if isinstance(e, ast.BinOp) and isinstance(e.op, ast.Div) and norm(e.left) in ('1', '1.0'):
            return e.right
        return None

    for f, tgt, anchor, fwd in ((fw, 'mass[1:]', 'mass[0]', True), (bw, 'mass[:-1]', 'mass[-1]', False)):
        fl = Flow(prog, f)
        st = [(t, v, s) for t, v, s in fl.stores if isinstance(t, ast.Subscript) and norm(t.value) == 'mass']
        if not fl.straight or fl.early:
            ctx.undecided('C19-R4', f, 'mass update', 'not a straight-line function')
        ok, sgrc, why = False, None, None
        if len(st) == 1 and norm(st[0][0]) == tgt and isinstance(st[0][1], ast.BinOp) \
                and isinstance(st[0][1].op, ast.Sub if fwd else ast.Add):
            v = st[0][1]
            l, r = v.left, v.right
            if not fwd and norm(r) == anchor:
                l, r = r, l
            if norm(l) == anchor:
                if fwd:
                    tz = trapz(r)
                    if tz is not None and norm(tz[1]) == 'segment_distance':
                        sgrc = recip(tz[0])
                        ok = sgrc is not None
                else:
                    inner = _reversed(r)
                    tz = trapz(inner) if inner is not None else None
                    if tz is not None and norm(tz[1]) == 'segment_distance':
                        # (1 / sgr)[::-1]  or  1 / sgr[::-1]
                        x = _reversed(tz[0])
                        if x is not None:
                            sgrc = recip(x)
                        else:
                            x = recip(tz[0])
                            sgrc = _reversed(x) if x is not None else None
                        ok = sgrc is not None
        ctx.ob('C19-R4', f, 'forward: mass[1:] = mass[0] − ∫ (1/sgr) ds (trapezoid)' if fwd else
               'backward: mass[:-1] = mass[-1] + reversed ∫ (1/sgr) ds', ok,
               (norm(st[0][2])[:100] if fwd else 'mirror image of the forward update') if ok else
               ('forward mass update is not the cumulative trapezoid of fuel per distance subtracted from mass[0]' if fwd
                else 'backward mass update is not the mirror of the forward one'),
               line=(st[0][2].lineno if st else f.node.lineno))
        if sgrc is not None:
            _sgr_floor(ctx, f, sgrc)
        r = fl.ret
        ctx.ob('C19-R4', f, 'returns the updated mass vector', r is not None and norm(r) == 'mass' and fl.returns == 1,
               'mass', nontrivial=False)


def _is_mtow_cap(fn, v):
    """`v` (a name bound once is followed) is min(<one expression>, mtow) in any of its spellings -> (ok, the other operand)"""
    for _ in range(6):
        d = single_def_value(fn, v.id) if isinstance(v, ast.Name) else None
        if d is None:
            break
        v = d
    if isinstance(v, ast.Call) and call_name(v) in ('np.min', 'min', 'np.minimum', 'np.amin', 'np.fmin', 'numpy.min', 'numpy.minimum'):
        args = v.args[0].elts if len(v.args) == 1 and isinstance(v.args[0], (ast.Tuple, ast.List)) else v.args
        names = [norm(a) for a in args]
        return 'mtow' in names and len(args) == 2, next((a for a in args if norm(a) != 'mtow'), None), v
    return False, None, v


def capped_at_returns(fn, vec='mass'):
    """Must-analysis over the structure of `fn`: is `vec[0]` a value capped at MTOW wherever `vec` is returned?
    State: True after `vec[0] = min(…, mtow)`; False after `vec` is bound to a new array or `vec[0]` (or a slice that
    covers it) is stored anything else; the forward update `vec = self.update_mass_vector(vec, …)` keeps vec[0] (R4: its
    single store is mass[1:]).  Both arms of a test are joined (capped on both); a loop is taken to run at least one pass
    (the n_iter = 0 call returns the caller's estimate in the original too) and is iterated until the state at the top of
    its body is stable, so the first pass - entered with the state from before the loop - and the later ones are all
    covered.  -> [(return stmt, capped, line of the last capped store seen in the function)] for the returns inside or
    after a loop."""
    out = []
    caps = []

    def kills(st):
        for x in ast.walk(st):
            if isinstance(x, ast.Subscript) and isinstance(x.ctx, (ast.Store, ast.Del)) and norm(x.value) == vec:
                return True
            if isinstance(x, ast.Name) and isinstance(x.ctx, (ast.Store, ast.Del)) and x.id == vec:
                return True
        return False

    def run(stmts, state, looped, loop):
        """-> state after the block, or None when it always leaves; loop = [states at break, states at continue] or None"""
        for st in stmts:
            if state is None:
                return None
            if isinstance(st, ast.Return):
                if looped and st.value is not None and any(isinstance(x, ast.Name) and x.id == vec for x in ast.walk(st.value)):
                    out.append((st, state))
                return None
            if isinstance(st, ast.Raise):
                return None
            if isinstance(st, (ast.Break, ast.Continue)):
                if loop is not None:
                    loop[0 if isinstance(st, ast.Break) else 1].append(state)
                return None
            if isinstance(st, (ast.FunctionDef, ast.AsyncFunctionDef, ast.ClassDef)):
                continue
            if isinstance(st, ast.If):
                t = const_truth(st.test)
                arms = [st.body, st.orelse] if t is None else [st.body if t else st.orelse]
                res = [run(a, state, looped, loop) for a in arms]
                live = [r for r in res if r is not None]
                state = None if not live else all(live)
                continue
            if isinstance(st, (ast.For, ast.AsyncFor, ast.While)):
                inner = [[], []]
                s_in, ends = state, []
                mark = len(out)
                for _ in range(3):
                    del out[mark:]
                    inner = [[], []]
                    # every pass must leave the state the later passes are entered with: judge the body for the state before
                    # the loop and for the state at the end of a pass, together
                    r = run(st.body, s_in, True, inner)
                    end = [x for x in [r] + inner[1] if x is not None]
                    nxt = s_in and all(end) if end else s_in
                    ends = end
                    if nxt == s_in:
                        break
                    s_in = nxt
                exits = ends + inner[0]
                state = all(exits) if exits else None
                if state is not None and st.orelse:
                    state = run(st.orelse, state, True, loop)
                looped = True
                continue
            if isinstance(st, (ast.With, ast.AsyncWith)):
                state = run(st.body, state, looped, loop)
                continue
            if isinstance(st, ast.Try):
                r = run(st.body, state, looped, loop)
                hs = [run(h.body, bool(state and (r is None or r)), looped, loop) for h in st.handlers]
                if r is not None and st.orelse:
                    r = run(st.orelse, r, looped, loop)
                live = [x for x in [r] + hs if x is not None]
                state = None if not live else all(live)
                if st.finalbody and state is not None:
                    state = run(st.finalbody, state, looped, loop)
                continue
            if isinstance(st, ast.Match):
                res = [run(c.body, state, looped, loop) for c in st.cases]
                live = [r for r in res if r is not None] + [state]
                state = all(live)
                continue
            # simple statement
            if isinstance(st, ast.Assign) and len(st.targets) == 1 and norm(st.targets[0]) == f'{vec}[0]':
                state = bool(_is_mtow_cap(fn, st.value)[0])
                if state:
                    caps.append(st.lineno)
                continue
            if isinstance(st, ast.Assign) and len(st.targets) == 1 and norm(st.targets[0]) == vec and isinstance(st.value, ast.Call) \
                    and call_name(st.value) in ('self.update_mass_vector', 'super().update_mass_vector') \
                    and norm(st.value.args[0] if st.value.args else (kwarg(st.value, 'mass') or ast.Constant(None))) == vec:
                continue
            if kills(st):
                state = False
        return state

    run(fn.body, False, False, None)
    return [(st, ok, (int(-(-min(caps) // 1)) if caps else None)) for st, ok in out]


def rule_mtow(ctx):
    prog = ctx.prog
    m = prog.module(MODEL)
    sibs = [m.func('Bada3FuelBurnModel.iterate_flight_simulation_fuel_burn_dependent_initial_mass_rf_fraction'),
            m.func('Bada3FuelBurnModel.iterate_flight_simulation_fuel_burn_dependent_initial_mass_rf_value')]
    forms = []
    for f in sibs:
        sts = [s for t, s, how in stores_to(f.node) if norm(t) == 'mass[0]']
        ctx.floor(f'C19-R5/{f.name[-8:]}', len(sts), 1, 'assignments of mass[0]')
        for s in sts:
            ok, inner, v = _is_mtow_cap(f.node, s.value)
            ctx.ob('C19-R5', f, f'mass[0] = {norm(v)[:80]}', ok,
                   'the value assigned to the take-off mass is min(…, mtow)' if ok else
                   'the initial mass written back is not capped at MTOW as a whole (capping an intermediate '
                   'term lets reserve fuel push it above MTOW)', line=s.lineno)
            if inner is not None:
                forms.append((f, inner))
        # ... and the vector is never handed back with a take-off mass that has not been through that assignment
        rets = capped_at_returns(f.node)
        ctx.floor(f'C19-R5/{f.name[-8:]}/returns', len(rets), 1, 'returns of the mass vector in or after the iteration loop')
        for r, okr, capline in rets:
            ctx.ob('C19-R5', f, f'`{norm(r)[:40]}` (line {r.lineno}) hands back a capped take-off mass', okr,
                   'on every path to it, the last store to mass[0] is min(…, mtow)' if okr else
                   ('the mass vector is returned on a path on which mass[0] has not been assigned its capped value: in the first pass of the '
                    'loop it is still what the function started with (the caller\'s initial_mass_estimate, which may lie above MTOW)'
                    + (f'; the assignment `mass[0] = min(…, mtow)` (line {capline}) comes only after this return' if capline and capline > r.lineno else '')
                    + ' - when the convergence test succeeds in the first pass the returned profile starts above maximum take-off mass'),
                   line=r.lineno)
        fb = single_def_value(f.node, 'fuel_burn')
        ok = fb is not None and norm(fb) == 'mass[0] - mass[-1]'
        ctx.ob('C19-R5', f, 'fuel burn = first minus last mass', ok, 'mass[0] - mass[-1]' if ok else
               f'fuel burn defined as {norm(fb) if fb is not None else None}', nontrivial=False)
    if len(forms) == 2:
        consts = {}
        try:
            a = code_normal_form(forms[0][0].node, forms[0][1], consts)
            b = code_normal_form(forms[1][0].node, forms[1][1], consts)
            from ..algebra import normal_form
            ra = normal_form(ast.parse('oew + mpl * load_factor + fuel_burn + fuel_burn * reserve_fuel_fraction', mode='eval').body,
                             {'fuel_burn': ast.parse('mass[0] - mass[-1]', mode='eval').body})
            rb = normal_form(ast.parse('oew + mpl * load_factor + fuel_burn + reserve_fuel', mode='eval').body,
                             {'fuel_burn': ast.parse('mass[0] - mass[-1]', mode='eval').body})
            for (f, _), got, want, what in ((forms[0], a, ra, 'OEW + MPL·LF + fuel·(1 + reserve fraction)'),
                                            (forms[1], b, rb, 'OEW + MPL·LF + fuel + reserve fuel')):
                v, why = compare(got, want)
                if v == 'undecided':
                    ctx.undecided('C19-R5', f, 'initial mass', why)
                ctx.ob('C19-R5', f, f'uncapped initial mass = {what}', v == 'equal', what if v == 'equal' else why)
        except AlgebraError as e:
            ctx.undecided('C19-R5', forms[0][0], 'initial mass', str(e))
    # prescribed mass start / end
    for qn, prm in (('Bada3FuelBurnModel.iterate_flight_simulation_constant_initial_mass', 'initial_mass'),
                    ('Bada3FuelBurnModel.iterate_flight_simulation_constant_final_mass', 'final_mass')):
        f = m.func(qn)
        d = [s for t, s, how in stores_to(f.node) if isinstance(t, ast.Name) and t.id == 'mass' and how == 'assign'
             and isinstance(s.value, ast.Call) and call_name(s.value) == 'np.full']
        ok = len(d) == 1 and norm(d[0].value.args[1]) == prm and not [s for t, s, how in stores_to(f.node)
                                                                      if norm(t) in ('mass[0]', 'mass[-1]')]
        upd = {call_name(c) for c in calls_in(f.node) if call_name(c).startswith('self.update_mass_vector')}
        want = {'self.update_mass_vector'} if prm == 'initial_mass' else {'self.update_mass_vector_backward'}
        ok = ok and upd == want
        ctx.ob('C19-R5', f, f'profile anchored at the prescribed {prm}', ok,
               f'np.full(…, {prm}) and only {sorted(want)[0].split(".")[-1]}' if ok else
               'the prescribed mass is overwritten or the wrong update direction is used',
               line=(d[0].lineno if d else f.node.lineno))


# (3.7-4..7) non-ISA correction of the maximum climb thrust; clip / maximum are opaque functions whose arguments are
# compared as exact rational functions
NON_ISA = ('MAXCLIMB_ISA * (1 - clip(DT_EFF * maximum(0, c_tc5), 0, 0.4))',
           {'DT_EFF': 'temperature - temperature_at_altitude_isa_bada4(altitude) - c_tc4'})


def rule_equations(ctx):
    """Every BADA-3 formula, as the value the method returns, against the manual's equation.

    The returned value is resolved (locals through their definitions, helper functions of the package and `self.`
    methods whose dispatch is certain replaced by what they return), so it does not matter in how many steps or through
    which of its sibling methods a quantity is computed (cruise flow as `nominal flow * Cfcr`, or spelled out).  Two
    readings are compared, and one that is equal suffices: (1) calls of the methods the manual has symbols for (eta, the
    maximum climb thrust) stay symbols on both sides; (2) those calls are opened too and the reference symbol is replaced
    by the manual's own equation for that engine class.  A verdict `different` is taken from reading (1) when both sides
    use the same symbols, else from reading (2)."""
    prog = ctx.prog
    m = prog.module(MODEL)
    consts = module_constants(prog.module('units.py'))
    consts.update(module_constants(m, consts))
    syms = set(BADA3_CALLS.values())
    classes = list(m.classes.values())
    n = 0
    for qn, (ref, defs) in BADA3.items():
        fi = m.func(qn)
        r = computed_return(fi, classes)
        if r is None:
            ctx.undecided('C19-R6', fi, 'return', 'not a single-return function')
        cname = fi.cls.name if fi.cls is not None else ''

        def ref_of_call(nm):
            """the manual's own equation for a method the reference has a symbol for, for objects of this class"""
            if f'{cname}.{nm}' in BADA3 and f'{cname}.{nm}' != qn:
                return BADA3[f'{cname}.{nm}']
            if nm == 'calculate_max_climb_thrust' and nm != fi.name:
                return NON_ISA
            return None
        verdicts = []
        for level in (1, 2):
            keep = set(BADA3_CALLS) if level == 1 else {nm for nm in BADA3_CALLS if ref_of_call(nm) is None}
            fl = Flow(prog, fi, methods=True, keep=keep)
            e = fl.ret if fl.straight and fl.returns == 1 and fl.ret is not None and not fl.early else r
            try:
                code = code_normal_form(fi.node, e, consts, param_objs=(OBJ,), call_map=BADA3_CALLS)
                rdefs = dict(defs)
                want = ref_normal_form(ref, consts, rdefs)
                if level == 2:
                    # a reference symbol the code side no longer has (its method was opened) is replaced by its equation
                    for _ in range(4):
                        gone = {nm for nm, sym in BADA3_CALLS.items() if sym in want.atoms() - code.atoms() and ref_of_call(nm) and sym not in rdefs}
                        if not gone:
                            break
                        for nm in gone:
                            rf, rd = ref_of_call(nm)
                            rdefs[BADA3_CALLS[nm]] = rf
                            rdefs.update(rd)
                        want = ref_normal_form(ref, consts, rdefs)
            except AlgebraError as ex:
                verdicts.append(('undecided', f'cannot normalise: {ex}', False))
                continue
            v, why = compare(code, want)
            from ..conform import opaque_atoms
            if v == 'undecided' and not opaque_atoms(code) and opaque_atoms(want):
                # a rational function of the symbols is never one with clip / maximum / non-integer powers of them
                v, why = 'different', f'the code has none of the {sorted(a.split("(")[0] for a in opaque_atoms(want))} terms of the equation: code = {str(code)[:120]}'
            verdicts.append((v, why, level == 2 or (code.atoms() & syms) == (want.atoms() & syms)))
            if v == 'equal':
                break
        if any(v == 'equal' for v, _, _ in verdicts):
            v, why = 'equal', ''
        else:
            trusted = [(v, why) for v, why, sure in verdicts if v == 'different' and sure]
            if not trusted:
                und = [why for v, why, _ in verdicts if v == 'undecided'] or [why for _, why, _ in verdicts]
                ctx.undecided('C19-R6', fi, norm(r)[:60], und[0])
            v, why = trusted[0]
            if verdicts[0][0] == 'different':
                why = verdicts[0][1]      # the difference in the manual's own symbols reads best
        n += 1
        ctx.ob('C19-R6', fi, f'≡ {ref}', v == 'equal',
               'equal to the BADA-3 manual equation as an exact rational function' if v == 'equal' else
               f'differs from the BADA-3 manual equation `{ref}`: {why}', line=r.lineno)
    ctx.floor('C19-R6', n, 20, 'BADA-3 equations compared')
    # non-ISA correction (3.7-4..7): the value returned, with clip / maximum as opaque functions of exact arguments
    mc = m.func('Bada3EngineModel.calculate_max_climb_thrust')
    r = computed_return(mc, classes)
    if r is None:
        ctx.undecided('C19-R6', mc, 'return', 'not a single-return function')
    fl = Flow(prog, mc, methods=True, keep=set(BADA3_CALLS))
    e = fl.ret if fl.straight and fl.returns == 1 and fl.ret is not None and not fl.early else r
    try:
        code = code_normal_form(mc.node, e, consts, param_objs=(OBJ,), call_map=BADA3_CALLS)
        want = ref_normal_form(NON_ISA[0], consts, NON_ISA[1])
    except AlgebraError as ex:
        ctx.undecided('C19-R6', mc, norm(r)[:60], f'cannot normalise: {ex}')
    from ..conform import explain_difference
    d = explain_difference(code, want)
    if d is not None and not d[2]:
        ctx.undecided('C19-R6', mc, norm(r)[:60], d[1])
    ok, why = d is None, (d[1] if d is not None else '')
    ctx.ob('C19-R6', mc, 'non-ISA correction: ISA thrust × (1 − clip(ΔT_eff·max(0, Ctc5), 0, 0.4)), ΔT_eff = ΔT − Ctc4', bool(ok),
           'matches (3.7-4..7)' if ok else f'temperature correction of the maximum climb thrust changed: {why}',
           line=r.lineno)
    rule_engine_dispatch(ctx)


# --- R8: a formula is a function of its arguments ------------------------------------------------------------
#
# Thrust and fuel flow are evaluated "at the state passed in".  A method that may answer from something an earlier call
# left on the object (a last-result memo, a table in an attribute) is only such a function when the stored answer is
# returned under a key that determines, by content, every argument the computed answer reads.

_STATE_CONTROL = """
class M:
    def __init__(self, p):
        self.p = p
        self._key = None
        self._val = None
    def rating(self, altitude, v_tas, temperature):
        key = (np.asarray(altitude).tobytes(), np.asarray(temperature).tobytes())
        if key == self._key:
            return self._val
        out = self.isa(altitude, v_tas) * (1 - temperature * self.p.c)
        self._key = key
        self._val = out
        return out
"""


def _follow(fn, e, depth=0):
    """`e` with a local that is bound once replaced by what it is bound to: (expression, component index or None)"""
    from ..astutil import tuple_def_component
    idx = None
    while isinstance(e, ast.Name) and depth < 6:
        depth += 1
        v = single_def_value(fn, e.id)
        if v is not None:
            e = v
            continue
        tc = tuple_def_component(fn, e.id)
        if tc is None:
            break
        v, i = tc
        if isinstance(v, (ast.Tuple, ast.List)) and len(v.elts) > i:
            e = v.elts[i]
            continue
        e, idx = v, i
        while isinstance(e, ast.Name) and depth < 6:
            depth += 1
            v = single_def_value(fn, e.id)
            if v is None:
                break
            e = v
        break
    return e, idx


def _state_attr(fn, e, state):
    """name of the run-time instance attribute `e` is read from (self.a, self.a[k], self.a.get(k), a component of it)"""
    e, _ = _follow(fn, e)
    while True:
        if isinstance(e, ast.Subscript) and norm(e.value) in ('self.__dict__', 'vars(self)') and isinstance(e.slice, ast.Constant):
            return e.slice.value if e.slice.value in state else None
        if isinstance(e, ast.Subscript):
            e = e.value
        elif isinstance(e, ast.Call) and isinstance(e.func, ast.Attribute) and e.func.attr in ('get', 'copy', 'item') \
                and norm(e.func.value) not in ('self.__dict__', 'vars(self)'):
            e = e.func.value
        else:
            break
    if isinstance(e, ast.Attribute) and isinstance(e.value, ast.Name) and e.value.id == 'self' and e.attr in state:
        return e.attr
    # the same attribute read by name: getattr(self, 'a'[, default]), self.__dict__['a'] / .get('a') / .setdefault('a', …), vars(self)[…]
    key = None
    if isinstance(e, ast.Call) and isinstance(e.func, ast.Name) and e.func.id == 'getattr' and len(e.args) >= 2 and norm(e.args[0]) == 'self':
        key = e.args[1]
    elif isinstance(e, ast.Call) and isinstance(e.func, ast.Attribute) and e.func.attr in ('setdefault', 'get') and e.args \
            and norm(e.func.value) in ('self.__dict__', 'vars(self)'):
        key = e.args[0]
    if isinstance(key, ast.Constant) and key.value in state:
        return key.value
    return None


def stored_answers(fn, state):
    """[(return stmt, attribute, key expr or None)] for returns of `fn` that hand out instance state written at run time;
    the key is what is compared (== / in) with instance state on the way to that return"""
    from ..astutil import conjuncts
    out = []
    for r in walk_no_nested(fn):
        if not isinstance(r, ast.Return) or r.value is None:
            continue
        a = _state_attr(fn, r.value, state)
        if a is None:
            continue
        key = None
        for test, pol, _o in guards_of(r):
            for c, p_ in conjuncts(test, pol):
                if not (isinstance(c, ast.Compare) and len(c.ops) == 1):
                    continue
                op = c.ops[0]
                l, rr = c.left, c.comparators[0]
                if (isinstance(op, ast.Eq) and p_) or (isinstance(op, ast.NotEq) and not p_):
                    if _state_attr(fn, rr, state) and not _state_attr(fn, l, state):
                        key = l
                    elif _state_attr(fn, l, state) and not _state_attr(fn, rr, state):
                        key = rr
                elif (isinstance(op, ast.In) and p_) or (isinstance(op, ast.NotIn) and not p_):
                    if _state_attr(fn, rr, state):
                        key = l
        out.append((r, a, key))
    return out


def _runtime_state(k, classes):
    """attributes of objects of class k that a method other than __init__ stores to (in k, its bases or its subclasses)"""
    from ..resolve import self_attr_stores
    out = set()
    for c in classes:
        if any(b is k for b in c.mro()) or any(b is c for b in k.mro()):
            for nm, meth in c.methods.items():
                if nm not in ('__init__', '__post_init__'):
                    out |= {a for a, _st, _how in self_attr_stores(meth)}
                    for x in walk_no_nested(meth.node):
                        if isinstance(x, ast.Call) and isinstance(x.func, ast.Name) and x.func.id == 'setattr' and len(x.args) == 3 \
                                and norm(x.args[0]) == 'self' and isinstance(x.args[1], ast.Constant):
                            out.add(x.args[1].value)
                        if isinstance(x, ast.Call) and isinstance(x.func, ast.Attribute) and x.func.attr == 'setdefault' and x.args \
                                and norm(x.func.value) in ('self.__dict__', 'vars(self)') and isinstance(x.args[0], ast.Constant):
                            out.add(x.args[0].value)
                        if isinstance(x, ast.Subscript) and isinstance(x.ctx, ast.Store) and norm(x.value) in ('self.__dict__', 'vars(self)') \
                                and isinstance(x.slice, ast.Constant):
                            out.add(x.slice.value)
    out.discard('__dict__')
    return out


_CONTENT_CALLS = {'asarray', 'array', 'ascontiguousarray', 'asanyarray', 'tuple', 'float', 'tobytes', 'tolist', 'bytes', 'hash', 'ravel',
                  'flatten', 'copy', 'item', 'frozenset'}


def _param_deps(fn, e, params, seen=None):
    """parameters of `fn` the value of `e` can depend on: read in it, or in what a local read in it is bound to anywhere in the
    function (every binding of the local counts)"""
    from ..astutil import local_defs
    seen = set() if seen is None else seen
    out = set()
    for x in ast.walk(e):
        if not (isinstance(x, ast.Name) and isinstance(x.ctx, ast.Load)):
            continue
        if x.id in params:
            out.add(x.id)
        elif x.id not in seen:
            seen.add(x.id)
            for st in local_defs(fn, x.id):
                v = getattr(st, 'value', None)
                if isinstance(st, (ast.For, ast.AsyncFor)):
                    v = st.iter
                if v is not None:
                    out |= _param_deps(fn, v, params, seen)
                else:
                    for y in ast.walk(st):
                        if isinstance(y, ast.Name) and y.id in params:
                            out.add(y.id)
    return out


def _key_content(fn, key, params):
    """(by content, otherwise): parameters the key determines by content - the parameter itself, or through array / tuple / bytes
    conversions of all of it - and parameters that enter it some other way (a length, a shape, an element, an identity)"""
    from ..astutil import local_defs
    whole, partial = set(), set()

    def visit(e, depth=0):
        if isinstance(e, ast.Name):
            if e.id in params:
                whole.add(e.id)
            elif depth < 6:
                v = single_def_value(fn, e.id)
                if v is not None:
                    visit(v, depth + 1)
                else:
                    for st in local_defs(fn, e.id):
                        partial.update(_param_deps(fn, st, params))
            return
        if isinstance(e, (ast.Tuple, ast.List)):
            for x in e.elts:
                visit(x, depth)
            return
        if isinstance(e, ast.Starred):
            return visit(e.value, depth)
        if isinstance(e, ast.Call) and not e.keywords:
            nm = e.func.attr if isinstance(e.func, ast.Attribute) else (e.func.id if isinstance(e.func, ast.Name) else None)
            if nm in _CONTENT_CALLS:
                if isinstance(e.func, ast.Attribute) and not e.args:
                    return visit(e.func.value, depth)        # x.tobytes()
                if len(e.args) == 1 and (isinstance(e.func, ast.Name) or norm(e.func.value) in ('np', 'numpy')):
                    return visit(e.args[0], depth)           # np.asarray(x), tuple(x)
        if isinstance(e, ast.Constant):
            return
        partial.update(_param_deps(fn, e, params))
    visit(key)
    return whole, partial - whole


def refreshed_answers(fn, state, params):
    """[(store stmt, attribute, value stored, key expr, read)] - `self.a = V` (a written at run time) under a test that says a key
    differs from what an earlier call left on the object (`key != self.k`, `not key == self.k`, `key not in self.k`, alone or as
    one alternative of an `or`), in a function that also reads `self.a`: when the key is the same, the function goes on with the
    V of the earlier call"""
    out = []
    for st in walk_no_nested(fn):
        if not (isinstance(st, ast.Assign) and len(st.targets) == 1):
            continue
        t = st.targets[0]
        if not (isinstance(t, ast.Attribute) and isinstance(t.value, ast.Name) and t.value.id == 'self' and t.attr in state):
            continue
        deps = _param_deps(fn, st.value, params)
        if not deps:
            continue
        key = kattr = None
        for test, pol, _o in guards_of(st):
            if isinstance(test, ast.UnaryOp) and isinstance(test.op, ast.Not):
                test, pol = test.operand, not pol
            alts = test.values if (isinstance(test, ast.BoolOp) and isinstance(test.op, ast.Or) and pol) else [test]
            for alt in alts:
                for c, p_ in conjuncts_(alt, pol):
                    if not (isinstance(c, ast.Compare) and len(c.ops) == 1):
                        continue
                    op, l, rr = c.ops[0], c.left, c.comparators[0]
                    if (isinstance(op, ast.NotEq) and p_) or (isinstance(op, ast.Eq) and not p_):
                        if _state_attr(fn, rr, state) and not _state_attr(fn, l, state):
                            key, kattr = l, _state_attr(fn, rr, state)
                        elif _state_attr(fn, l, state) and not _state_attr(fn, rr, state):
                            key, kattr = rr, _state_attr(fn, l, state)
                    elif (isinstance(op, ast.NotIn) and p_) or (isinstance(op, ast.In) and not p_):
                        if _state_attr(fn, rr, state):
                            key, kattr = l, _state_attr(fn, rr, state)
        if key is None:
            continue
        if isinstance(key, ast.Constant) or (kattr == t.attr and not any(isinstance(x, ast.Compare) for x in ast.walk(key))
                                             and not _param_deps(fn, key, params)):
            continue               # `self.a` tested against a constant: not a key of the arguments (lazy construction)
        reads = [x for x in walk_no_nested(fn) if isinstance(x, ast.Attribute) and isinstance(x.ctx, ast.Load) and x.attr == t.attr
                 and isinstance(x.value, ast.Name) and x.value.id == 'self' and not any(x is y for y in ast.walk(key))]
        if t.attr == kattr or not reads:
            continue
        out.append((st, t.attr, st.value, key, reads[0]))
    return out


def conjuncts_(e, pol):
    from ..astutil import conjuncts
    return conjuncts(e, pol)


def refreshed_verdict(fn, value, key, params):
    """('ok' | 'bad' | 'undecided', why) for a value kept on the object and recomputed only when `key` changes"""
    kexpr, _ = _follow(fn, key)
    ids = [c for c in ast.walk(kexpr) if isinstance(c, ast.Call) and isinstance(c.func, ast.Name) and c.func.id == 'id'
           and c.args and any(isinstance(x, ast.Name) and x.id in params for x in ast.walk(c.args[0]))]
    if ids:
        return 'bad', (f'the value of the earlier call is used when `{norm(ids[0])}` is the same *object identity* as last time: arrays '
                       'updated in place, or a new array at a recycled address, get the answer of the earlier contents')
    deps = _param_deps(fn, value, params)
    whole, partial = _key_content(fn, key, params)
    missing = sorted(deps - whole - partial)
    if missing:
        return 'bad', (f'what is kept is computed from {", ".join(sorted(deps))}, and the key `{norm(kexpr)[:70]}` says nothing about '
                       f'`{missing[0]}`: a later call with another `{missing[0]}` and the same key goes on with the earlier value')
    vague = sorted(deps & partial)
    if vague:
        return 'undecided', f'`{vague[0]}` enters the key `{norm(kexpr)[:70]}` in a form that is not evidently its whole content'
    return 'ok', 'every parameter the kept value is computed from enters the key by content'


def _key_verdict(fn, key, params):
    """(ok, why) for a stored answer handed out under `key`"""
    from .memo import key_covers_inputs
    if key is None:
        return None, 'no comparison of a key with the stored state guards the return'
    kexpr, _ = _follow(fn, key)
    ids = [c for c in ast.walk(kexpr) if isinstance(c, ast.Call) and isinstance(c.func, ast.Name) and c.func.id == 'id'
           and c.args and any(isinstance(x, ast.Name) and x.id in params for x in ast.walk(c.args[0]))]
    if ids:
        return False, (f'the stored answer is returned when `{norm(ids[0])}` is the same *object identity* as last time: arrays updated in '
                       'place, or a new array at a recycled address, get the thrust of the earlier contents')
    ok, why = key_covers_inputs(fn, key, params)
    return ok, why


def rule_state(ctx):
    prog = ctx.prog
    m = prog.module(MODEL)
    ctl = ast.parse(_STATE_CONTROL).body[0]
    for x in ast.walk(ctl):
        for ch in ast.iter_child_nodes(x):
            ch._parent = x
    cfn = next(x for x in ctl.body if isinstance(x, ast.FunctionDef) and x.name == 'rating')
    sa_ = stored_answers(cfn, {'_key', '_val'})
    ctx.control('C19-R8', len(sa_) == 1 and sa_[0][2] is not None and _key_verdict(cfn, sa_[0][2], ['altitude', 'v_tas', 'temperature'])[0] is False,
                'embedded last-result memo keyed on altitude and temperature only (v_tas read, not in the key) is rejected')
    classes = list(m.classes.values())
    n = 0
    for fi in m.functions.values():
        if fi.cls is None or fi.name.startswith('__') or '.<locals>.' in fi.qualname:
            continue
        n += 1
        if memo_method(fi) is not None:
            continue           # a compute-once accessor answers for whatever computation it is handed: judged at its call sites
        state = _runtime_state(fi.cls, classes)
        if not state:
            continue
        params = [p_ for p_ in fi.params if p_ not in ('self', 'cls')]
        for r, attr, key in stored_answers(fi.node, state):
            ok, why = _key_verdict(fi.node, key, params)
            if ok is None:
                if not params:
                    continue
                ctx.undecided('C19-R8', fi, f'return {norm(r.value)[:40]}', f'`self.{attr}` (written at run time) is returned, and {why}')
            ctx.ob('C19-R8', fi, f'stored `self.{attr}` returned under key {norm(_follow(fi.node, key)[0])[:60]}', ok,
                   why if ok else f'{why}: the method answers for the state of an earlier call, not the one passed in '
                   '(thrust limits and fuel flow of another altitude / speed / temperature enter the mass integration)',
                   line=r.lineno)
        for st, attr, val, key, rd in refreshed_answers(fi.node, state, params):
            v, why = refreshed_verdict(fi.node, val, key, params)
            if v == 'undecided':
                ctx.undecided('C19-R8', fi, f'self.{attr}', f'`self.{attr}` is recomputed only when a key changes, and {why}')
            ctx.ob('C19-R8', fi, f'`self.{attr}` kept between calls, recomputed when {norm(_follow(fi.node, key)[0])[:60]} changes', v == 'ok',
                   why if v == 'ok' else f'{why}: the method goes on with the state of an earlier call, not the one passed in '
                   '(thrust limits and fuel flow of another altitude / speed / temperature enter the mass integration)',
                   line=st.lineno)
    # answers kept on another object (a flight-state record with a compute-once accessor): each call site
    shared_seen = set()
    judged = set()
    for pm_ in _package_modules(prog):
        for g in pm_.functions.values():
            judged |= {id(c) for c, _k, _f, _d in memo_calls(prog, g)}
    for nm, lst in _memo_methods(prog).items():
        for pm_, cls_, fn_, n_, par_ in _attr_mentions(prog).get(nm, ()):
            if isinstance(par_, ast.Call) and par_.func is n_ and id(par_) not in judged:
                ctx.undecided('C19-R8', lst[0][1], norm(par_)[:60], f'a call of the compute-once accessor `{nm}` (line {par_.lineno}) on an object whose '
                              'class is not evident: it cannot be shown that the answer handed out is the one this call would compute')
            elif not (isinstance(par_, ast.Call) and par_.func is n_):
                ctx.undecided('C19-R8', lst[0][1], norm(par_ or n_)[:60], f'the compute-once accessor `{nm}` is used other than by calling it (line {n_.lineno})')
    for g in m.functions.values():
        if '.<locals>.' in g.qualname:
            continue
        for c, k, f, d in memo_calls(prog, g):
            vc = prog.__dict__.setdefault('_c19_site_verdicts', {})
            if id(c) not in vc:
                vc[id(c)] = (c, memo_site(prog, g, c, k, f, d))
            v, x = vc[id(c)][1]
            if v == 'undecided':
                ctx.undecided('C19-R8', g, norm(c)[:60], f'an answer kept on the object by {k.name}.{f.name} is handed out, and it cannot be '
                              f'shown that it is the one this call would compute: {x}')
            own = _store_ownership(prog, k, f, d)
            if v == 'bad' and own[0] == 'shared':
                if (k.name, f.name) in shared_seen:
                    continue
                shared_seen.add((k.name, f.name))
            ctx.ob('C19-R8', g, f'`{norm(c)[:60]}` answers with what this call computes', v == 'ok',
                   f'the store is the object\'s own, the key {norm(c.args[0])[:30] if c.args else ""} always stands for this computation, which reads '
                   'only the object and self' if v == 'ok' else
                   f'{x}: thrust limits / descent thrust of another altitude, speed or temperature enter the thrust, the fuel flow and the mass integration',
                   line=(own[2] if v == 'bad' and own[0] == 'shared' else c.lineno))
    ctx.floor('C19-R8', n, 30, 'methods of the BADA-3 model classes examined for answers from instance state')


def _live_block(block):
    """(the `return` statements of a block that can be reached, whether the block always leaves): what follows a return /
    raise / break / continue in the same block is dead, and so is the arm of an `if` on literals that is not taken"""
    out = []
    for st in block:
        if isinstance(st, ast.Return):
            out.append(st)
            return out, True
        if isinstance(st, (ast.Raise, ast.Break, ast.Continue)):
            return out, True
        if isinstance(st, (ast.FunctionDef, ast.AsyncFunctionDef, ast.ClassDef)):
            continue
        if isinstance(st, ast.If):
            t = const_truth(st.test)
            arms = [st.body, st.orelse] if t is None else [st.body if t else st.orelse]
            res = [_live_block(a) for a in arms]
            for r, _ in res:
                out += r
            if all(done for _, done in res) and (t is not None or st.orelse):
                return out, True
            continue
        for f in ('body', 'orelse', 'finalbody'):
            out += _live_block(getattr(st, f, None) or [])[0]
        for h in getattr(st, 'handlers', None) or []:
            out += _live_block(h.body)[0]
        for c in getattr(st, 'cases', None) or []:
            out += _live_block(c.body)[0]
    return out, False


def _live_returns(block):
    return _live_block(block)[0]


def computed_return(fi, classes):
    """the one `return` of a method that hands out a value computed in this call (stored answers are R8's business)"""
    rets = [n for n in _live_returns(fi.node.body) if n.value is not None]
    if len(rets) > 1 and fi.cls is not None:
        st = _runtime_state(fi.cls, classes)
        memo = {id(r) for r, _a, _k in stored_answers(fi.node, st)} if st else set()
        rets = [r for r in rets if id(r) not in memo]
    return rets[0].value if len(rets) == 1 else None


# --- engine selection: the dispatch decided by specialising the function on each engine type ---------------

ENGINE_TYPE = f'{OBJ}.engine_type'
ENGINE_SLOT = 'self.engine_model'
ENGINE_MODELS = {'Jet': 'Bada3JetEngineModel', 'Turboprop': 'Bada3TurbopropEngineModel',
                 'Piston': 'Bada3PistonEngineModel'}


class _Undecided(Exception):
    pass


class _Raised(Exception):
    def __init__(self, name):
        super().__init__(name)
        self.name = name


class _Ref:
    """a value known only by name (class, function, object path)"""

    def __init__(self, name):
        self.name = name

    def __eq__(self, o):
        return isinstance(o, _Ref) and o.name == self.name

    def __hash__(self):
        return hash(('ref', self.name))

    def __repr__(self):
        return self.name


class _Inst:
    """result of calling a named callable"""

    def __init__(self, callee, args, kwargs):
        self.callee, self.args, self.kwargs = callee, args, kwargs

    def __repr__(self):
        a = [repr(x) for x in self.args] + [f'{k}={v!r}' for k, v in self.kwargs.items()]
        return f'{self.callee}({", ".join(a)})'


_UNKNOWN = object()
_STR_METHODS = ('lower', 'upper', 'strip', 'casefold', 'title', 'capitalize')
_SEQ_BUILTINS = ('list', 'tuple', 'dict', 'enumerate', 'zip', 'reversed', 'iter', 'next', 'len')

# exception classes a failed table lookup raises, with the handler names that catch them
_CATCHES = {'KeyError': {'KeyError', 'LookupError', 'Exception', 'BaseException'},
            'IndexError': {'IndexError', 'LookupError', 'Exception', 'BaseException'},
            'ValueError': {'ValueError', 'Exception', 'BaseException'},
            'StopIteration': {'StopIteration', 'Exception', 'BaseException'},
            'AttributeError': {'AttributeError', 'Exception', 'BaseException'}}


class _Specialiser:
    """Follow one function along the single path it takes when some access paths have known constant values
    (here: the engine type).  Tests, `match` cases, conditional expressions and table look-ups that depend only on
    known values are decided; everything else is carried as an opaque value and only matters if a decision or
    the requested result depends on it (then: undecided).  Nothing is executed: this is evaluation of the
    extracted syntax over an explicit environment."""

    def __init__(self, prog, fi, env):
        self.prog, self.fi = prog, fi
        self.env = dict(env)
        self.g = _cfg(fi.node)
        self.subjects = {}
        self.depth = 0
        self.iters = {}       # `for` node -> the items still to come
        self._bodies = {}     # `for` node -> ids of the syntax inside its body

    # -- values
    def _global(self, name):
        m = self.fi.module
        r = self.prog.resolve_name(m, name)
        if isinstance(r, tuple) and r[0] == 'const':
            saved, self.env = self.env, {}
            try:
                return self.val(r[1].constants[r[2]])
            except _Undecided:
                return _UNKNOWN
            finally:
                self.env = saved
        if r is not None and hasattr(r, 'name'):
            return _Ref(r.name)
        return _Ref(name)

    def _class_const(self, attr):
        c = self.fi.cls
        for k in (c.mro() if c is not None else []):
            v = k.class_assignments().get(attr)
            if v is not None:
                saved, self.env = self.env, {}
                try:
                    return self.val(v)
                except _Undecided:
                    return _UNKNOWN
                finally:
                    self.env = saved
        return None

    def val(self, e):
        if isinstance(e, ast.Constant):
            return e.value
        if isinstance(e, ast.Name):
            return self.env[e.id] if e.id in self.env else self._global(e.id)
        if isinstance(e, ast.Attribute):
            t = norm(e)
            if t in self.env:
                return self.env[t]
            if isinstance(e.value, ast.Name) and e.value.id in ('self', 'cls') \
                    or norm(e.value) in ('type(self)', 'self.__class__'):
                v = self._class_const(e.attr)
                if v is not None:
                    return v
            d = _dotted(e)
            if d is not None:
                head, _, rest = d.partition('.')
                if head not in self.env and head in self.fi.module.imports:
                    r = self.prog.resolve_dotted(self.fi.module.imports[head] + '.' + rest)
                    if r is not None and hasattr(r, 'name'):
                        return _Ref(r.name)
            bv = self.val(e.value)
            if isinstance(bv, _Ref):
                full = f'{bv.name}.{e.attr}'
                return self.env[full] if full in self.env else _Ref(full)
            return _UNKNOWN
        if isinstance(e, ast.Dict):
            out = {}
            for k, v in zip(e.keys, e.values):
                if k is None:
                    return _UNKNOWN
                kv = self.val(k)
                if kv is _UNKNOWN or isinstance(kv, (_Ref, _Inst, dict, list)):
                    return _UNKNOWN
                out[kv] = self.val(v)
            return out
        if isinstance(e, (ast.Tuple, ast.List, ast.Set)):
            vs = [self.val(x) for x in e.elts]
            return _UNKNOWN if any(v is _UNKNOWN for v in vs) else tuple(vs)
        if isinstance(e, ast.Subscript):
            d, k = self.val(e.value), self.val(e.slice)
            if isinstance(d, _Ref) and isinstance(k, str):
                # item access on an object that forwards items to attributes (the parameter object does)
                full = f'{d.name}.{k}'
                return self.env[full] if full in self.env else _UNKNOWN
            if isinstance(d, dict) and k is not _UNKNOWN and not isinstance(k, (_Inst, dict)):
                if k in d:
                    return d[k]
                raise _Raised('KeyError')
            if isinstance(d, tuple) and isinstance(k, int) and not isinstance(k, bool):
                if -len(d) <= k < len(d):
                    return d[k]
                raise _Raised('IndexError')
            return _UNKNOWN
        if isinstance(e, ast.BinOp) and isinstance(e.op, (ast.Add, ast.Sub, ast.Mult)):
            a, b = self.val(e.left), self.val(e.right)
            if all(isinstance(x, int) and not isinstance(x, bool) for x in (a, b)):
                return a + b if isinstance(e.op, ast.Add) else a - b if isinstance(e.op, ast.Sub) else a * b
            return _UNKNOWN
        if isinstance(e, ast.IfExp):
            return self.val(e.body if self.truth(e.test) else e.orelse)
        if isinstance(e, ast.NamedExpr):
            v = self.val(e.value)
            self.env[e.target.id] = v
            return v
        if isinstance(e, (ast.Compare, ast.BoolOp)) or isinstance(e, ast.UnaryOp) and isinstance(e.op, ast.Not):
            try:
                return self.truth(e)
            except _Undecided:
                return _UNKNOWN
        if isinstance(e, (ast.ListComp, ast.GeneratorExp, ast.DictComp)):
            saved = dict(self.env)
            try:
                out = self._comprehend(e, 0)
            except _Undecided:
                return _UNKNOWN
            finally:
                self.env = saved
            if isinstance(e, ast.DictComp):
                if any(k is _UNKNOWN or isinstance(k, (_Ref, _Inst, dict, list)) for k, _ in out):
                    return _UNKNOWN
                return dict(out)
            return _UNKNOWN if any(v is _UNKNOWN for v in out) else tuple(out)
        if isinstance(e, ast.Call):
            f = e.func
            if isinstance(f, ast.Attribute) and f.attr in ('items', 'keys', 'values') and not e.args and not e.keywords:
                d = self.val(f.value)
                if isinstance(d, dict):
                    vs = list(d.items() if f.attr == 'items' else d if f.attr == 'keys' else d.values())
                    flat = [x for p in vs for x in p] if f.attr == 'items' else vs
                    return _UNKNOWN if any(x is _UNKNOWN for x in flat) else tuple(vs)
            if isinstance(f, ast.Name) and f.id in _SEQ_BUILTINS and f.id not in self.env and not e.keywords \
                    and self.prog.resolve_name(self.fi.module, f.id) is None \
                    and not any(isinstance(a, ast.Starred) for a in e.args):
                r = self._seq_builtin(f.id, e.args)
                if r is not NotImplemented:
                    return r
            if isinstance(f, ast.Attribute) and f.attr == 'index' and len(e.args) == 1 and not e.keywords:
                d = self.val(f.value)
                if isinstance(d, tuple):
                    k = self.val(e.args[0])
                    if k is _UNKNOWN or isinstance(k, _Inst):
                        return _UNKNOWN
                    if k in d:
                        return d.index(k)
                    raise _Raised('ValueError')
            if isinstance(f, ast.Attribute) and f.attr == 'get' and 1 <= len(e.args) <= 2 and not e.keywords:
                d = self.val(f.value)
                if isinstance(d, dict):
                    k = self.val(e.args[0])
                    if k is _UNKNOWN or isinstance(k, (_Inst, dict)):
                        return _UNKNOWN
                    return d[k] if k in d else (self.val(e.args[1]) if len(e.args) == 2 else None)
            if isinstance(f, ast.Name) and f.id == 'getattr' and 2 <= len(e.args) <= 3 and f.id not in self.env:
                o, a = self.val(e.args[0]), self.val(e.args[1])
                if isinstance(o, _Ref) and isinstance(a, str):
                    full = f'{o.name}.{a}'
                    return self.env[full] if full in self.env else _Ref(full)
                return _UNKNOWN
            if isinstance(f, ast.Attribute) and f.attr in _STR_METHODS and not e.args and not e.keywords:
                b = self.val(f.value)
                if isinstance(b, str):
                    return getattr(b, f.attr)()
                if not isinstance(b, _Ref):
                    return _UNKNOWN
            r = self._open(e)
            if r is not NotImplemented:
                return r
            fv = self.val(f)
            if isinstance(fv, _Ref):
                if any(isinstance(a, ast.Starred) for a in e.args) or any(k.arg is None for k in e.keywords):
                    return _Inst(fv.name, [_UNKNOWN], {})
                return _Inst(fv.name, [self.val(a) for a in e.args], {k.arg: self.val(k.value) for k in e.keywords})
            if fv is None:
                raise _Raised('TypeError')
            return _UNKNOWN
        return _UNKNOWN

    def _open(self, e):
        """A call of one of the package's own functions, static / class methods, or of a method of the same object whose
        definition is the same for every class the object can have: followed with the arguments bound, so a selection
        moved into a helper (with its own loop, early returns, raises) decides like the inline form.  -> the value
        returned (stores to self.* carried over) | NotImplemented when the call is not one of these or cannot be
        followed."""
        if self.depth >= 3:
            return NotImplemented
        f = e.func
        if isinstance(f, ast.Name) and f.id in self.env or isinstance(f, ast.Attribute) and norm(f) in self.env:
            return NotImplemented
        from ..resolve import resolve_call
        try:
            callee = resolve_call(self.prog, self.fi, e)
        except Exception:
            return NotImplemented
        if callee is None or callee is self.fi or callee.name in ('__init__', '__post_init__', '__new__') \
                or not callee.file.startswith('src/') or isinstance(callee.node, ast.AsyncFunctionDef) \
                or any(isinstance(x, (ast.Yield, ast.YieldFrom)) for x in ast.walk(callee.node)):
            return NotImplemented
        decos = {norm(d) for d in callee.node.decorator_list}
        if decos - {'staticmethod', 'classmethod'}:
            return NotImplemented
        bound = callee.cls is not None and 'staticmethod' not in decos
        own = bound and 'classmethod' not in decos
        if own:
            k = self.fi.cls
            if k is None or self.fi.params[:1] != ['self'] or callee.params[:1] != ['self'] \
                    or not (isinstance(f, ast.Attribute) and isinstance(f.value, ast.Name) and f.value.id == 'self') \
                    or any(c.find_method(callee.name) != callee
                           for c in self.prog.all_classes() if any(b is k for b in c.mro())):
                return NotImplemented
        b = bind_args(e, callee.node, bound)
        if b is None:
            return NotImplemented
        given = {id(a) for a in e.args} | {id(kw.value) for kw in e.keywords}
        sub = _Specialiser(self.prog, callee, {k: v for k, v in self.env.items() if '.' in k})
        sub.depth = self.depth + 1
        try:
            vals = {p: (self.val(a) if id(a) in given else sub.val(a)) for p, a in b.items()}
            sub.env.update(vals)
            how, res = sub.run()
        except _Undecided:
            return NotImplemented
        if how == 'raise':
            raise _Raised(res)
        if own:
            for k, v in res.items():
                if k.startswith('self.'):
                    self.env[k] = v
        return res.get('<return>')

    def _is_class(self, name):
        ms = list(self.prog.modules.values())
        return any(name in m.classes for m in ms) and not any(name in m.functions for m in ms)

    def _sequence(self, e):
        """the items a `for` over `e` visits, in order, when `e` is a known finite sequence"""
        if isinstance(e, (ast.Set, ast.SetComp)):
            raise _Undecided(f'`{norm(e)[:50]}`: the order a set is visited in is not fixed')
        v = self.val(e)
        if isinstance(v, tuple):
            return list(v)
        if isinstance(v, dict):
            if any(x is _UNKNOWN for x in v.values()):
                raise _Undecided(f'`{norm(e)[:50]}`: the sequence visited is not known')
            return list(v)
        raise _Undecided(f'`{norm(e)[:50]}`: the sequence visited is not known')

    def _comprehend(self, e, k):
        """items of a comprehension (pairs for a dict comprehension), generators from the k-th on"""
        if k == len(e.generators):
            if isinstance(e, ast.DictComp):
                return [(self.val(e.key), self.val(e.value))]
            return [self.val(e.elt)]
        gen = e.generators[k]
        if gen.is_async:
            raise _Undecided('async comprehension')
        out = []
        for item in self._sequence(gen.iter):
            self._store(gen.target, item)
            if all(self.truth(c) for c in gen.ifs):
                out += self._comprehend(e, k + 1)
        return out

    def _seq_builtin(self, name, args):
        """list / tuple / dict / enumerate / zip / reversed / next / len over known finite sequences"""
        def seq(a):
            try:
                return self._sequence(a)
            except _Undecided:
                return None
        if name in ('list', 'tuple', 'reversed', 'iter', 'len') and len(args) == 1:
            xs = seq(args[0])
            if xs is None:
                return _UNKNOWN
            return len(xs) if name == 'len' else tuple(reversed(xs)) if name == 'reversed' else tuple(xs)
        if name == 'dict' and len(args) == 1:
            v = self.val(args[0])
            if isinstance(v, dict):
                return dict(v)
            if isinstance(v, tuple) and all(isinstance(p, tuple) and len(p) == 2 and p[0] is not _UNKNOWN
                                            and not isinstance(p[0], (_Ref, _Inst, dict, list)) for p in v):
                return dict(v)
            return _UNKNOWN
        if name == 'enumerate' and 1 <= len(args) <= 2:
            xs = seq(args[0])
            start = self.val(args[1]) if len(args) == 2 else 0
            if xs is None or not isinstance(start, int) or isinstance(start, bool):
                return _UNKNOWN
            return tuple((start + i, x) for i, x in enumerate(xs))
        if name == 'zip' and args:
            cols = [seq(a) for a in args]
            return _UNKNOWN if any(c is None for c in cols) else tuple(zip(*cols))
        if name == 'next' and 1 <= len(args) <= 2:
            xs = seq(args[0])
            if xs is None:
                return _UNKNOWN
            if xs:
                return xs[0]
            if len(args) == 2:
                return self.val(args[1])
            raise _Raised('StopIteration')
        return NotImplemented

    def truth(self, e):
        if isinstance(e, ast.UnaryOp) and isinstance(e.op, ast.Not):
            return not self.truth(e.operand)
        if isinstance(e, ast.BoolOp):
            for v in e.values:
                t = self.truth(v)
                if isinstance(e.op, ast.And) and not t:
                    return False
                if isinstance(e.op, ast.Or) and t:
                    return True
            return isinstance(e.op, ast.And)
        if isinstance(e, ast.Compare):
            left = self.val(e.left)
            for op, c in zip(e.ops, e.comparators):
                right = self.val(c)
                if left is _UNKNOWN or right is _UNKNOWN:
                    raise _Undecided(f'`{norm(e)}` depends on a value that is not known')
                if isinstance(op, (ast.Eq, ast.NotEq)):
                    if isinstance(left, _Inst) or isinstance(right, _Inst):
                        raise _Undecided(f'`{norm(e)}`: equality of a created object')
                    r = (left == right) == isinstance(op, ast.Eq)
                elif isinstance(op, (ast.Is, ast.IsNot)):
                    if isinstance(left, _Inst) or isinstance(right, _Inst):
                        # an instance of one of the package's classes is not None; other identities stay open
                        a, b = (left, right) if isinstance(left, _Inst) else (right, left)
                        if not (b is None and self._is_class(a.callee)):
                            raise _Undecided(f'`{norm(e)}`: identity of a created object')
                    same = (left is right) if (left is None or right is None or isinstance(left, bool)
                                               or isinstance(right, bool)) else (left == right)
                    r = same == isinstance(op, ast.Is)
                elif isinstance(op, (ast.In, ast.NotIn)):
                    if not isinstance(right, (dict, tuple, str)):
                        raise _Undecided(f'`{norm(e)}`: membership in an unknown container')
                    try:
                        r = (left in right) == isinstance(op, ast.In)
                    except TypeError:
                        raise _Undecided(f'`{norm(e)}`') from None
                elif all(isinstance(x, (int, float)) and not isinstance(x, bool) for x in (left, right)):
                    r = {ast.Lt: left < right, ast.LtE: left <= right, ast.Gt: left > right,
                         ast.GtE: left >= right}[type(op)]
                else:
                    raise _Undecided(f'`{norm(e)}`: ordering comparison')
                if not r:
                    return False
                left = right
            return True
        v = self.val(e)
        if v is _UNKNOWN:
            raise _Undecided(f'`{norm(e)}` is not known')
        if isinstance(v, (_Ref, _Inst)):
            return True
        return bool(v)

    def _matches(self, pat, subj):
        if isinstance(pat, ast.MatchValue):
            v = self.val(pat.value)
            if v is _UNKNOWN or subj is _UNKNOWN:
                raise _Undecided(f'case {norm(pat)}')
            return v == subj
        if isinstance(pat, ast.MatchSingleton):
            return subj is pat.value
        if isinstance(pat, ast.MatchOr):
            return any(self._matches(p, subj) for p in pat.patterns)
        if isinstance(pat, ast.MatchAs):
            ok = True if pat.pattern is None else self._matches(pat.pattern, subj)
            if ok and pat.name is not None:
                self.env[pat.name] = subj
            return ok
        raise _Undecided(f'case pattern `{norm(pat)}`')

    # -- control
    def _succ(self, n, lab):
        s = [b for b, l in self.g.succ[n] if l == lab]
        if len(s) != 1:
            raise _Undecided(f'no unique `{lab}` successor at `{self.g.nodes[n].text()[:50]}`')
        return s[0]

    def _store(self, t, v):
        if isinstance(t, ast.Name):
            self.env[t.id] = v
        elif isinstance(t, ast.Attribute):
            self.env[norm(t)] = v
        elif isinstance(t, (ast.Tuple, ast.List)):
            for i, x in enumerate(t.elts):
                self._store(x, v[i] if isinstance(v, tuple) and len(v) == len(t.elts) else _UNKNOWN)
        elif isinstance(t, ast.Subscript):
            base = t.value
            key = norm(base) if isinstance(base, ast.Attribute) else base.id if isinstance(base, ast.Name) else None
            if key is not None:
                self.env[key] = _UNKNOWN

    def _iterate(self, n, prev):
        """One visit of a `for` header: a `for` over a sequence whose items are known (a display, a table, its
        items() / keys() / values(), enumerate / zip / reversed of those) is walked item by item, the target bound to
        the item, so a table searched by a loop decides like the if/elif chain it replaces.  Reached from inside its
        own body (fall-through or `continue`) the loop goes on; reached from anywhere else it starts afresh."""
        s = self.g.nodes[n].stmt
        if isinstance(s, ast.AsyncFor):
            raise _Undecided(f'`{self.g.nodes[n].text()[:60]}`: an async loop is not followed')
        inside = self._bodies.get(n)
        if inside is None:
            inside = self._bodies[n] = {id(x) for b in s.body for x in ast.walk(b)}
        ps = self.g.nodes[prev].stmt if prev is not None else None
        if not (n in self.iters and ps is not None and id(ps) in inside):
            self.iters[n] = self._sequence(s.iter)
        if not self.iters[n]:
            del self.iters[n]
            return self._succ(n, 'f')
        self._store(s.target, self.iters[n].pop(0))
        return self._succ(n, 't')

    def _raise_at(self, n, name):
        """continue in the handler that catches `name`, or leave the function"""
        tgt = [b for b, l in self.g.succ[n] if l == 'e']
        while tgt:
            d = self.g.nodes[tgt[0]]
            if d.kind != 'dispatch':
                break
            outer = None
            for b, l in self.g.succ[d.id]:
                h = self.g.nodes[b]
                if h.kind == 'except':
                    ty = h.stmt.type
                    names = {'BaseException'} if ty is None else {
                        norm(x).split('.')[-1] for x in (ty.elts if isinstance(ty, ast.Tuple) else [ty])}
                    if names & _CATCHES.get(name, {name, 'Exception', 'BaseException'}):
                        if h.stmt.name:
                            self.env[h.stmt.name] = _UNKNOWN
                        return self._succ(h.id, 'n')
                else:
                    outer = b
            tgt = [outer] if outer is not None else []
        raise _Raised(name)

    def run(self, limit=400):
        """-> ('return', env) | ('raise', exception name)"""
        g = self.g
        n = g.entry
        prev = last = None
        for _ in range(limit):
            prev, last = last, n
            node = g.nodes[n]
            if n == g.exit:
                return 'return', self.env
            if n == g.raise_exit:
                return 'raise', '?'
            try:
                if node.kind in ('entry', 'join', 'finally', 'with'):
                    n = self._succ(n, 'n')
                elif node.kind == 'test':
                    n = self._succ(n, 't' if self.truth(node.stmt.test) else 'f')
                elif node.kind == 'iter':
                    n = self._iterate(n, prev)
                elif node.kind == 'match':
                    sv = self.val(node.stmt.subject)
                    for c in node.stmt.cases:
                        self.subjects[id(c)] = sv
                    n = self._succ(n, 'n')
                elif node.kind == 'case':
                    c = node.stmt
                    ok = self._matches(c.pattern, self.subjects[id(c)]) and (c.guard is None or self.truth(c.guard))
                    n = self._succ(n, 't' if ok else 'f')
                elif node.kind == 'stmt':
                    s = node.stmt
                    if isinstance(s, ast.Return):
                        if s.value is not None:
                            self.env['<return>'] = self.val(s.value)
                        return 'return', self.env
                    if isinstance(s, ast.Raise):
                        nm = '?'
                        if s.exc is not None:
                            x = s.exc.func if isinstance(s.exc, ast.Call) else s.exc
                            nm = (_dotted(x) or '?').split('.')[-1]
                        n = self._raise_at(n, nm)
                        continue
                    if isinstance(s, ast.Assert):
                        try:
                            if not self.truth(s.test):
                                n = self._raise_at(n, 'AssertionError')
                                continue
                        except _Undecided:
                            pass
                    elif isinstance(s, ast.Assign):
                        v = self.val(s.value)
                        for t in s.targets:
                            self._store(t, v)
                    elif isinstance(s, ast.AnnAssign):
                        if s.value is not None:
                            self._store(s.target, self.val(s.value))
                    elif isinstance(s, ast.AugAssign):
                        cur = ast.copy_location(ast.Name(id=s.target.id, ctx=ast.Load()), s.target) \
                            if isinstance(s.target, ast.Name) else None
                        self._store(s.target, _UNKNOWN if cur is None else
                                    self.val(ast.BinOp(left=cur, op=s.op, right=s.value)))
                    elif isinstance(s, ast.Expr):
                        v = self.val(s.value)
                        # setattr(self, 'name', value) is a store
                        if isinstance(s.value, ast.Call) and isinstance(s.value.func, ast.Name) \
                                and s.value.func.id == 'setattr' and len(s.value.args) == 3:
                            o, a, x = s.value.args
                            av = self.val(a)
                            if isinstance(av, str):
                                self.env[f'{norm(o)}.{av}'] = self.val(x)
                            else:
                                raise _Undecided(f'`{norm(s)}` stores to an attribute that is not known')
                    elif isinstance(s, ast.Delete):
                        for t in s.targets:
                            self._store(t, _UNKNOWN)
                    n = self._succ(n, 'n')
                else:
                    raise _Undecided(f'`{node.text()[:60]}` is not followed')
            except _Raised as r:
                try:
                    n = self._raise_at(n, r.name)
                except _Raised as r2:
                    return 'raise', r2.name
        raise _Undecided('path does not end')


def _cfg(fn):
    from ..cfg import CFG
    return CFG(fn)


def _dotted(e):
    from ..loader import dotted_name
    return dotted_name(e)


def rule_engine_dispatch(ctx):
    """Each engine type receives its own engine model.  Decided by following `create_engine_model` once per engine
    type with `aircraft_parameters.engine_type` bound to that string: whatever the dispatch is written as (if/elif,
    guard clauses, `match`, a dict of classes, a conditional expression, a loop over a table of (name, class) pairs,
    a selection moved into a helper), the value left in `self.engine_model` must be
    an instance of that type's model class built from `self.aircraft_parameters`."""
    prog = ctx.prog
    m = prog.module(MODEL)
    ce = m.func('Bada3FuelBurnModel.create_engine_model')
    n = 0
    for et, want in ENGINE_MODELS.items():
        sp = _Specialiser(prog, ce, {ENGINE_TYPE: et, OBJ: _Ref(OBJ)})
        try:
            how, res = sp.run()
        except _Undecided as u:
            ctx.undecided('C19-R6', ce, f'engine type {et!r}', f'dispatch cannot be followed: {u}')
        n += 1
        if how == 'raise':
            ctx.ob('C19-R6', ce, f'engine type {et!r} -> {want}', False,
                   f'create_engine_model raises {res} for engine type {et!r}: the {et.lower()} fuel-flow/thrust model '
                   'is never created', line=ce.node.lineno)
            continue
        got = res.get(ENGINE_SLOT, res.get('<return>'))
        if got is None or got is _UNKNOWN or not isinstance(got, _Inst):
            ctx.undecided('C19-R6', ce, f'engine type {et!r}',
                          f'the value left in {ENGINE_SLOT} is not a recognisable constructor call ({got!r})')
        ok = got.callee == want
        args = list(got.args) + list(got.kwargs.values())
        okp = len(args) == 1 and args[0] == _Ref(OBJ)
        ctx.ob('C19-R6', ce, f'engine type {et!r} -> {want}', ok,
               f'{got!r}' if ok else
               f'engine type {et!r} is given {got.callee}: an engine type is mapped to the wrong fuel-flow/thrust model',
               line=ce.node.lineno)
        if ok:
            ctx.ob('C19-R6', ce, f'{want} built from the model\'s own parameter object', okp,
                   OBJ if okp else f'{got!r}: the engine model does not read the parameters of this aircraft',
                   line=ce.node.lineno, nontrivial=False)
    ctx.floor('C19-R6/dispatch', n, len(ENGINE_MODELS), 'engine types followed through create_engine_model')


# --- R9: the entry points evaluate the specific ground range at the flight state they were given -------------
#
# A small abstract interpretation of each entry point over its CFG.  Values: a parameter of the entry point as received
# ('P'), a tuple / record with its components ('T': displays, NamedTuple / dataclass constructors, _replace), a mapping
# with literal keys ('D'), the result of a specific-ground-range evaluation with the values bound to its parameters ('S'),
# the result of some other call, identified by the call sites it can come from ('C'), any other expression identified by
# its text and the values of its names ('X'), a function ('F'), unknown ('?').  Assignments, unpacking, field reads,
# * / ** expansion and calls of the package's own helpers (opened with the arguments bound) move values; a join keeps what
# both sides agree on.  Nothing is executed.

_TOP = ('?',)
_COERCIONS = ('np.asarray', 'np.asanyarray', 'np.array', 'np.atleast_1d', 'np.ascontiguousarray', 'np.copy',
              'numpy.asarray', 'numpy.array', 'numpy.copy')
SGR_ROLES = ('temperature', 'altitude', 'v_tas', 'rocd', 'acceleration', 'in_cruise', 'groundspeed')
_ROLE_WHAT = {'v_tas': 'true airspeed', 'groundspeed': 'ground speed', 'rocd': 'rate of climb / descent',
              'in_cruise': 'cruise flag'}


def _vjoin(a, b):
    if a == b:
        return a
    if a[0] == b[0] == 'C':
        return ('C', a[1] | b[1])
    if a[0] == b[0] == 'T' and a[1] == b[1] and a[2] == b[2] and len(a[3]) == len(b[3]):
        return ('T', a[1], a[2], tuple(_vjoin(x, y) for x, y in zip(a[3], b[3])))
    if a[0] == b[0] and a[0] in ('D', 'S') and [k for k, _ in a[1]] == [k for k, _ in b[1]]:
        return (a[0], tuple((k, _vjoin(x, y)) for (k, x), (_, y) in zip(a[1], b[1])))
    return _TOP


def _envjoin(a, b):
    if a is b:
        return a
    return {k: (_vjoin(a[k], b[k]) if k in a and k in b else _TOP) for k in set(a) | set(b)}


def _record_fields(prog, module, e):
    """field names of the record class `e` names (NamedTuple, or a dataclass without __init__), else None"""
    k = prog.resolve_class_expr(module, e)
    if k is None:
        return None
    is_nt = any(b.split('.')[-1] == 'NamedTuple' for b in k.base_exprs)
    is_dc = any(norm(d).split('(')[0].split('.')[-1] == 'dataclass' for d in k.node.decorator_list)
    if not (is_nt or is_dc) or k.find_method('__init__') is not None or k.find_method('__new__') is not None:
        return None
    out = []
    for c in reversed(k.mro()):
        for st in c.node.body:
            if isinstance(st, ast.AnnAssign) and isinstance(st.target, ast.Name) and 'ClassVar' not in norm(st.annotation):
                out = [x for x in out if x[0] != st.target.id] + [(st.target.id, st.value)]
    return k.name, out


class StateFlow:
    """abstract interpretation of one function (see above); `anchors` maps FunctionInfo -> 'sgr' | 'update'"""

    def __init__(self, prog, anchors, records):
        self.prog, self.anchors, self.records = prog, anchors, records
        self.recording = False
        self.stack = []           # call sites (line numbers) of the helpers being opened
        self._active = []         # (call, callee) of the helpers being opened
        self._rets = []           # per function being run: the values it returns

    # -- expressions
    def _bind(self, fi, c, fn, drop_self, env):
        """parameter -> value for call `c` of `fn`, with * of tuples and ** of mappings expanded"""
        pos, kw = [], {}
        for a in c.args:
            if isinstance(a, ast.Starred):
                v = self.ev(fi, a.value, env)
                if v[0] != 'T':
                    return None
                pos += list(v[3])
            else:
                pos.append(self.ev(fi, a, env))
        for k in c.keywords:
            v = self.ev(fi, k.value, env)
            if k.arg is None:
                if v[0] != 'D':
                    return None
                for kk, vv in v[1]:
                    if kk in kw:
                        return None
                    kw[kk] = vv
            else:
                if k.arg in kw:
                    return None
                kw[k.arg] = v
        ps, kwonly = _fn_params(fn, drop_self)
        if len(pos) > len(ps):
            return None
        out = dict(zip(ps, pos))
        for k, v in kw.items():
            if k in out or k not in ps + kwonly:
                return None
            out[k] = v
        a = fn.args
        allpos = [x.arg for x in a.posonlyargs + a.args]
        for name, d in zip(allpos[len(allpos) - len(a.defaults):], a.defaults):
            out.setdefault(name, ('X', norm(d), ()))
        for x, d in zip(a.kwonlyargs, a.kw_defaults):
            if d is not None:
                out.setdefault(x.arg, ('X', norm(d), ()))
        if any(p_ not in out for p_ in ps + kwonly):
            return None
        return out

    def _opaque(self, fi, e, env):
        names = sorted({x.id for x in ast.walk(e) if isinstance(x, ast.Name) and x.id in env})
        if any(isinstance(x, (ast.Call, ast.Await, ast.Yield, ast.YieldFrom)) for x in ast.walk(e)):
            for x in ast.walk(e):
                if isinstance(x, ast.Call):
                    self.ev(fi, x, env)          # for the calls it contains (recorded when recording)
            return ('C', frozenset([id(e)]))
        return ('X', norm(e), tuple((n, env[n]) for n in names))

    def ev(self, fi, e, env):
        if isinstance(e, ast.Name):
            if e.id in env:
                return env[e.id]
            return ('X', e.id, ())
        if isinstance(e, ast.Constant):
            return ('X', repr(e.value), ())
        if isinstance(e, (ast.Tuple, ast.List)):
            vals = []
            for x in e.elts:
                if isinstance(x, ast.Starred):
                    v = self.ev(fi, x.value, env)
                    if v[0] != 'T':
                        return _TOP
                    vals += list(v[3])
                else:
                    vals.append(self.ev(fi, x, env))
            return ('T', None, None, tuple(vals))
        if isinstance(e, ast.Dict):
            out = {}
            for k, v in zip(e.keys, e.values):
                if k is None:
                    d = self.ev(fi, v, env)
                    if d[0] != 'D':
                        return _TOP
                    out.update(dict(d[1]))
                elif isinstance(k, ast.Constant) and isinstance(k.value, str):
                    out[k.value] = self.ev(fi, v, env)
                else:
                    return _TOP
            return ('D', tuple(out.items()))
        if isinstance(e, ast.NamedExpr):
            v = self.ev(fi, e.value, env)
            env[e.target.id] = v
            return v
        if isinstance(e, ast.IfExp):
            self.ev(fi, e.test, env)
            return _vjoin(self.ev(fi, e.body, env), self.ev(fi, e.orelse, env))
        if isinstance(e, ast.Attribute):
            if isinstance(e.value, ast.Name) and e.value.id in ('self', 'cls') and fi.cls is not None:
                f = fi.cls.find_method(e.attr)
                if f is not None:
                    return ('F', f)
            b = self.ev(fi, e.value, env)
            if b[0] == 'T' and b[2] is not None and e.attr in b[2]:
                return b[3][b[2].index(e.attr)]
            if b[0] in ('T', 'D', 'S', '?'):
                return _TOP
            return self._opaque(fi, e, env)
        if isinstance(e, ast.Subscript):
            b = self.ev(fi, e.value, env)
            k = e.slice.value if isinstance(e.slice, ast.Constant) else None
            if isinstance(e.slice, ast.UnaryOp) and isinstance(e.slice.op, ast.USub) and isinstance(e.slice.operand, ast.Constant) \
                    and isinstance(e.slice.operand.value, int):
                k = -e.slice.operand.value
            if b[0] == 'T' and isinstance(k, int) and not isinstance(k, bool) and -len(b[3]) <= k < len(b[3]):
                return b[3][k]
            if b[0] == 'D' and isinstance(k, str) and k in dict(b[1]):
                return dict(b[1])[k]
            if b[0] in ('T', 'D', 'S', '?'):
                return _TOP
            return self._opaque(fi, e, env)
        if isinstance(e, ast.Call):
            return self._call(fi, e, env)
        return self._opaque(fi, e, env)

    def _call(self, fi, c, env):
        from ..resolve import resolve_call
        f = c.func
        cn = call_name(c)
        # shape-preserving coercions hand on the value
        if cn in _COERCIONS and len(c.args) == 1 and not isinstance(c.args[0], ast.Starred):
            v = self.ev(fi, c.args[0], env)
            if v[0] in ('P', 'C', 'S'):
                return v
        if isinstance(f, ast.Attribute) and f.attr == 'copy' and not c.args and not c.keywords:
            v = self.ev(fi, f.value, env)
            if v[0] in ('P', 'C', 'S', 'T', 'D'):
                return v
        # records and mappings
        rf = _record_fields(self.prog, fi.module, f) if not (isinstance(f, ast.Name) and f.id in env) else None
        if rf is not None:
            name, fields = rf
            fake = ast.arguments(posonlyargs=[], args=[ast.arg(n) for n, _ in fields], kwonlyargs=[], kw_defaults=[],
                                 defaults=[d for _, d in fields[next((i for i, (_, d) in enumerate(fields) if d is not None), len(fields)):]])
            if any(d is None for _, d in fields[next((i for i, (_, d) in enumerate(fields) if d is not None), len(fields)):]):
                return _TOP
            holder = ast.FunctionDef(name=name, args=fake, body=[], decorator_list=[])
            b = self._bind(fi, c, holder, False, env)
            if b is None:
                return _TOP
            names = tuple(n for n, _ in fields)
            return ('T', name, names, tuple(b[n] for n in names))
        if isinstance(f, ast.Name) and f.id == 'dict' and f.id not in env and not c.args:
            out = {}
            for k in c.keywords:
                v = self.ev(fi, k.value, env)
                if k.arg is None:
                    if v[0] != 'D':
                        return _TOP
                    out.update(dict(v[1]))
                else:
                    out[k.arg] = v
            return ('D', tuple(out.items()))
        if isinstance(f, ast.Attribute) and f.attr in ('_replace', '_asdict', '_make'):
            b = self.ev(fi, f.value, env)
            if b[0] == 'T' and b[2] is not None and f.attr == '_replace' and not c.args and all(k.arg in b[2] for k in c.keywords):
                vals = list(b[3])
                for k in c.keywords:
                    vals[b[2].index(k.arg)] = self.ev(fi, k.value, env)
                return ('T', b[1], b[2], tuple(vals))
            if b[0] == 'T' and b[2] is not None and f.attr == '_asdict' and not c.args and not c.keywords:
                return ('D', tuple(zip(b[2], b[3])))
            return _TOP
        if isinstance(f, ast.Name) and f.id == 'replace' and c.args and f.id not in env:
            b = self.ev(fi, c.args[0], env)
            if b[0] == 'T' and b[2] is not None and len(c.args) == 1 and all(k.arg in b[2] for k in c.keywords):
                vals = list(b[3])
                for k in c.keywords:
                    vals[b[2].index(k.arg)] = self.ev(fi, k.value, env)
                return ('T', b[1], b[2], tuple(vals))
            return _TOP
        # the callee
        callee = None
        if isinstance(f, ast.Name) and f.id in env:
            if env[f.id][0] == 'F':
                callee = env[f.id][1]
        else:
            callee = resolve_call(self.prog, fi, c)
        if callee is not None and callee.cls is not None and callee.name in ('__init__', '__post_init__'):
            callee = None
        if callee is None:
            self._args(fi, c, env)
            return ('C', frozenset([id(c)]))
        drop = callee.cls is not None and callee.params[:1] in (['self'], ['cls'])
        kind = self.anchors.get(callee)
        b = self._bind(fi, c, callee.node, drop, env)
        if kind is not None:
            if self.recording:
                self.records.append((kind, c, (self.stack[0] if self.stack else c.lineno), b, callee))
            if kind == 'sgr' and b is not None:
                return ('S', tuple(sorted(b.items())))
            return ('C', frozenset([id(c)]))
        if b is None or len(self.stack) >= 4 or not callee.file.startswith('src/AEIC/BADA/') or callee.node.decorator_list \
                or '.<locals>.' in callee.qualname or callee in [x[1] for x in self._active]:
            self._args(fi, c, env)
            return ('C', frozenset([id(c)]))
        # a helper of the package: what it returns for these arguments
        start = dict(b)
        if drop:
            start[callee.params[0]] = self.ev(fi, f.value, env) if isinstance(f, ast.Attribute) else ('X', 'self', ())
        self.stack.append(c.lineno)
        self._active.append((c, callee))
        try:
            r = self.run(callee, start)
        finally:
            self.stack.pop()
            self._active.pop()
        return r if r is not None else ('C', frozenset([id(c)]))

    def _args(self, fi, c, env):
        """evaluate the operands of a call that is not followed (for the calls they contain)"""
        for a in c.args:
            self.ev(fi, a.value if isinstance(a, ast.Starred) else a, env)
        for k in c.keywords:
            self.ev(fi, k.value, env)
        if isinstance(c.func, ast.Attribute):
            self.ev(fi, c.func.value, env)

    # -- statements
    def _store(self, fi, t, v, env):
        if isinstance(t, ast.Name):
            env[t.id] = v
        elif isinstance(t, (ast.Tuple, ast.List)):
            if v[0] == 'T' and len(v[3]) == len(t.elts) and not any(isinstance(x, ast.Starred) for x in t.elts):
                for x, y in zip(t.elts, v[3]):
                    self._store(fi, x, y, env)
            else:
                for x in ast.walk(t):
                    if isinstance(x, ast.Name):
                        env[x.id] = _TOP
        elif isinstance(t, ast.Starred):
            self._store(fi, t.value, _TOP, env)
        # a store into an element or attribute leaves the object what it was

    def _transfer(self, fi, node, env):
        env = dict(env)
        s = node.stmt
        if node.kind == 'stmt':
            if isinstance(s, ast.Assign):
                v = self.ev(fi, s.value, env)
                for t in s.targets:
                    self._store(fi, t, v, env)
            elif isinstance(s, ast.AnnAssign):
                if s.value is not None:
                    self._store(fi, s.target, self.ev(fi, s.value, env), env)
            elif isinstance(s, ast.AugAssign):
                v = self.ev(fi, s.value, env)
                if isinstance(s.target, ast.Name):
                    cur = env.get(s.target.id, _TOP)
                    env[s.target.id] = ('X', f'{norm(s.target)} {type(s.op).__name__}', (('l', cur), ('r', v)))
            elif isinstance(s, ast.Expr):
                self.ev(fi, s.value, env)
            elif isinstance(s, ast.Return):
                v = self.ev(fi, s.value, env) if s.value is not None else ('X', 'None', ())
                self._rets[-1].append(v)
            elif isinstance(s, (ast.Raise, ast.Assert)):
                for x in ast.iter_child_nodes(s):
                    if isinstance(x, ast.expr):
                        self.ev(fi, x, env)
            elif isinstance(s, (ast.FunctionDef, ast.AsyncFunctionDef, ast.ClassDef)):
                env[s.name] = _TOP
            elif isinstance(s, (ast.Import, ast.ImportFrom)):
                for al in s.names:
                    env[(al.asname or al.name).split('.')[0]] = _TOP
            elif isinstance(s, ast.Delete):
                for t in s.targets:
                    self._store(fi, t, _TOP, env)
        elif node.kind == 'test':
            self.ev(fi, s.test, env)
        elif node.kind == 'iter':
            self.ev(fi, s.iter, env)
            self._store(fi, s.target, _TOP, env)
        elif node.kind == 'with':
            for it in s.items:
                self.ev(fi, it.context_expr, env)
                if it.optional_vars is not None:
                    self._store(fi, it.optional_vars, _TOP, env)
        elif node.kind == 'match':
            self.ev(fi, s.subject, env)
        elif node.kind == 'case':
            for x in ast.walk(s.pattern):
                for nm in (getattr(x, 'name', None), getattr(x, 'rest', None)):
                    if isinstance(nm, str):
                        env[nm] = _TOP
            if s.guard is not None:
                self.ev(fi, s.guard, env)
        elif node.kind == 'except':
            if s.name:
                env[s.name] = _TOP
        return env

    def run(self, fi, start):
        """join of the values `fi` returns when entered with `start` (None when it returns nothing that is known)"""
        g = _cfg(fi.node)
        was = self.recording
        self.recording = False
        self._rets.append([])
        try:
            ins, _outs = g.forward(start, lambda n, st: self._transfer(fi, n, st), _envjoin)
        finally:
            self._rets.pop()
        self.recording = was
        self._rets.append([])
        try:
            for n, st in ins.items():
                self._transfer(fi, g.nodes[n], st)
            rets = self._rets[-1]
        finally:
            self._rets.pop()
        out = None
        for v in rets:
            out = v if out is None else _vjoin(out, v)
        return out


def _value_text(v):
    if v[0] == 'P':
        return f'its `{v[1]}`'
    if v[0] == 'X':
        return f'`{v[1][:40]}`'
    if v[0] == 'C':
        return 'the result of a call'
    if v[0] == 'S':
        return 'a specific ground range'
    if v[0] == 'T':
        return 'a tuple / record'
    return 'a value that differs between paths'


def _match_with_hole(pat, e, hole, found):
    """structural equality of `pat` and `e` where every Name `hole` of the pattern stands for one and the same subtree of `e`"""
    if isinstance(pat, ast.Name) and pat.id == hole:
        if not found:
            found.append(e)
            return True
        return isinstance(e, ast.AST) and norm(found[0]) == norm(e)
    if isinstance(pat, ast.AST):
        if type(pat) is not type(e):
            return False
        return all(_match_with_hole(getattr(pat, f, None), getattr(e, f, None), hole, found) for f in pat._fields if f != 'ctx')
    if isinstance(pat, list):
        return isinstance(e, list) and len(pat) == len(e) and all(_match_with_hole(a, b, hole, found) for a, b in zip(pat, e))
    return pat == e


def written_out_evaluations(prog, entry, sgr, update_names):
    """The specific ground range written out in place (a helper that took the state as an object was dissolved into the
    entry point): for every `self.update_mass_vector[_backward](A, B, D)` statement of `entry`, is B - resolved over the
    straight-line statements of its block, objects built once at the top of the function included - the value
    calculate_specific_ground_range returns for the entry point's own temperature .. groundspeed and one mass expression M?
    -> {id(call): (M, A, D) resolved} for the calls where it is.  Names of the state that the function rebinds (to anything
    but themselves) cancel the recognition."""
    from ..loader import FunctionInfo
    want = Flow(prog, sgr, methods=True, keep=manual_methods())
    if not want.straight or want.returns != 1 or want.ret is None or want.early or want.memo_open:
        return {}
    roles = [r for r in SGR_ROLES] + ['segment_distance']
    if any(r not in entry.params for r in roles) or any(r not in sgr.params for r in SGR_ROLES) or 'mass' not in sgr.params:
        return {}
    body = entry.node.body

    def synth(stmts):
        fn = ast.FunctionDef(name=entry.node.name, args=entry.node.args, body=list(stmts), decorator_list=[], returns=None,
                             type_comment=None, lineno=entry.node.lineno, col_offset=0)
        if hasattr(entry.node, 'type_params'):
            fn.type_params = []
        return FunctionInfo(entry.qualname, fn, entry.module, entry.cls)

    # objects built once, at the top level, from the parameters
    seeds = []
    for st in body:
        if isinstance(st, ast.Assign) and len(st.targets) == 1 and isinstance(st.targets[0], ast.Name) \
                and single_def_value(entry.node, st.targets[0].id) is st.value and isinstance(st.value, ast.Call) \
                and prog.resolve_class_expr(entry.module, st.value.func) is not None \
                and all(_simple_arg(a) for a in list(st.value.args) + [k.value for k in st.value.keywords]):
            seeds.append(st)
    # the state names mean what the entry point received
    for x in walk_no_nested(entry.node):
        if isinstance(x, (ast.Assign, ast.AnnAssign, ast.AugAssign, ast.For, ast.With, ast.NamedExpr)):
            tg = [n.id for t in (x.targets if isinstance(x, ast.Assign) else [getattr(x, 'target', None)] if not isinstance(x, ast.With) else
                                 [i.optional_vars for i in x.items]) if t is not None for n in ast.walk(t) if isinstance(n, ast.Name)]
            hit = [n for n in tg if n in roles]
            if not hit:
                continue
            if not isinstance(x, ast.Assign):
                return {}
            fl = Flow(prog, synth(seeds + [x]), methods=True, keep=manual_methods())
            if any(not (isinstance(fl.env.get(n), ast.Name) and fl.env[n].id == n) for n in hit):
                return {}
    out = {}

    def block(stmts):
        for i, st in enumerate(stmts):
            for f in ('body', 'orelse', 'finalbody'):
                sub = getattr(st, f, None)
                if isinstance(sub, list) and sub and isinstance(sub[0], ast.stmt):
                    block(sub)
            for h in getattr(st, 'handlers', None) or []:
                block(h.body)
            for c_ in getattr(st, 'cases', None) or []:
                block(c_.body)
            if not isinstance(st, (ast.Assign, ast.AnnAssign, ast.Expr, ast.Return)) or getattr(st, 'value', None) is None:
                continue
            for c in ast.walk(st.value):
                if not (isinstance(c, ast.Call) and isinstance(c.func, ast.Attribute) and c.func.attr in update_names and norm(c.func.value) == 'self'):
                    continue
                fn_, drop = _callee_params(prog, entry, c)
                b = bind_args(c, fn_, drop) if fn_ is not None else None
                if b is None or not all(k in b for k in ('mass', 'specific_ground_range', 'segment_distance')):
                    continue
                prefix = [s_ for s_ in stmts[:i] if s_ not in seeds]
                ret = ast.Return(value=ast.Tuple(elts=[b['mass'], b['specific_ground_range'], b['segment_distance']], ctx=ast.Load()))
                ast.copy_location(ret, st)
                ast.copy_location(ret.value, st)
                fl = Flow(prog, synth(seeds + prefix + [ret]), methods=True, keep=manual_methods())
                if fl.ret is None or not isinstance(fl.ret, ast.Tuple) or fl.memo_open or fl.early:
                    continue
                A, B, D = fl.ret.elts
                found = []
                if _match_with_hole(want.ret, B, 'mass', found) and found:
                    out[id(c)] = (found[0], A, D)

    block(body)
    return out


def rule_entry_state(ctx):
    """R9: see the module docstring"""
    prog = ctx.prog
    m = prog.module(MODEL)
    b = prog.module(BASE)
    sgr = m.func('Bada3FuelBurnModel.calculate_specific_ground_range')
    anchors = {sgr: 'sgr', b.func('BaseFuelBurnModel.update_mass_vector'): 'update',
               b.func('BaseFuelBurnModel.update_mass_vector_backward'): 'update'}
    k = m.cls('Bada3FuelBurnModel')
    for name in ('update_mass_vector', 'update_mass_vector_backward'):
        f = k.find_method(name)
        if f is not None:
            anchors[f] = 'update'
    entries = [f for f in k.methods.values() if f not in anchors and not f.name.startswith('_')
               and all(r in f.params for r in SGR_ROLES) and 'segment_distance' in f.params]
    ctx.floor('C19-R9', len(entries), 4, 'entry points of the fuel-burn iteration (methods that receive the flight state and the segment lengths)')
    for f in entries:
        records = []
        sf = StateFlow(prog, anchors, records)
        sf.recording = True
        start = {p_: ('P', p_) for p_ in f.params}
        start['self'] = ('X', 'self', ())
        sf.run(f, start)
        seen = set()
        nsgr = nupd = 0
        written = written_out_evaluations(prog, f, sgr, ('update_mass_vector', 'update_mass_vector_backward')) \
            if any(kind != 'sgr' and (bound or {}).get('specific_ground_range', _TOP)[0] != 'S' for kind, _c, _l, bound, _k in records) else {}
        for kind, call, line, bound, callee in records:
            if (id(call), line) in seen:
                continue
            seen.add((id(call), line))
            line = int(-(-line // 1))
            if bound is None:
                ctx.undecided('C19-R9', f, norm(call)[:60], f'the arguments of {callee.name} cannot be bound to its parameters')
            if kind == 'sgr':
                nsgr += 1
                wrong = {r: bound[r] for r in SGR_ROLES if bound.get(r) != ('P', r)}
                swapped = {r: v for r, v in wrong.items() if v[0] == 'P' and v[1] != r}
                if wrong and not swapped:
                    r, v = next(iter(wrong.items()))
                    ctx.undecided('C19-R9', f, norm(call)[:60], f'`{r}` of the specific-ground-range evaluation is {_value_text(v)}, '
                                  f'which cannot be traced to the `{r}` this entry point received')
                ok = not wrong
                detail = 'mass, temperature, altitude, v_tas, rocd, acceleration, in_cruise, groundspeed as received'
                if not ok:
                    what = ', '.join(f'its `{v[1]}` as {r}' + (f' ({_ROLE_WHAT[r]})' if r in _ROLE_WHAT else '') for r, v in swapped.items())
                    detail = (f'{f.name} evaluates the specific ground range with {what}: thrust and fuel flow are computed for a flight '
                              'state other than the one given, so the mass decrease per step is no longer the trapezoid of BADA-3 fuel '
                              'flow over ground speed for this flight')
                ctx.ob('C19-R9', f, f'specific ground range at the flight state received (line {line})', ok, detail, line=line)
                mv = bound.get('mass')
                if mv is None or mv[0] != 'C':
                    ctx.undecided('C19-R9', f, norm(call)[:60], f'the mass the specific ground range is evaluated for is {_value_text(mv or _TOP)}, '
                                  'not a mass vector computed in this function')
            else:
                nupd += 1
                sv, mv, dv = bound.get('specific_ground_range'), bound.get('mass'), bound.get('segment_distance')
                if (sv is None or sv[0] != 'S') and id(call) in written:
                    # the evaluation is written out in place: by value, the specific ground range of the state received
                    M, A, D = written[id(call)]
                    nsgr += 1
                    ctx.ob('C19-R9', f, f'specific ground range at the flight state received, written out in place (line {line})', True,
                           'equal, locals resolved and helpers opened, to what calculate_specific_ground_range returns for temperature, altitude, '
                           f'v_tas, rocd, acceleration, in_cruise, groundspeed as received and the mass `{norm(M)[:40]}`', line=line)
                    okm = _same(M, A)
                    ctx.ob('C19-R9', f, f'{callee.name}: range evaluated for the mass vector being updated (line {line})', okm,
                           'same mass vector' if okm else
                           'the mass vector is updated with a specific ground range that was evaluated for another (earlier) mass vector: '
                           'the iteration no longer feeds the fuel flow of the current mass profile into the trapezoid', line=line, nontrivial=False)
                    if norm(D) != 'segment_distance':
                        ctx.undecided('C19-R9', f, norm(call)[:60], f'the segment lengths handed to {callee.name} are `{norm(D)[:40]}`')
                    continue
                if sv is None or sv[0] != 'S':
                    ctx.undecided('C19-R9', f, norm(call)[:60], f'the specific ground range handed to {callee.name} is {_value_text(sv or _TOP)}, '
                                  'not the result of calculate_specific_ground_range')
                okm = dict(sv[1]).get('mass') == mv
                ctx.ob('C19-R9', f, f'{callee.name}: range evaluated for the mass vector being updated (line {line})', okm,
                       'same mass vector' if okm else
                       'the mass vector is updated with a specific ground range that was evaluated for another (earlier) mass vector: '
                       'the iteration no longer feeds the fuel flow of the current mass profile into the trapezoid', line=line, nontrivial=False)
                if dv != ('P', 'segment_distance'):
                    if dv is not None and dv[0] == 'P':
                        ctx.ob('C19-R9', f, f'{callee.name}: integrated over the segment lengths received (line {line})', False,
                               f'its `{dv[1]}` is passed as the segment lengths of the trapezoid', line=line)
                    else:
                        ctx.undecided('C19-R9', f, norm(call)[:60], f'the segment lengths handed to {callee.name} are {_value_text(dv or _TOP)}')
        ctx.floor(f'C19-R9/{f.name[-24:]}/sgr', nsgr, 1, 'evaluations of the specific ground range')
        ctx.floor(f'C19-R9/{f.name[-24:]}/update', nupd, 1, 'mass-vector updates')


def rule_assign_all(ctx):
    """R7: the coefficients the engine model reads are the ones that were assigned: assign_parameters_fromdict stores
    every entry of the dictionary, whatever its value (0.0 is a legitimate coefficient)."""
    from ..astutil import ancestors
    pm = ctx.prog.module(PARAMS)
    fi = pm.func('Bada3AircraftParameters.assign_parameters_fromdict')
    sets = [c for c in calls_in(fi.node) if call_name(c) == 'setattr']
    ctx.floor('C19-R7', len(sets), 1, 'setattr in assign_parameters_fromdict')
    for c in sets:
        lp = next((a for a in ancestors(c) if isinstance(a, (ast.For, ast.While))), None)
        inner = [norm(t) for t, pol, o in guards_of(stmt_of(c)) if lp is not None and any(a is lp for a in ancestors(o))]
        esc = [norm(t) for x in (ast.walk(lp) if lp is not None else []) if isinstance(x, (ast.Continue, ast.Break))
               for t, pol, o in guards_of(x)] if lp is not None else []
        has_esc = lp is not None and any(isinstance(x, (ast.Continue, ast.Break)) for x in ast.walk(lp))
        ok = lp is not None and not inner and not has_esc
        ctx.ob('C19-R7', fi, f'{norm(c)} for every entry', ok, 'unconditional in the loop over the dictionary' if ok else
               (f'entries are skipped when {inner or esc}: a coefficient that is legitimately zero (Ctc3, Ctc4, Ctc5 …) is not '
                'assigned, so the object keeps its previous value (or None) and thrust limits are evaluated with coefficients '
                'nobody supplied'), line=c.lineno)
        if lp is not None and len(c.args) == 3:
            key, val = norm(c.args[1]), norm(c.args[2])
            tgt = norm(lp.target).strip('()')
            ok2 = (tgt == key and val == f'{norm(lp.iter)}[{key}]') or (tgt == f'{key}, {val}' and norm(lp.iter).endswith('.items()'))
            ctx.ob('C19-R7', fi, f'setattr(self, {key}, {val})', ok2, 'each key receives its own value' if ok2 else
                   'key and value do not come from the same dictionary entry', line=c.lineno, nontrivial=False)


def run(ctx):
    rule_assign_all(ctx)
    rule_protocol(ctx)
    rule_thrust(ctx)
    rule_fuelflow(ctx)
    rule_update(ctx)
    rule_mtow(ctx)
    rule_state(ctx)
    rule_entry_state(ctx)
    rule_equations(ctx)
    ctx.assumptions += ['R5: the iteration loops run at least one pass (n_iter >= 1; with n_iter = 0 the original returns the caller\'s estimate too)',
                        'scipy cumulative_trapezoid implements the trapezoid rule; numpy where/divide semantics',
                        'reference equations transcribed from the BADA 3 user manual (sections 3.2, 3.6, 3.7, 3.9)']
