"""C17 — each simulated flight is independent of the builder's history and failures.

R1  acquire/release pairing of the per-flight context on exceptional paths
    (T-PAIR, must-dataflow on the CFG with `finally` instantiated per
    continuation): a release (`del self.ctx`) may be reached only where the
    acquire (`self.ctx = ...`) has definitely been executed, or under the
    guarded-release idiom (`'ctx' in self.__dict__` / hasattr).  Otherwise the
    release itself raises and masks the original rejection reason.  Also: no
    exit of `fly` leaves the context acquired.
R2  no builder-persistent state is carried between flights (effects):
    attributes stored on the builder while flying that are not redirected to
    the context must not be read while flying, and persistent containers of
    the builder must not be mutated while flying.
R3  convergence gate: `_iterate_mass` returns only with the converged flag
    set; the flag is set only under abs(residual) < tolerance; trajectory and
    residual always come from one and the same iteration.
R4  rejection reasons propagate: no handler on the flight path swallows or
    rewraps exceptions (every except clause re-raises).
"""

from __future__ import annotations

import ast

from ..astutil import first_stmt, last_stmt  # noqa: F401
from ..astutil import (MUTATING_METHODS, ancestors, call_name, calls_in, guards_of, norm, stores_to,
                       walk_no_nested)
from ..cfg import CFG
from ..loader import dotted_name
from ..resolve import closure

BASE = 'trajectories/builders/base.py'
CTX_ATTR = 'ctx'


def _is_acquire(stmt):
    return isinstance(stmt, (ast.Assign, ast.AnnAssign)) and any(
        norm(t) == f'self.{CTX_ATTR}' for t in (stmt.targets if isinstance(stmt, ast.Assign) else [stmt.target]))


def _is_release(stmt):
    if isinstance(stmt, ast.Delete):
        return any(norm(t) == f'self.{CTX_ATTR}' for t in stmt.targets)
    if isinstance(stmt, ast.Expr) and isinstance(stmt.value, ast.Call):
        c = stmt.value
        if call_name(c) == 'delattr' and len(c.args) == 2 and norm(c.args[0]) == 'self' \
                and isinstance(c.args[1], ast.Constant) and c.args[1].value == CTX_ATTR:
            return True
    return False


def _guard_says_acquired(test: ast.expr):
    """polarity under which the test establishes that self.ctx exists, or None"""
    t = norm(test)
    if t in (f"'{CTX_ATTR}' in self.__dict__", f"hasattr(self, '{CTX_ATTR}')",
             f"'{CTX_ATTR}' in vars(self)"):
        return True
    if t in (f"'{CTX_ATTR}' not in self.__dict__", f"not hasattr(self, '{CTX_ATTR}')"):
        return False
    return None


def rule_pairing(ctx, m):
    fly = m.func('Builder.fly')
    g = CFG(fly.node)
    acq = [n for n in g.nodes if n.kind == 'stmt' and _is_acquire(n.stmt)]
    rel = [n for n in g.nodes if n.kind == 'stmt' and _is_release(n.stmt)]
    ctx.floor('C17-R1', len(acq), 1, 'context acquire sites in fly')
    ctx.floor('C17-R1/release', len(rel), 1, 'context release sites in fly')

    # must-acquired
    def transfer(node, st):
        if node.kind == 'stmt' and _is_acquire(node.stmt):
            return True
        if node.kind == 'stmt' and _is_release(node.stmt):
            return False
        return st

    def branch(node, lab, st):
        if node.kind == 'test':
            pol = _guard_says_acquired(node.stmt.test)
            if pol is not None:
                return (lab == 't') == pol
        return st

    ins, _ = g.forward(False, transfer, lambda a, b: a and b, branch_transfer=branch)
    for r in rel:
        ok = ins.get(r.id, True)
        path = []
        if not ok:
            # an exceptional path from entry to the release that avoids every acquire
            acq_ids = {a.id for a in acq}
            p = g.find_path(g.entry, r.id, edge_ok=lambda a, b, lab: not (a in acq_ids and lab != 'e'))
            if p:
                path = [f'L{g.nodes[x].line}: {g.nodes[x].text()[:80]}' + (' [exceptional edge follows]'
                        if i + 1 < len(p) and ('e' in [l for t, l in g.succ[x] if t == p[i + 1]]) else '')
                        for i, x in enumerate(p) if g.nodes[x].stmt is not None]
        ctx.ob('C17-R1', fly, f'release `{norm(r.stmt)}` in finally copy {r.fin or ("body",)}', ok,
               'the context is definitely acquired (or the release is guarded) on every path reaching it'
               if ok else
               ('the release is reachable on an exceptional path on which the acquire never completed '
                '(the context constructor itself raised: unknown airport, airport above cruise level, '
                'missing weather): `del self.ctx` raises AttributeError and hides the reason'),
               line=r.line, path=path)

    # may-acquired at exits
    def real_exc(a, b, lab):
        # attribute loads / `del` themselves are not counted as failure points here
        na = g.nodes[a]
        return lab != 'e' or na.kind in ('dispatch', 'join', 'finally') or bool(na.why_raise & {'call', 'raise'})

    ins2, _ = g.forward(False, transfer, lambda a, b: a or b, branch_transfer=branch, edge_ok=real_exc)
    for ex, what in ((g.exit, 'normal return'), (g.raise_exit, 'exceptional exit')):
        if ex in ins2:
            ok = not ins2[ex]
            ctx.ob('C17-R1', fly, f'context released on every {what}', ok,
                   'no path leaves fly with the context still attached' if ok else
                   f'some {what} leaves the per-flight context on the builder: the next flight starts '
                   'with stale state', line=fly.node.lineno)
    # the acquire must be the first fallible thing after entering the try, or be outside: informational
    return g


def _ctx_attrs(prog, builder_cls):
    """attribute names that live on the per-flight context of this builder"""
    attrs = set()
    v = None
    for c in builder_cls.mro():
        v = c.class_assignments().get('CONTEXT_CLASS')
        if v is not None and isinstance(v, ast.Name):
            cc = prog.resolve_name(c.module, v.id)
            if cc is not None and hasattr(cc, 'mro'):
                for k in cc.mro():
                    attrs |= set(k.annotated_fields())
                    for meth in k.methods.values():
                        for t, st, how in stores_to(meth.node):
                            if isinstance(t, ast.Attribute) and norm(t.value) == 'self':
                                attrs.add(t.attr)
                return attrs, cc
    return attrs, None


def rule_persistent(ctx, m):
    prog = ctx.prog
    builders = [c for c in prog.subclasses_of('Builder') if c.name != 'Builder']
    base = m.cls('Builder')
    ctx.floor('C17-R2', len(builders), 1, 'concrete builders')
    for b in builders:
        cattrs, cc = _ctx_attrs(prog, b)
        if cc is None:
            if all(len(meth.node.body) <= 2 for meth in b.methods.values()):
                continue  # stub builder
            ctx.note(f'C17-R2: {b.name} has no resolvable CONTEXT_CLASS; skipped')
            continue
        fly = b.find_method('fly')
        roots = [fly]
        # phase methods are dispatched dynamically via getattr(self, phase.method_name)
        for name, meth in {k: v for c in b.mro() for k, v in c.methods.items()}.items():
            if name.startswith('fly_') or name in ('calc_starting_mass',):
                roots.append(b.find_method(name))
        # the context is constructed inside fly() through the CONTEXT_CLASS attribute (a dynamic call): its
        # constructors run during every flight and may call back into the builder
        for k in cc.mro():
            if '__init__' in k.methods:
                roots.append(k.methods['__init__'])
        flight = [f for f in closure(prog, roots) if f.cls is not None and f.cls in b.mro()]
        init_attrs = set()
        for c in b.mro():
            ini = c.methods.get('__init__')
            if ini:
                for t, st, how in stores_to(ini.node):
                    if isinstance(t, ast.Attribute) and norm(t.value) == 'self':
                        init_attrs.add(t.attr)
        persistent_written = {}
        reads = {}
        for f in flight:
            if f.name == '__init__':
                continue
            for t, st, how in stores_to(f.node):
                bb = t
                elem = False
                while isinstance(bb, ast.Subscript):
                    bb, elem = bb.value, True
                if isinstance(bb, ast.Attribute) and norm(bb.value) == 'self':
                    a = bb.attr
                    if a == CTX_ATTR or a in cattrs:
                        continue
                    persistent_written.setdefault(a, []).append((f, st, 'elem' if elem else how))
            for n in walk_no_nested(f.node):
                if isinstance(n, ast.Call) and isinstance(n.func, ast.Attribute) \
                        and n.func.attr in MUTATING_METHODS:
                    bb = n.func.value
                    while isinstance(bb, ast.Subscript):
                        bb = bb.value
                    if isinstance(bb, ast.Attribute) and norm(bb.value) == 'self' \
                            and bb.attr in init_attrs and bb.attr not in cattrs:
                        persistent_written.setdefault(bb.attr, []).append((f, n, 'mutating call'))
                if isinstance(n, ast.Attribute) and isinstance(n.ctx, ast.Load) and norm(n.value) == 'self':
                    reads.setdefault(n.attr, []).append((f, n))
        ctx.stats[f'{b.name}.context_attributes'] = len(cattrs)
        ctx.stats[f'{b.name}.flight_methods'] = sorted(f.qualname for f in flight)
        for a, ws in sorted(persistent_written.items()):
            rs = [(f, n) for f, n in reads.get(a, [])
                  if not any(n is w[1] or _inside(n, w[1]) and isinstance(w[1], ast.AugAssign) for w in ws)]
            container = any(w[2] in ('elem', 'mutating call') for w in ws) and a in init_attrs
            ok = not rs and not container
            f0, st0, how0 = ws[0]
            ctx.ob('C17-R2', f0, f'builder attribute self.{a} written during a flight ({how0})', ok,
                   ('written but never read while flying: harmless' if not container else '') if ok else
                   (f'self.{a} is not a context attribute, so it survives the flight; it is '
                    + ('a container created in __init__ and mutated while flying'
                       if container else f'read while flying in {rs[0][0].qualname} (line {rs[0][1].lineno})')
                    + ': a later flight sees values left by an earlier one'),
                   line=getattr(st0, 'lineno', f0.node.lineno))
        # attributes of builder-persistent objects (self.options.x = …) written during a flight
        for f in flight:
            if f.name == '__init__':
                continue
            for t, st, how in stores_to(f.node):
                if isinstance(t, ast.Attribute) and isinstance(t.value, ast.Attribute) and norm(t.value.value) == 'self' \
                        and t.value.attr in init_attrs and t.value.attr not in cattrs:
                    ctx.ob('C17-R2', f, f'{norm(t)} written during a flight', False,
                           f'self.{t.value.attr} is shared by every flight of this builder (and, being a default '
                           'argument instance, by every builder): changing it makes later flights differ', line=st.lineno)
        if not persistent_written:
            ctx.ob('C17-R2', (b.file, b.name), 'no builder-persistent attribute written during a flight', True,
                   'all stores go to the per-flight context')
    # the redirection itself: __setattr__ routes to ctx iff ctx has the attribute
    sa = base.methods.get('__setattr__')
    ga = base.methods.get('__getattr__')
    for meth, what in ((sa, 'setattr(ctx, name, value)'), (ga, 'getattr(ctx, name)')):
        if meth is None:
            ctx.undecided('C17-R2', (m.relpath, 'Builder'), '__setattr__/__getattr__', 'redirection method missing')
        src = ' '.join(norm(s) for s in meth.node.body)
        ok = 'hasattr(ctx, name)' in src and what in src
        ctx.ob('C17-R2', meth, 'attribute redirection to the context', ok,
               f'`if hasattr(ctx, name): {what}`' if ok else 'redirection idiom changed', nontrivial=False)
    # module-level caches on the flight path must be pure functions of their arguments
    if ctx.tier == 'thorough':
        for f in prog.all_functions():
            if any('functools.cache' in d or 'lru_cache' in d for d in f.decorators()):
                free = {n.id for n in ast.walk(f.node) if isinstance(n, ast.Name) and isinstance(n.ctx, ast.Load)}
                glob_w = [n for n in ast.walk(f.node) if isinstance(n, ast.Global)]
                ok = not glob_w and 'self' not in f.params
                ctx.ob('C17-R2', f, 'memoised function is keyed on all its inputs', ok,
                       'module-level pure function' if ok else 'cache keyed on less than it depends on',
                       nontrivial=False)


def _inside(n, anc):
    return any(a is anc for a in ancestors(n))


def rule_convergence(ctx, m):
    it = m.func('Builder._iterate_mass')
    g = CFG(it.node)
    dom = g.dominators(edge_ok=lambda a, b, lab: lab != 'e')
    rets = [n for n in g.nodes if n.kind == 'stmt' and isinstance(n.stmt, ast.Return)]
    flag_sets = [n for n in g.nodes if n.kind == 'stmt' and isinstance(n.stmt, ast.Assign)
                 and norm(n.stmt.targets[0]) == 'mass_converged']
    trues = [n for n in flag_sets if isinstance(n.stmt.value, ast.Constant) and n.stmt.value.value is True]
    ctx.floor('C17-R3', len(trues), 1, 'convergence flag sets')
    gate = None
    for n in g.nodes:
        if n.kind == 'stmt' and isinstance(n.stmt, ast.Raise):
            gs = guards_of(n.stmt)
            if any(norm(t) == 'not mass_converged' and pol for t, pol, _ in gs):
                gate = [x for _, _, o in gs for x in g.nodes_of(o)]
    for r in rets:
        ok = gate is not None and any(t in dom[r.id] for t in gate)
        ctx.ob('C17-R3', it, f'`{norm(r.stmt)}` only after the non-convergence refusal', ok,
               '`if not mass_converged: raise` dominates the return' if ok else
               'a trajectory can be returned without the convergence test', line=r.line)
    for n in trues:
        gs = guards_of(n.stmt)
        tests = [t for t, pol, _ in gs if pol and not isinstance(_owner(t), ast.While)]
        good = False
        detail = 'flag set under ' + str([norm(t) for t, _, _ in gs])
        for t in tests:
            if isinstance(t, ast.Compare) and len(t.ops) == 1 and isinstance(t.ops[0], (ast.Lt, ast.LtE)):
                lhs, rhs = t.left, t.comparators[0]
                if isinstance(lhs, ast.Call) and call_name(lhs) in ('abs', 'np.abs', 'math.fabs') \
                        and norm(lhs.args[0]) == 'mass_res' and 'mass_iter_reltol' in norm(rhs):
                    good = True
                elif norm(lhs) == 'mass_res' or 'mass_res' in norm(lhs):
                    detail = (f'`{norm(t)}` compares the signed residual: any negative residual (fuel '
                              'deficit) counts as converged')
        ctx.ob('C17-R3', it, 'converged only if |residual| < tolerance', good,
               'abs(mass_res) < options.mass_iter_reltol' if good else detail, line=n.line)
    pair_defs = [st for t, st, how in stores_to(it.node) if isinstance(t, ast.Name) and t.id in ('traj', 'mass_res')]
    ok = bool(pair_defs) and all(
        isinstance(st, ast.Assign) and isinstance(st.targets[0], ast.Tuple)
        and [norm(e) for e in st.targets[0].elts] == ['traj', 'mass_res']
        and isinstance(st.value, ast.Call) and call_name(st.value) == 'self._fly_iteration'
        for st in pair_defs)
    ctx.ob('C17-R3', it, 'trajectory and residual always come from the same iteration', ok,
           f'{len(pair_defs) // 2} joint assignments from _fly_iteration()' if ok else
           'traj and mass_res can come from different iterations')
    # residual definition in _fly_iteration
    fi = m.func('Builder._fly_iteration')
    mr = [st for t, st, how in stores_to(fi.node) if isinstance(t, ast.Name) and t.id == 'mass_residual']
    ok = len(mr) == 1 and norm(mr[0].value) == '(self.total_fuel_mass - fuelBurned) / self.total_fuel_mass'
    fb = [st for t, st, how in stores_to(fi.node) if isinstance(t, ast.Name) and t.id == 'fuelBurned']
    ok = ok and len(fb) == 1 and norm(fb[0].value) == 'self.starting_mass - traj.aircraft_mass[-1]'
    ctx.ob('C17-R3', fi, 'residual = (trip fuel − fuel burned) / trip fuel', ok,
           'leftover trip fuel relative to trip fuel' if ok else 'residual definition changed', nontrivial=False)


def _owner(t):
    return getattr(t, '_parent', None)


def rule_handlers(ctx, m):
    prog = ctx.prog
    builders = [c for c in prog.subclasses_of('Builder')]
    n = 0
    for b in builders:
        for meth in b.methods.values():
            if meth.name in ('__getattr__', '__setattr__'):
                continue
            for x in walk_no_nested(meth.node):
                if isinstance(x, ast.ExceptHandler):
                    n += 1
                    rer = isinstance(last_stmt(x.body), ast.Raise) and last_stmt(x.body).exc is None
                    ctx.ob('C17-R4', meth, f'except {norm(x.type) if x.type else ""} re-raises unchanged', bool(rer),
                           're-raises' if rer else 'a rejection reason can be swallowed or replaced here',
                           line=x.lineno)
    ctx.ob('C17-R4', (m.relpath, 'Builder'), f'{n} exception handlers on builder methods', True,
           'all re-raise' if n else 'none: rejections propagate unchanged', nontrivial=False)


def rule_ctx_init(ctx, m):
    """R5: a context constructor may read the fields its base-class constructor
    initialises only after calling it; otherwise building the rejection message
    itself raises AttributeError and masks the reason."""
    prog = ctx.prog
    base = m.cls('Context')
    base_fields = set(base.annotated_fields())
    n = 0
    for c in prog.subclasses_of('Context'):
        ini = c.methods.get('__init__')
        if c is base or ini is None:
            continue
        g = CFG(ini.node)
        dom = g.dominators(edge_ok=lambda a, b, lab: lab != 'e')
        sup = [x for x in g.nodes if x.stmt is not None and x.kind == 'stmt' and any(
            isinstance(cc.func, ast.Attribute) and cc.func.attr == '__init__' and isinstance(cc.func.value, ast.Call)
            and call_name(cc.func.value) == 'super' for cc in calls_in(x.stmt))]
        own = {t.attr for t, st, how in stores_to(ini.node) if isinstance(t, ast.Attribute) and norm(t.value) == 'self'}
        for x in g.nodes:
            if x.stmt is None:
                continue
            exprs = [x.stmt] if x.kind == 'stmt' else [getattr(x.stmt, 'test', None)]
            for e in exprs:
                if e is None:
                    continue
                for a in ast.walk(e):
                    if isinstance(a, ast.Attribute) and isinstance(a.ctx, ast.Load) and norm(a.value) == 'self' \
                            and a.attr in base_fields and a.attr not in own:
                        n += 1
                        ok = bool(sup) and sup[0].id in dom[x.id]
                        ctx.ob('C17-R5', ini, f'read of self.{a.attr} at `{x.text()[:50]}`', ok,
                               'after super().__init__()' if ok else
                               (f'self.{a.attr} is set by the base Context constructor, which has not run yet at this point '
                                '(it is only reached on a rejection path): building the error raises AttributeError and '
                                'hides the real reason'), line=a.lineno)
    ctx.ob('C17-R5', (m.relpath, 'Context'), f'{n} reads of base-initialised fields in context constructors', True,
           'each checked against the position of super().__init__()', nontrivial=False)


def run(ctx):
    rule_ctx_init(ctx, ctx.prog.module(BASE))
    m = ctx.prog.module(BASE)
    rule_pairing(ctx, m)
    rule_persistent(ctx, m)
    rule_convergence(ctx, m)
    rule_handlers(ctx, m)
    # R6: an out-of-envelope state is rejected by the performance model itself (the no-extrapolation rule of C06)
    from .c06 import rule_no_extrapolation
    sub = type(ctx)(ctx.prop, ctx.prog, ctx.tier)
    rule_no_extrapolation(sub)
    for o in sub.obligations:
        o.rule = 'C17-R6'
        ctx.obligations.append(o)
    ctx.controls += sub.controls
    ctx.assumptions += ['bit-identity of numerics is not decided; only absence of carried state',
                        'the performance model and mission objects passed to fly() are not mutated by third parties']
