"""C17 — each simulated flight is independent of the builder's history and failures.

R1  the per-flight context exists wherever it is used (T-PAIR, must-dataflow on
    the CFG of `fly` with `finally` instantiated per continuation, exceptional
    edges carrying the state *before* the failing statement): a release
    (`del self.ctx`) and every read of context-backed state - `self.<attr>` for
    an attribute the builder does not have itself (no method, class attribute
    or constructor store of that name), which `__getattr__` forwards to
    `self.ctx` - may be reached only where the acquire (`self.ctx = ...`) has
    definitely been executed, or under a guard that establishes the context
    (`'ctx' in self.__dict__` / `vars(self)`, `hasattr(self, 'ctx' | <context
    attribute>)`, `getattr(self, 'ctx', None) is not None`, as an `if`, a
    conditional expression or the left operand of `and`), or where the
    AttributeError is caught on the spot.  Otherwise the use itself raises
    AttributeError on the path on which the context constructor rejected the
    mission, and hides the reason.  Also: no exit of `fly` leaves the context
    acquired (a failure of the release itself, however spelled, or of a
    question put to the builder - vars / hasattr / getattr - is not such an
    exit).  `fly` is read as the interpreter runs it: a `with` over a context
    manager of the repository - a `@contextmanager` generator (function or
    builder method) or an object of a class with `__enter__` / `__exit__` -
    is replaced by the manager's code around the `with` body, the manager's
    parameters / fields bound to the arguments (`builder.ctx` of the manager
    is `self.ctx` of `fly`; keywords of the call that the manager does not
    name are the items of its `**kw` dict, together with a `**mapping` handed
    on): the manager's try / except / finally around its
    `yield` protect the flight exactly like a try statement written in `fly`;
    `__exit__` is not run when `__enter__` failed; an `__exit__` returning True
    swallows.  Acquire, release, guards, handlers and finally blocks that moved
    into a manager are judged there (R1 and R4) and reported at their own
    file and line.
R2  no builder-persistent state is carried between flights (effects):
    attributes stored on the builder while flying that are not redirected to
    the context must not be read while flying, and persistent containers of
    the builder must not be mutated while flying.  The redirection itself is
    decided by what `__getattr__` / `__setattr__` *do*: both are run by the
    checker's interpreter (helpers followed as written, the attribute
    protocol - `__getattribute__`, getattr / hasattr / setattr, `__dict__` /
    vars, `super().__setattr__` / `object.__setattr__` - answered for the
    situation) in every situation they are called in: no context / a context
    that lacks the name / a context that holds it, the builder having the
    name or not, and the name being `ctx` itself.  A read of a name the
    builder lacks returns the context's value when the context exists and
    holds the name and raises AttributeError otherwise, with no store
    anywhere; a write goes to the context exactly when it exists and holds
    the name, otherwise to the builder, never to both.  An ordinary
    `self.<name>` look-up inside `__getattr__` that re-enters it is reported
    as the RecursionError it is.
    Loop state kept in a helper object: an object of a repository class that
    a builder constructor creates and keeps (`self.A = K(..)`) outlives the
    flight.  Where `_iterate_mass` works through such an object (see R3), every
    field that is written while flying must be assigned on every path from
    the start of the iteration to each of its reads (must-assigned dataflow
    over the opened function, reads inside methods that stay calls included):
    a field initialised once per builder instead of once per flight (a
    convergence flag, a pass counter) carries the outcome of an earlier flight
    into this one - reported naming the field, the read, what *is* assigned by
    then and where the field is written.  Fields only the constructor sets
    are configuration, not history.  Not decided (exit 2) when another builder
    method also uses the object.
R3  convergence gate, decided on the CFG of `_iterate_mass` by must-dataflow:
    every `return <trajectory>` is reached only with `abs(residual) <
    tolerance` established for the iteration that produced that trajectory
    (true branch of the test; `tol > abs(r)`, `-tol < r < tol`, `r < tol and
    r > -tol`, a hoisted `abs(r)` or tolerance, `k * tolerance` with k <= 1),
    directly or through boolean flag variables (`flag = True` under the test,
    `flag = abs(r) < tol`; tracked as flag => gate) - with or without a flag,
    with early return, break/else or guard clauses alike.  A new
    `_fly_iteration()` invalidates what was established.  Trajectory and
    residual are the components of one `_fly_iteration()` result, unpacked
    together or held in one local and read through the record's fields;
    rebinding one without the other is a violation.  `abs(-r)` and
    `max(r, -r)` are magnitudes of r; `-r < tol` says `r > -tol`.  The signed
    residual, a tolerance wider than requested, and convergence concluded
    from the *failure* of a `>=` test (true for NaN) do not establish the
    gate.  Neither does a one-sided comparison with the tolerance of any other
    quantity computed from the iteration's result (the fuel state of its
    trajectory, a recomputed leftover, held in a local or not): when such a
    quantity is sign-preserving arithmetic (+ - * /, odd powers, min/max,
    float()) over the result's data and the builder's state, with no
    magnitude (abs, even power, sqrt, norm) taken, and it is bounded from one
    side only, every value of the wrong sign passes as converged - reported
    as the violation it is, naming the quantity.  Such a quantity bounded on
    both sides, or under abs(), is not decided (exit 2: its equality with the
    residual is not established), and no one-sided-test violation is claimed
    while an unclassified ordering comparison of an iteration quantity may
    supply the missing bound.
    The state of the loop may live in a helper object instead of locals
    (`it = self.mass_iteration; it.start(self.options); while
    it.proceed(res): ..; if not it.converged: raise it.failure()`): for an
    object of a repository class kept by the builder / context constructor,
    reached as `self.A` or through one alias, each method call that is a
    statement, the value of an assignment / return or the first thing an
    `if` / `while` test evaluates is replaced by the method's body (the
    engine's helper inliner; `while obj.m(..):` is `while True: t = obj.m(..);
    if not t: break`; a test of a flag every preceding branch has just set to
    a constant is threaded into those branches), and `obj.x` is the local
    `obj__x`: flag, counter, tolerance and latest residual are locals of the
    loop again and the gate is decided as above.  Methods that write no field
    stay calls.  An object that is handed on, rebound, or whose method cannot
    be inlined leaves the function as written (then usually exit 2).
    The residual returned by `_fly_iteration` is the leftover trip fuel
    fraction of *the trajectory it flew*: as an exact rational function it
    equals (F − (M − last aircraft mass)) / F, where M and F are what the
    start point of that trajectory is given as aircraft mass and trip fuel
    (the stores to `aircraft_mass` / `fuel_mass` of the point made first, found
    wherever they are), read in `_fly_iteration`'s own terms: attributes of the
    trajectory are what `_fly_iteration` stored in them before the flight,
    attributes it stores itself before the flight are their values, `p.field`
    of a NamedTuple parameter is `p[i]`, unpacked parameters are their
    components.  When the formula is right only after identifying a quantity
    it uses with one of the start state (`self.total_fuel_mass` for
    `mass.total_fuel_mass`), the two must both be carried from iteration to
    iteration: one that nothing reachable from `_iterate_mass` stores, against
    one that is corrected after every iteration (an attribute stored there, a
    parameter whose argument is rebound in the loop), is the leftover of
    another flight from the second iteration on - a violation naming both;
    both carried (kept in step by the caller) is not decided (exit 2); a
    formula no such identification makes right is a changed definition.
R4  nothing on the exceptional path replaces the rejection reason: for every
    exception handler and `finally` block of a builder method, on the CFG:
    no path through a handler continues normally (swallow; exempt, wherever
    the handler sits: a clause that catches only look-up errors - KeyError,
    IndexError, LookupError, StopIteration, AttributeError - around a block
    that only looks things up: it raises nothing else and calls nothing but
    the attribute protocol and resolved functions that in turn only look
    things up); every `raise`
    in a handler is bare or re-raises the bound name (no rewrap, no `from`),
    and a bare `raise` is not in a handler nested inside another handler
    (it would re-raise the secondary error); evaluating the handler / finally
    body cannot itself raise for a decidable reason before the re-raise: it
    reads no context-backed attribute where the context is not definitely
    acquired (R1 state) and no local that is not definitely bound on every
    path into it (must-bound dataflow); a `finally` contains no return / break
    / continue.  Positive control: an embedded handler that formats
    `self.mission` and an unbound local before `raise` must be recognised.
R5  a context constructor reads base-initialised fields only after
    `super().__init__()`.
R6  an out-of-envelope state is rejected by the performance model itself (the
    no-extrapolation rule of C06).
R7  a rejecting loop makes every check it is written to make: in the methods
    of the context and builder classes (and what they call), a `for .. in
    zip(..)` whose body can raise pairs the quantities to compare with their
    limits / messages; zip() stops silently at its shortest operand.  When the
    program text fixes the length of every operand (a display, a local bound
    once to one, tuple()/list() of one, a class constant read through self /
    cls / the class that no method stores to and no subclass overrides, a
    module constant) the lengths must be equal; otherwise the checks for the
    dropped elements are never made and a mission only they would reject is
    not rejected with its reason.  The report names the operands and lengths,
    the comparisons never made, and - when the short operand holds a string
    written as adjacent literals over several lines - the missing comma that
    joined two messages into one.  Operands of unknown length are not judged.
    Positive control: an embedded loop over zip(2, 2, <class constant of 1>).
"""

from __future__ import annotations

import ast

from ..astutil import (MUTATING_METHODS, ancestors, assigned_names, call_name, calls_in, conjuncts, guards_of,
                       is_generator_manager, is_within, local_defs, norm, set_parents, single_def_value,
                       splice_class_managers, splice_generator_managers, stmt_of, stores_to, walk_no_nested)
from ..cfg import CFG
from ..resolve import closure, resolve_call
from .c13 import _ClassRef, _Interp, _Raised, _Rec, _Tok, _Undecidable

BASE = 'trajectories/builders/base.py'
CTX_ATTR = 'ctx'


def _is_acquire(stmt):
    return isinstance(stmt, (ast.Assign, ast.AnnAssign)) and any(
        norm(t) == f'self.{CTX_ATTR}' for t in (stmt.targets if isinstance(stmt, ast.Assign) else [stmt.target]))


def _is_release(stmt):
    if isinstance(stmt, ast.Delete):
        return any(norm(t) == f'self.{CTX_ATTR}' for t in stmt.targets)
    if isinstance(stmt, ast.Expr) and isinstance(stmt.value, ast.Call):
        c = stmt.value
        if call_name(c) == 'delattr' and len(c.args) == 2 and norm(c.args[0]) == 'self' \
                and isinstance(c.args[1], ast.Constant) and c.args[1].value == CTX_ATTR:
            return True
    return False


def _ctx_fact(atom: ast.expr, pol: bool, own: set):
    """What `atom` having truth value `pol` says about the per-flight context: True = it exists,
    False = it does not, None = nothing.  `own` = attributes the builder has without a context."""
    if isinstance(atom, ast.Compare) and len(atom.ops) == 1:
        l, op, r = atom.left, atom.ops[0], atom.comparators[0]
        if isinstance(l, ast.Constant) and l.value == CTX_ATTR and norm(r) in ('self.__dict__', 'vars(self)'):
            if isinstance(op, ast.In):
                return pol
            if isinstance(op, ast.NotIn):
                return not pol
        if isinstance(l, ast.Call) and call_name(l) == 'getattr' and len(l.args) == 3 and norm(l.args[0]) == 'self' \
                and isinstance(l.args[1], ast.Constant) and l.args[1].value == CTX_ATTR \
                and isinstance(l.args[2], ast.Constant) and l.args[2].value is None \
                and isinstance(r, ast.Constant) and r.value is None:
            if isinstance(op, ast.IsNot):
                return pol
            if isinstance(op, ast.Is):
                return not pol
    if isinstance(atom, ast.Call) and call_name(atom) == 'hasattr' and len(atom.args) == 2 \
            and norm(atom.args[0]) == 'self' and isinstance(atom.args[1], ast.Constant) \
            and isinstance(atom.args[1].value, str):
        a = atom.args[1].value
        if a == CTX_ATTR:
            return pol
        if a not in own and pol:
            return True  # an attribute the builder does not have itself is reachable only through the context
    return None


def _edge_ctx(test: ast.expr, lab: str, own: set, st):
    facts = [_ctx_fact(a, p, own) for a, p in conjuncts(test, lab == 't')]
    if True in facts:
        return True
    if False in facts:
        return False
    return st


def _builder_own_attrs(prog) -> set:
    """Attributes a builder object has without a per-flight context: methods, class attributes and what the
    constructors store.  `self.<anything else>` is served by `Builder.__getattr__`, i.e. by `self.ctx`."""
    own = set()
    for c in prog.subclasses_of('Builder'):
        for k in c.mro():
            own |= set(k.methods)
            own |= {n for n, v in k.class_assignments().items() if v is not None}
            own |= {x.name for x in k.node.body if isinstance(x, ast.ClassDef)}
            for nm in ('__init__', '__post_init__', '__new__'):
                ini = k.methods.get(nm)
                if ini is not None:
                    for t, st, how in stores_to(ini.node):
                        if isinstance(t, ast.Attribute) and norm(t.value) == 'self':
                            own.add(t.attr)
    return own


def _node_exprs(n):
    """the expressions evaluated at a CFG node"""
    s = n.stmt
    if s is None:
        return []
    if n.kind == 'stmt':
        return [] if isinstance(s, (ast.FunctionDef, ast.AsyncFunctionDef, ast.ClassDef)) else [s]
    if n.kind == 'test':
        return [s.test]
    if n.kind == 'iter':
        return [s.iter]
    if n.kind == 'with':
        return [i.context_expr for i in s.items]
    if n.kind == 'match':
        return [s.subject]
    if n.kind == 'case':
        return [s.guard] if s.guard is not None else []
    if n.kind == 'except':
        return [s.type] if s.type is not None else []
    return []


def _ctx_loads(n, own):
    """reads of context-backed builder attributes evaluated at node n (not those guarded inside the expression)"""
    out = []
    for e in _node_exprs(n):
        for a in walk_no_nested(e, include_lambda=False):
            if not (isinstance(a, ast.Attribute) and isinstance(a.value, ast.Name) and a.value.id == 'self'):
                continue
            if a.attr.startswith('__') and a.attr.endswith('__') or a.attr in own:
                continue
            is_aug = isinstance(getattr(a, '_parent', None), ast.AugAssign) and a._parent.target is a
            if not (isinstance(a.ctx, ast.Load) or is_aug):
                continue
            if any(_ctx_fact(x, q, own) is True for t, pol, _ in guards_of(a, stop=n.stmt) for x, q in conjuncts(t, pol)):
                continue
            out.append(a)
    return out


def _exc_regions(stmt):
    """enclosing exception handlers / finally blocks of a statement, innermost first:
    list of ast.ExceptHandler | ('finally', ast.Try)"""
    out = []
    child = stmt
    for a in ancestors(stmt):
        if isinstance(a, (ast.FunctionDef, ast.AsyncFunctionDef, ast.Lambda)):
            break
        if isinstance(a, ast.ExceptHandler):
            out.append(a)
        elif isinstance(a, ast.Try) and any(child is s for s in a.finalbody):
            out.append(('finally', a))
        child = a
    return out


def _bound_inside(fn):
    """names bound by comprehensions / lambdas (their own scopes)"""
    out = set()
    for x in walk_no_nested(fn):
        if isinstance(x, ast.comprehension):
            out |= set(assigned_names(x.target))
        elif isinstance(x, ast.Lambda):
            out |= {a.arg for a in x.args.posonlyargs + x.args.args + x.args.kwonlyargs}
    return out


def _params(fn):
    a = fn.args
    names = {x.arg for x in a.posonlyargs + a.args + a.kwonlyargs}
    if a.vararg:
        names.add(a.vararg.arg)
    if a.kwarg:
        names.add(a.kwarg.arg)
    return names


def _node_binds(n):
    """(names bound, names unbound) by the node when it completes normally"""
    s, binds, dels = n.stmt, set(), set()
    if s is None:
        return binds, dels
    if n.kind == 'stmt':
        if isinstance(s, ast.Assign):
            for t in s.targets:
                binds |= set(assigned_names(t))
        elif isinstance(s, ast.AnnAssign) and s.value is not None:
            binds |= set(assigned_names(s.target))
        elif isinstance(s, (ast.Import, ast.ImportFrom)):
            binds |= {(al.asname or al.name).split('.')[0] for al in s.names}
        elif isinstance(s, (ast.FunctionDef, ast.AsyncFunctionDef, ast.ClassDef)):
            binds.add(s.name)
        elif isinstance(s, ast.Delete):
            dels |= {t.id for t in s.targets if isinstance(t, ast.Name)}
    elif n.kind == 'iter':
        binds |= set(assigned_names(s.target))
    elif n.kind == 'with':
        for it in s.items:
            if it.optional_vars is not None:
                binds |= set(assigned_names(it.optional_vars))
    elif n.kind == 'except' and s.name:
        binds.add(s.name)
    elif n.kind == 'case':
        for x in ast.walk(s.pattern):
            nm = getattr(x, 'name', None) if isinstance(x, (ast.MatchAs, ast.MatchStar)) else \
                getattr(x, 'rest', None) if isinstance(x, ast.MatchMapping) else None
            if nm:
                binds.add(nm)
    for e in _node_exprs(n):
        for x in walk_no_nested(e, include_lambda=False):
            if isinstance(x, ast.NamedExpr):
                binds.add(x.target.id)
    return binds, dels


class FlightWrapper:
    """Everything R1 and R4 need to know about a function that manages (or runs under) the per-flight context:
    CFG, must-acquired state, must-bound locals, and per exception handler / finally block what can go wrong
    while an exception is in flight."""

    def __init__(self, fn: ast.AST, own: set, assume_acquired: bool = False):
        self.fn, self.own = fn, own
        g = self.g = CFG(fn)
        self.acq = [n for n in g.nodes if n.kind == 'stmt' and _is_acquire(n.stmt)]
        self.rel = [n for n in g.nodes if n.kind == 'stmt' and _is_release(n.stmt)]

        def transfer(node, st):
            if node.kind == 'stmt' and _is_acquire(node.stmt):
                return True
            if node.kind == 'stmt' and _is_release(node.stmt):
                return False
            return st

        def branch(node, lab, st):
            return _edge_ctx(node.stmt.test, lab, own, st) if node.kind == 'test' else st

        self.transfer, self.branch = transfer, branch
        self.must_ctx, _ = g.forward(bool(assume_acquired), transfer, lambda a, b: a and b, branch_transfer=branch)

        # must-bound locals
        self.locals = ({x.id for x in walk_no_nested(fn) if isinstance(x, ast.Name)
                        and isinstance(x.ctx, (ast.Store, ast.Del))}
                       | {h.name for h in walk_no_nested(fn) if isinstance(h, ast.ExceptHandler) and h.name}
                       | _params(fn)) - _bound_inside(fn)
        binds = {n.id: _node_binds(n) for n in g.nodes}

        def tbind(node, st):
            b, d = binds[node.id]
            return (st | b) - d if (b or d) else st

        self.must_bound, _ = g.forward(frozenset(_params(fn)), tbind, lambda a, b: a & b)

        # reads that fail when the state they need is not there
        self.ctx_reads = []      # (node, ast.Attribute, ok)
        self.unbound_reads = []  # (node, ast.Name)
        for n in g.nodes:
            if n.id not in self.must_ctx:
                continue  # unreachable
            for a in _ctx_loads(n, own):
                # a read whose AttributeError is caught right there is judged by what that handler does (R4)
                self.ctx_reads.append((n, a, bool(self.must_ctx[n.id]) or self._attribute_error_caught(n)))
            bound = self.must_bound.get(n.id, frozenset())
            for e in _node_exprs(n):
                for x in walk_no_nested(e, include_lambda=False):
                    if isinstance(x, ast.Name) and isinstance(x.ctx, ast.Load) and x.id in self.locals \
                            and x.id not in bound:
                        self.unbound_reads.append((n, x))

    def _attribute_error_caught(self, n) -> bool:
        for b, lab in self.g.succ[n.id]:
            d = self.g.nodes[b]
            if lab == 'e' and d.kind == 'dispatch':
                for hb, _ in self.g.succ[d.id]:
                    h = self.g.nodes[hb]
                    if h.kind == 'except' and (h.stmt.type is None or {x.split('.')[-1] for x in _type_names(h.stmt)}
                                               & {'AttributeError', 'Exception', 'BaseException'}):
                        return True
        return False

    def bad_reads_in(self, region):
        """reads inside a handler / finally block that raise on some path into it: [(node, text, why)]"""
        out = []
        for n, a, ok in self.ctx_reads:
            if not ok and any(r is region or (isinstance(r, tuple) and isinstance(region, tuple) and r[1] is region[1])
                              for r in _exc_regions(n.stmt) + ([n.stmt] if n.kind == 'except' else [])):
                out.append((n, f'self.{a.attr}', 'ctx'))
        for n, x in self.unbound_reads:
            if any(r is region or (isinstance(r, tuple) and isinstance(region, tuple) and r[1] is region[1])
                   for r in _exc_regions(n.stmt)):
                out.append((n, x.id, 'local'))
        return out

    def handlers(self):
        """[(ExceptHandler, Try, nested: bool)] of this function"""
        out = []
        for t in walk_no_nested(self.fn):
            if isinstance(t, ast.Try):
                for h in t.handlers:
                    out.append((h, t, bool(_exc_regions(t))))
        return out

    def swallows(self, h) -> bool:
        return any(self.g.reaches(x, self.g.exit) for x in self.g.nodes_of(h))

    def body_can_only_fail_locally(self, t: ast.Try, h: ast.ExceptHandler, lookup_call=None) -> bool:
        """the clause catches only look-up errors (a missing key, index or attribute), and the protected block only
        looks things up: it raises nothing but look-up errors and calls nothing but the attribute protocol
        (getattr / hasattr / setattr / `__getattribute__` / vars ...) and functions that in turn only look things
        up (`lookup_call`).  Whatever such a handler catches was produced by the block's own look-ups, never by the
        flight machinery - wherever the handler sits."""
        if h.type is None:
            return False
        names = {norm(x).split('.')[-1] for x in (h.type.elts if isinstance(h.type, ast.Tuple) else [h.type])}
        if not names <= LOOKUP_ERRORS:
            return False
        return _only_looks_up(t.body, lookup_call or attr_protocol_call)

    def raises_of(self, h):
        """raise statements whose innermost handler is h"""
        out = []
        for r in walk_no_nested(h):
            if isinstance(r, ast.Raise):
                inner = next((a for a in ancestors(r) if isinstance(a, ast.ExceptHandler)), None)
                if inner is h:
                    out.append(r)
        return out

    def finally_escapes(self, t: ast.Try):
        """return / break / continue inside a finally block: they discard the exception in flight"""
        out = []
        for s in t.finalbody:
            for x in walk_no_nested(s):
                if isinstance(x, ast.Return):
                    out.append(x)
                elif isinstance(x, (ast.Break, ast.Continue)):
                    lp = next((a for a in ancestors(x) if isinstance(a, (ast.For, ast.While, ast.AsyncFor))), None)
                    if lp is None or not any(is_within(lp, f) for f in t.finalbody):
                        out.append(x)
        return out


LOOKUP_ERRORS = {'KeyError', 'IndexError', 'LookupError', 'StopIteration', 'AttributeError'}
_PROTOCOL_FUNCS = {'getattr', 'hasattr', 'setattr', 'delattr', 'vars', 'type', 'isinstance', 'id', 'callable', 'super', 'object'}
_PROTOCOL_METHODS = {'__getattribute__', '__getattr__', '__setattr__', '__delattr__'}


def attr_protocol_call(c: ast.Call) -> bool:
    """a call of the attribute protocol itself: it can fail with a look-up error of the object asked, and runs nothing
    of the flight machinery"""
    f = c.func
    if isinstance(f, ast.Name):
        return f.id in _PROTOCOL_FUNCS
    if isinstance(f, ast.Attribute):
        if f.attr in _PROTOCOL_METHODS:
            return True
        return f.attr in ('get', 'keys', 'values', 'items') and (
            (isinstance(f.value, ast.Attribute) and f.value.attr == '__dict__')
            or (isinstance(f.value, ast.Call) and call_name(f.value) == 'vars'))
    return False


def _only_looks_up(stmts, lookup_call) -> bool:
    for s in stmts:
        for x in walk_no_nested(s):
            if isinstance(x, ast.Raise):
                e = x.exc.func if isinstance(x.exc, ast.Call) else x.exc
                if e is None or norm(e).split('.')[-1] not in LOOKUP_ERRORS:
                    return False
            elif isinstance(x, ast.Call) and not lookup_call(x):
                return False
            elif isinstance(x, (ast.Await, ast.Yield, ast.YieldFrom)):
                return False
    return True


def lookup_call_in(prog, fi, depth: int = 0, stack=()):
    """predicate on the calls written in `fi`: the attribute protocol, or a resolved repository function whose body
    only looks things up in the same sense (followed through helpers)"""
    def pred(c: ast.Call) -> bool:
        if attr_protocol_call(c):
            return True
        if depth >= 3:
            return False
        try:
            callee = resolve_call(prog, fi, c)
        except Exception:
            callee = None
        if callee is None or any(callee is k for k in stack) or callee.decorators():
            return False
        return _only_looks_up(callee.node.body, lookup_call_in(prog, callee, depth + 1, stack + (callee,)))
    return pred


def _where(n):
    return f' in finally copy {n.fin}' if n.fin else ''


def _fold_excess_keywords(fn, resolve):
    """`with m(a=x, b=y, **more):` over a generator manager `def m(self, **kw)`: the keywords the manager does not name
    are, by the calling convention, the items of its `**kw` dict.  The call is rewritten to hand that dict over as one
    keyword (`m(kw={'a': x, 'b': y, **more})`) and the manager to take `kw` as a keyword-only parameter, which is the
    same binding in a form the splice can read off.  Not done (the `with` then stays as written) when a `**mapping`
    of the call could also bind a named parameter of the manager that the call does not bind itself.
    Returns (fn or a rewritten copy, {(line, col) of the call: (manager node, rewritten manager node)})."""
    import copy
    nodes = list(walk_no_nested(fn))
    hits = []
    for i, c in enumerate(nodes):
        if not (isinstance(c, ast.Call) and isinstance(getattr(c, '_parent', None), ast.withitem)
                and c._parent.context_expr is c):
            continue
        r = resolve(c)
        if r is None:
            continue
        mgr, _tag, recv = r
        a = mgr.args
        if a.kwarg is None or a.vararg is not None or any(isinstance(x, ast.Starred) for x in c.args):
            continue
        by_keyword = [p.arg for p in a.args + a.kwonlyargs]
        excess = [k for k in c.keywords if k.arg is not None and k.arg not in by_keyword]
        if not excess:
            continue
        stars = [k for k in c.keywords if k.arg is None]
        npos = (1 if recv is not None else 0) + len(c.args)
        pos = [p.arg for p in a.posonlyargs + a.args]
        if npos > len(pos):
            continue
        explicit = {k.arg for k in c.keywords if k.arg is not None}
        unbound = [p for p in pos[npos:] + [p.arg for p in a.kwonlyargs] if p not in explicit]
        if stars and unbound:
            continue
        hits.append((i, mgr))
    if not hits:
        return fn, {}
    out = copy.deepcopy(fn)
    nodes2 = list(walk_no_nested(out))
    folded = {}
    for i, mgr in hits:
        c = nodes2[i]
        a = mgr.args
        by_keyword = [p.arg for p in a.args + a.kwonlyargs]
        keys, values, keep = [], [], []
        for k in c.keywords:
            if k.arg is None:
                keys.append(None)
                values.append(k.value)
            elif k.arg in by_keyword:
                keep.append(k)
            else:
                keys.append(ast.copy_location(ast.Constant(k.arg), k.value))
                values.append(k.value)
        d = ast.copy_location(ast.Dict(keys=keys, values=values), c)
        c.keywords = keep + [ast.keyword(arg=a.kwarg.arg, value=d)]
        m2 = copy.deepcopy(mgr)
        m2.args.kwonlyargs = list(m2.args.kwonlyargs) + [m2.args.kwarg]
        m2.args.kw_defaults = list(m2.args.kw_defaults) + [None]
        m2.args.kwarg = None
        set_parents(m2)
        folded[(getattr(c, 'lineno', None), getattr(c, 'col_offset', None))] = (mgr, m2)
    ast.fix_missing_locations(out)
    set_parents(out)
    return out, folded


def as_run(prog, fi):
    """The function as the interpreter runs it: a `with` statement over a generator-based context manager of the
    repository (`@contextmanager def m(..): try: <acquire>; yield finally: <release>`) is the manager's body with the
    `with` body in the place of the `yield` (astutil.splice_generator_managers: parameters bound to the arguments, so
    the manager's `builder.ctx` is the method's `self.ctx`); over an object of a repository class with `__enter__` /
    `__exit__` it is `<__enter__>; try: <body> finally: <__exit__>` (astutil.splice_class_managers; `__exit__` is not
    run when `__enter__` failed, and one that returns True swallows).  Acquire, release, handlers and finally blocks
    that moved into such a manager are thereby judged where they act - around the flight.  Returns (function node,
    managers spliced in)."""
    def resolve(c):
        try:
            callee = resolve_call(prog, fi, c)
        except Exception:
            callee = None
        if callee is None or not is_generator_manager(callee.node):
            return None
        recv = c.func.value if (callee.cls is not None and isinstance(c.func, ast.Attribute)) else None
        return callee.node, callee, recv

    def resolve_class(c):
        try:
            cls = prog.resolve_class_expr(fi.module, c.func)
        except Exception:
            cls = None
        if cls is None:
            return None
        enter, exit_, init = cls.find_method('__enter__'), cls.find_method('__exit__'), cls.find_method('__init__')
        if enter is None or exit_ is None or cls.find_method('__post_init__') is not None:
            return None
        fields = [f for k in reversed(cls.mro()) for f in k.annotated_fields()]
        from types import SimpleNamespace
        tag = SimpleNamespace(file=cls.file, qualname=cls.name, name=cls.name)
        return (init.node if init is not None else None), fields, enter.node, exit_.node, tag

    src, folded = _fold_excess_keywords(fi.node, resolve)

    def resolve_folded(c):
        r = resolve(c)
        key = (getattr(c, 'lineno', None), getattr(c, 'col_offset', None))
        if r is not None and key in folded and folded[key][0] is r[0]:
            return (folded[key][1],) + tuple(r[1:])
        return r

    node, managers = splice_generator_managers(src, resolve_folded if folded else resolve)
    if not managers:
        node = fi.node
    node, more = splice_class_managers(node, resolve_class)
    return node, managers + more


def _origin(fi, node):
    """(where, line, note) of a construct for a report: a construct that was taken from a context manager is reported
    at its own place"""
    x = node
    while x is not None and not hasattr(x, '_from_manager'):
        x = getattr(x, '_parent', None)
    if x is None:
        return fi, getattr(node, 'lineno', 0), ''
    mgr = x._from_manager
    return ((mgr.file, mgr.qualname), getattr(node, 'lineno', 0),
            f' (in the context manager `{mgr.name}` that {fi.name} runs its body under)')


def rule_pairing(ctx, m):
    fly = m.func('Builder.fly')
    own = _builder_own_attrs(ctx.prog)
    fly_node, managers = as_run(ctx.prog, fly)
    ctx.stats['fly.context_managers_spliced'] = [mg.qualname for mg in managers]
    fw = FlightWrapper(fly_node, own)
    fw.of = fly.node
    g, acq, rel = fw.g, fw.acq, fw.rel
    ctx.floor('C17-R1', len(acq), 1, 'context acquire sites in fly')
    ctx.floor('C17-R1/release', len(rel), 1, 'context release sites in fly')
    ins = fw.must_ctx

    def avoid_path(target):
        # an exceptional path from entry to the node that avoids every completed acquire: preferably the one on which
        # the acquire itself fails
        acq_ids = {a.id for a in acq}
        no_acq = lambda a, b, lab: not (a in acq_ids and lab != 'e')  # noqa: E731
        p = None
        for a in acq:
            p1 = g.find_path(g.entry, a.id, edge_ok=no_acq)
            p2 = g.find_path(a.id, target, edge_ok=no_acq)
            if p1 and p2:
                p = p1 + p2[1:]
                break
        p = p or g.find_path(g.entry, target, edge_ok=no_acq)
        if not p:
            return []
        p = [x for x in p if not (g.nodes[x].kind == 'stmt' and isinstance(g.nodes[x].stmt, ast.Expr)
                                  and isinstance(g.nodes[x].stmt.value, ast.Constant))]
        return [f'L{g.nodes[x].line}: {g.nodes[x].text()[:80]}' + (' [exceptional edge follows]'
                if i + 1 < len(p) and ('e' in [l for t, l in g.succ[x] if t == p[i + 1]]) else '')
                for i, x in enumerate(p) if g.nodes[x].stmt is not None]

    for r in rel:
        # a release whose AttributeError is caught right there is judged by what that handler does (R4)
        ok = ins.get(r.id, True) or fw._attribute_error_caught(r)
        where, line, note = _origin(fly, r.stmt)
        ctx.ob('C17-R1', where, f'release `{norm(r.stmt)}` in finally copy {r.fin or ("body",)}{note}', ok,
               'the context is definitely acquired (or the release is guarded) on every path reaching it'
               if ok else
               ('the release is reachable on an exceptional path on which the acquire never completed '
                '(the context constructor itself raised: unknown airport, airport above cruise level, '
                f'missing weather): `{norm(r.stmt)}` raises AttributeError and hides the reason'),
               line=line, path=[] if ok else avoid_path(r.id))

    # every use of context-backed state needs the context: `self.<attr>` for an attribute the builder does not have
    # itself goes through __getattr__ to self.ctx and raises AttributeError when there is none
    ctx.stats['fly.context_backed_reads'] = len(fw.ctx_reads)
    ctx.floor('C17-R1/reads', len(fw.ctx_reads), 1, 'reads of context-backed attributes in fly')
    for n, a, ok in fw.ctx_reads:
        inexc = bool(_exc_regions(n.stmt)) or n.kind == 'except'
        where, line, note = _origin(fly, a)
        ctx.ob('C17-R1', where, f'read of context-backed self.{a.attr} at `{n.text()[:50]}`{_where(n)}{note}', ok,
               'the context is definitely acquired (or the read is guarded) on every path reaching it' if ok else
               (f'self.{a.attr} is not an attribute of the builder: it is forwarded to the per-flight context, which '
                'does not exist on the path on which the context constructor itself rejected the mission (unknown '
                'airport, airport above cruise level, missing weather)'
                + (': evaluating this ' + ('handler' if inexc else 'statement') + ' raises AttributeError'
                   + (' and that unrelated error replaces the rejection reason' if inexc else ''))),
               line=line, path=[] if ok else avoid_path(n.id))

    # may-acquired at exits
    def real_exc(a, b, lab):
        # attribute loads / `del` themselves are not counted as failure points here
        # nor is the release itself, however it is spelled (`delattr(self, 'ctx')` is a call): where the context is
        # attached it succeeds, where it is not the must-analysis above has reported it
        na = g.nodes[a]
        if lab == 'e' and na.kind == 'stmt' and _is_release(na.stmt):
            return False
        if lab != 'e' or na.kind in ('dispatch', 'join', 'finally') or 'raise' in na.why_raise:
            return True
        if 'call' not in na.why_raise:
            return False
        # asking the builder what it has (`vars(self)`, `hasattr(self, ..)`, `getattr(self, .., None)`) runs nothing
        # of the flight
        calls = [c for e in _node_exprs(na) for c in walk_no_nested(e) if isinstance(c, ast.Call)]
        return na.kind == 'with' or not calls or not all(attr_protocol_call(c) for c in calls)

    ins2, _ = g.forward(False, fw.transfer, lambda a, b: a or b, branch_transfer=fw.branch, edge_ok=real_exc)
    for ex, what in ((g.exit, 'normal return'), (g.raise_exit, 'exceptional exit')):
        if ex in ins2:
            ok = not ins2[ex]
            ctx.ob('C17-R1', fly, f'context released on every {what}', ok,
                   'no path leaves fly with the context still attached' if ok else
                   f'some {what} leaves the per-flight context on the builder: the next flight starts '
                   'with stale state', line=fly.node.lineno)
    return fw


def _ctx_attrs(prog, builder_cls):
    """attribute names that live on the per-flight context of this builder"""
    attrs = set()
    v = None
    for c in builder_cls.mro():
        v = c.class_assignments().get('CONTEXT_CLASS')
        if v is not None and isinstance(v, ast.Name):
            cc = prog.resolve_name(c.module, v.id)
            if cc is not None and hasattr(cc, 'mro'):
                for k in cc.mro():
                    attrs |= set(k.annotated_fields())
                    for meth in k.methods.values():
                        for t, st, how in stores_to(meth.node):
                            if isinstance(t, ast.Attribute) and norm(t.value) == 'self':
                                attrs.add(t.attr)
                return attrs, cc
    return attrs, None


def rule_persistent(ctx, m):
    prog = ctx.prog
    builders = [c for c in prog.subclasses_of('Builder') if c.name != 'Builder']
    base = m.cls('Builder')
    ctx.floor('C17-R2', len(builders), 1, 'concrete builders')
    for b in builders:
        cattrs, cc = _ctx_attrs(prog, b)
        if cc is None:
            if all(len(meth.node.body) <= 2 for meth in b.methods.values()):
                continue  # stub builder
            ctx.note(f'C17-R2: {b.name} has no resolvable CONTEXT_CLASS; skipped')
            continue
        fly = b.find_method('fly')
        roots = [fly]
        # phase methods are dispatched dynamically via getattr(self, phase.method_name)
        for name, meth in {k: v for c in b.mro() for k, v in c.methods.items()}.items():
            if name.startswith('fly_') or name in ('calc_starting_mass',):
                roots.append(b.find_method(name))
        # the context is constructed inside fly() through the CONTEXT_CLASS attribute (a dynamic call): its
        # constructors run during every flight and may call back into the builder
        for k in cc.mro():
            if '__init__' in k.methods:
                roots.append(k.methods['__init__'])
        flight = [f for f in closure(prog, roots) if f.cls is not None and f.cls in b.mro()]
        init_attrs = set()
        for c in b.mro():
            ini = c.methods.get('__init__')
            if ini:
                for t, st, how in stores_to(ini.node):
                    if isinstance(t, ast.Attribute) and norm(t.value) == 'self':
                        init_attrs.add(t.attr)
        persistent_written = {}
        reads = {}
        for f in flight:
            if f.name == '__init__':
                continue
            for t, st, how in stores_to(f.node):
                bb = t
                elem = False
                while isinstance(bb, ast.Subscript):
                    bb, elem = bb.value, True
                if isinstance(bb, ast.Attribute) and norm(bb.value) == 'self':
                    a = bb.attr
                    if a == CTX_ATTR or a in cattrs:
                        continue
                    persistent_written.setdefault(a, []).append((f, st, 'elem' if elem else how))
            for n in walk_no_nested(f.node):
                if isinstance(n, ast.Call) and isinstance(n.func, ast.Attribute) \
                        and n.func.attr in MUTATING_METHODS:
                    bb = n.func.value
                    while isinstance(bb, ast.Subscript):
                        bb = bb.value
                    if isinstance(bb, ast.Attribute) and norm(bb.value) == 'self' \
                            and bb.attr in init_attrs and bb.attr not in cattrs:
                        persistent_written.setdefault(bb.attr, []).append((f, n, 'mutating call'))
                if isinstance(n, ast.Attribute) and isinstance(n.ctx, ast.Load) and norm(n.value) == 'self':
                    reads.setdefault(n.attr, []).append((f, n))
        ctx.stats[f'{b.name}.context_attributes'] = len(cattrs)
        ctx.stats[f'{b.name}.flight_methods'] = sorted(f.qualname for f in flight)
        for a, ws in sorted(persistent_written.items()):
            rs = [(f, n) for f, n in reads.get(a, [])
                  if not any(n is w[1] or _inside(n, w[1]) and isinstance(w[1], ast.AugAssign) for w in ws)]
            container = any(w[2] in ('elem', 'mutating call') for w in ws) and a in init_attrs
            ok = not rs and not container
            f0, st0, how0 = ws[0]
            ctx.ob('C17-R2', f0, f'builder attribute self.{a} written during a flight ({how0})', ok,
                   ('written but never read while flying: harmless' if not container else '') if ok else
                   (f'self.{a} is not a context attribute, so it survives the flight; it is '
                    + ('a container created in __init__ and mutated while flying'
                       if container else f'read while flying in {rs[0][0].qualname} (line {rs[0][1].lineno})')
                    + ': a later flight sees values left by an earlier one'),
                   line=getattr(st0, 'lineno', f0.node.lineno))
        # attributes of builder-persistent objects (self.options.x = …) written during a flight
        for f in flight:
            if f.name == '__init__':
                continue
            for t, st, how in stores_to(f.node):
                if isinstance(t, ast.Attribute) and isinstance(t.value, ast.Attribute) and norm(t.value.value) == 'self' \
                        and t.value.attr in init_attrs and t.value.attr not in cattrs:
                    ctx.ob('C17-R2', f, f'{norm(t)} written during a flight', False,
                           f'self.{t.value.attr} is shared by every flight of this builder (and, being a default '
                           'argument instance, by every builder): changing it makes later flights differ', line=st.lineno)
        if not persistent_written:
            ctx.ob('C17-R2', (b.file, b.name), 'no builder-persistent attribute written during a flight', True,
                   'all stores go to the per-flight context')
    # the redirection itself, decided by what the two methods do in every situation they can be called in
    rule_redirection(ctx, m, base)
    # module-level caches on the flight path must be pure functions of their arguments
    if ctx.tier == 'thorough':
        for f in prog.all_functions():
            if any('functools.cache' in d or 'lru_cache' in d for d in f.decorators()):
                free = {n.id for n in ast.walk(f.node) if isinstance(n, ast.Name) and isinstance(n.ctx, ast.Load)}
                glob_w = [n for n in ast.walk(f.node) if isinstance(n, ast.Global)]
                ok = not glob_w and 'self' not in f.params
                ctx.ob('C17-R2', f, 'memoised function is keyed on all its inputs', ok,
                       'module-level pure function' if ok else 'cache keyed on less than it depends on',
                       nontrivial=False)


def _inside(n, anc):
    return any(a is anc for a in ancestors(n))


# ----------------------------------------------------------------------------------------------------
# R2, the redirection: `__getattr__` / `__setattr__` evaluated in every situation they are called in
# ----------------------------------------------------------------------------------------------------

class _Redirection(_Interp):
    """The checker's interpreter (of the extracted AST; nothing of the repository is run) with the attribute protocol
    answered for one situation: does the builder have a per-flight context, does that context hold the name asked
    for, does the builder itself have the name.  `self` is the builder, helper methods are followed as written.
    What is decided is the *outcome* - the value returned or the exception raised, and where a store went - not the
    way it is spelled."""

    def __init__(self, prog, ci, root: str, own: set, name: str, has_ctx: bool, holds: bool, builder_has: bool):
        super().__init__(prog)
        self.ci, self.root, self.own, self.name = ci, root, own, name
        self.has_ctx, self.holds, self.builder_has = has_ctx, holds, builder_has
        self.B = _Rec(ci.name, {}, ci)
        self.C = _Tok('the context')
        self.CTXVAL, self.OLD, self.VAL = _Tok(f'<context>.{name}'), _Tok(f'<builder>.{name}'), _Tok('the value')
        self.bdict = {}
        if has_ctx:
            self.bdict[CTX_ATTR] = self.C
        if builder_has and name != CTX_ATTR:
            self.bdict[name] = self.OLD
        self.effects = []

    # -- what the attribute protocol answers ---------------------------------------------------------
    def _reenter(self, nm):
        """an implicit look-up of a name the builder does not have, from inside the redirection methods"""
        if self.root == '__getattr__':
            raise _Raised(RecursionError(f'__getattr__ looks up self.{nm} the ordinary way, which calls __getattr__ again'))
        # from __setattr__: what __getattr__ answers
        if nm == self.name and self.has_ctx and self.holds:
            return self.CTXVAL
        raise _Raised(AttributeError(nm))

    def _direct(self, nm):
        """object.__getattribute__(builder, nm): the builder's own state only"""
        if nm in self.bdict:
            return self.bdict[nm]
        if nm in self.own and nm != CTX_ATTR:
            return _Tok(f'<builder>.{nm}')
        raise _Raised(AttributeError(nm))

    def _builder_get(self, nm):
        try:
            return self._direct(nm)
        except _Raised as r:
            if isinstance(r.exc, AttributeError):
                return self._reenter(nm)
            raise

    def _ctx_get(self, nm):
        if nm == self.name:
            if self.holds:
                return self.CTXVAL
            raise _Raised(AttributeError(nm))
        raise _Undecidable(f'look-up of `{nm}` on the context')

    def _get(self, obj, nm):
        if not isinstance(nm, str):
            raise _Undecidable('attribute name is not a string')
        if obj is self.B:
            return self._builder_get(nm)
        if obj is self.C:
            return self._ctx_get(nm)
        if obj is None:
            raise _Raised(AttributeError(nm))   # None has none of the names asked for here
        raise _Undecidable('attribute look-up on another object')

    def _store_builder(self, nm, v):
        self.effects.append(('builder', nm, v))
        self.bdict[nm] = v

    # -- expressions ---------------------------------------------------------------------------------
    def eval(self, e, fi, sc):
        if isinstance(e, ast.Attribute) and isinstance(e.ctx, ast.Load):
            v = self.eval(e.value, fi, sc)
            if v is self.B:
                if e.attr == '__dict__':
                    return self.bdict
                if e.attr == '__class__':
                    return _ClassRef(self.ci)
                return self._builder_get(e.attr)
            if v is self.C:
                raise _Undecidable(f'attribute {e.attr} of the context read directly')
            if isinstance(v, _ClassRef) and e.attr in ('__name__', '__qualname__'):
                return v.ci.name
            if isinstance(v, _Tok):
                return _Tok(f'{v.path}.{e.attr}')
        return super().eval(e, fi, sc)

    def _is_base_receiver(self, f: ast.Attribute):
        """`super().m(...)` -> 'super'; `object.m(self, ...)` -> 'object'"""
        if isinstance(f.value, ast.Call) and call_name(f.value) == 'super':
            return 'super'
        if isinstance(f.value, ast.Name) and f.value.id == 'object':
            return 'object'
        return None

    def eval_call(self, e, fi, sc):
        ev = lambda x: self.eval(x, fi, sc)  # noqa: E731
        f = e.func
        plain = not e.keywords and not any(isinstance(a, ast.Starred) for a in e.args)
        if isinstance(f, ast.Name) and plain:
            if f.id in ('getattr', 'hasattr') and len(e.args) in ((2, 3) if f.id == 'getattr' else (2,)):
                obj, nm = ev(e.args[0]), ev(e.args[1])
                try:
                    v = self._get(obj, nm)
                except _Raised as r:
                    if not isinstance(r.exc, AttributeError):
                        raise
                    if f.id == 'hasattr':
                        return False
                    if len(e.args) == 3:
                        return ev(e.args[2])
                    raise
                return True if f.id == 'hasattr' else v
            if f.id == 'setattr' and len(e.args) == 3:
                obj, nm, v = ev(e.args[0]), ev(e.args[1]), ev(e.args[2])
                if obj is self.C:
                    self.effects.append(('context', nm, v))
                    return None
                raise _Undecidable('setattr() on the builder from inside the redirection')
            if f.id == 'vars' and len(e.args) == 1 and ev(e.args[0]) is self.B:
                return self.bdict
            if f.id == 'type' and len(e.args) == 1:
                v = ev(e.args[0])
                if v is self.B:
                    return _ClassRef(self.ci)
            if f.id == 'object' and not e.args:
                return _Tok('a sentinel')
        if isinstance(f, ast.Attribute) and plain and f.attr in ('__getattribute__', '__setattr__', '__getattr__'):
            basecls = self._is_base_receiver(f)
            args = [ev(a) for a in e.args]
            if basecls == 'object':
                if not args or args[0] is not self.B:
                    raise _Undecidable(f'object.{f.attr} on another object')
                args = args[1:]
            elif basecls is None and ev(f.value) is not self.B:
                raise _Undecidable(f'{f.attr} on another object')
            if f.attr == '__getattribute__' and len(args) == 1:
                if not isinstance(args[0], str):
                    raise _Undecidable('attribute name is not a string')
                return self._direct(args[0])          # the explicit call does not fall back to __getattr__
            if f.attr == '__setattr__' and len(args) == 2 and basecls is not None:
                self._store_builder(args[0], args[1])
                return None
            if f.attr == '__getattr__' and basecls is not None and len(args) == 1:
                raise _Raised(AttributeError('__getattr__'))   # no base class defines it
            raise _Undecidable(f'{norm(e)[:50]}')
        return super().eval_call(e, fi, sc)

    def run(self, meth):
        args = [self.B, self.name] + ([self.VAL] if self.root == '__setattr__' else [])
        before = dict(self.bdict)
        try:
            out = ('returns', self.call_fi(meth, args))
        except _Raised as r:
            out = ('raises', type(r.exc).__name__, str(r.exc))
        # a store written straight into the instance dictionary is a store on the builder
        for k, v in self.bdict.items():
            if before.get(k) is not v and not any(t == 'builder' and n == k and x is v for t, n, x in self.effects):
                self.effects.append(('builder', k, v))
        return out


def rule_redirection(ctx, m, base):
    """Reads of a name the builder does not have go to the context when it exists and holds the name, else
    AttributeError; writes go to the context when it exists and holds the name, else to the builder."""
    prog = ctx.prog
    own = _builder_own_attrs(prog)
    ga, sa = base.find_method('__getattr__'), base.find_method('__setattr__')
    if ga is None or sa is None:
        ctx.undecided('C17-R2', (m.relpath, 'Builder'), '__setattr__/__getattr__', 'redirection method missing')
    situations = [(False, False, 'there is no context'), (True, False, 'the context does not hold the name'),
                  (True, True, 'the context holds the name')]
    nm = 'current_attribute'
    for meth, root in ((sa, '__setattr__'), (ga, '__getattr__')):
        bad, n = [], 0
        cases = [(nm, h, k, False, txt) for h, k, txt in situations]
        if root == '__setattr__':
            cases += [(nm, h, k, True, txt + ', the builder has an attribute of that name') for h, k, txt in situations]
            cases += [(CTX_ATTR, False, False, False, f'`self.{CTX_ATTR} = ...` without a context'),
                      (CTX_ATTR, True, False, False, f'`self.{CTX_ATTR} = ...` with a context')]
        try:
            for name, has_ctx, holds, bhas, txt in cases:
                it = _Redirection(prog, base, root, own, name, has_ctx, holds, bhas)
                out = it.run(meth)
                n += 1
                eff = [(t, k) for t, k, v in it.effects if v is it.VAL or t == 'context']
                if root == '__getattr__':
                    if has_ctx and holds:
                        ok = out[0] == 'returns' and out[1] is it.CTXVAL and not it.effects
                        want = 'the context\'s value is returned'
                    else:
                        ok = out[0] == 'raises' and out[1] == 'AttributeError' and not it.effects
                        want = 'AttributeError is raised'
                else:
                    where = 'context' if has_ctx and holds else 'builder'
                    ok = out[0] == 'returns' and eff == [(where, name)] and all(v is it.VAL for t, k, v in it.effects)
                    want = f'the value is stored on the {where} only'
                if not ok:
                    stores = ' and '.join(f'the {t}' for t, k, v in it.effects)
                    got = (f'raises {out[1]}' + (f' ({out[2]})' if out[2] and out[1] == 'RecursionError' else '')) if out[0] == 'raises' else \
                        ('returns ' + ('the context\'s value' if out[1] is it.CTXVAL else repr(out[1]))) if root == '__getattr__' else \
                        ('stores on ' + (stores or 'nothing'))
                    if stores and not got.startswith('stores'):
                        got += f' and stores on {stores}'
                    bad.append(f'when {txt}: {want}, but the method {got}')
        except _Undecidable as u:
            ctx.undecided('C17-R2', meth, 'attribute redirection to the context', f'{root} cannot be evaluated: {u}')
        ctx.ob('C17-R2', meth, 'attribute redirection to the context', not bad,
               (f'evaluated in {n} situations (context absent / lacks the name / holds it): '
                + ('reads of a name the builder lacks are served by the context when it holds the name, else AttributeError'
                   if root == '__getattr__' else 'a store goes to the context exactly when it exists and holds the name, else to '
                   'the builder')) if not bad else
               ('the redirection no longer does what per-flight state relies on - ' + '; '.join(bad[:3])
                + (': state meant for one flight lands on (or is read from) the builder and is seen by the next flight'
                   if root == '__setattr__' else '')), nontrivial=bool(bad))


ABS_FUNCS = {'abs', 'np.abs', 'numpy.abs', 'np.absolute', 'numpy.absolute', 'np.fabs', 'numpy.fabs', 'math.fabs'}
TOL_OPTION = 'mass_iter_reltol'
_FLIP = {ast.Lt: ast.Gt, ast.LtE: ast.GtE, ast.Gt: ast.Lt, ast.GtE: ast.LtE}
_NEG = {ast.Lt: ast.GtE, ast.LtE: ast.Gt, ast.Gt: ast.LtE, ast.GtE: ast.Lt}


class _Gate:
    """Recognise what a test says about the convergence of the mass iteration.  About the residual of the current
    iteration: |residual| < tolerance ('gate'), only residual < tolerance ('upper'), only residual > -tolerance
    ('lower'), the negation of a >= test, which a NaN residual also passes ('gate-nan'), or an unclassified statement
    about the residual ('other').  About another quantity computed from the current iteration's result (the fuel state
    of its trajectory, a recomputed leftover): a one-sided comparison with the tolerance of a quantity of which no
    magnitude is taken ('upper-derived' / 'lower-derived'); every other comparison of such a quantity with the
    tolerance is 'other'."""

    def __init__(self, fn, is_residual, holders, result_holders=()):
        """is_residual(expr): the expression is the residual of the current iteration; holders: the local names
        through which it is reached (the residual variable itself, or the variable holding the whole result);
        result_holders: the further locals holding a part of the iteration's result (the trajectory)"""
        self.fn, self.is_residual, self.holders = fn, is_residual, set(holders)
        self.result_holders = set(holders) | set(result_holders)
        self.loose = []   # tolerance expressions wider than the requested one
        self.signed = {}  # line -> text of a signed quantity compared one-sidedly with the tolerance

    def _resolve(self, e, fresh):
        seen = 0
        while isinstance(e, ast.Name) and e.id in fresh and seen < 5:
            d = single_def_value(self.fn, e.id)
            if d is None:
                break
            e, seen = d, seen + 1
        return e

    def _scale(self, e):
        """k if e is k * <requested tolerance> for a positive numeric constant k, else None"""
        seen = 0
        while isinstance(e, ast.Name) and seen < 5:
            d = single_def_value(self.fn, e.id)
            if d is None:
                return None
            e, seen = d, seen + 1
        if isinstance(e, ast.Attribute) and e.attr == TOL_OPTION:
            return 1.0
        if isinstance(e, ast.BinOp) and isinstance(e.op, (ast.Mult, ast.Div)):
            for a, b, both in ((e.left, e.right, True), (e.right, e.left, isinstance(e.op, ast.Mult))):
                c = b.value if isinstance(b, ast.Constant) and isinstance(b.value, (int, float)) \
                    and not isinstance(b.value, bool) else None
                k = self._scale(a) if both and c is not None and c > 0 else None
                if k is not None:
                    return k * c if isinstance(e.op, ast.Mult) else k / c
        return None

    def _tol(self, e):
        k = self._scale(e)
        if k is not None and k > 1:
            self.loose.append(e)
        return k is not None and k <= 1

    def _neg_tol(self, e):
        return isinstance(e, ast.UnaryOp) and isinstance(e.op, ast.USub) and self._tol(e.operand)

    def _is_res(self, e, fresh):
        return self.is_residual(self._resolve(e, fresh))

    def _is_neg_of(self, a, b, fresh):
        """a is `-b`, b the residual"""
        a = self._resolve(a, fresh)
        return isinstance(a, ast.UnaryOp) and isinstance(a.op, ast.USub) and self._is_res(a.operand, fresh) \
            and self._is_res(b, fresh)

    def _is_mag(self, e, fresh):
        """abs(residual), abs(-residual), max(residual, -residual)"""
        e = self._resolve(e, fresh)
        if not (isinstance(e, ast.Call) and not e.keywords):
            return False
        if call_name(e) in ABS_FUNCS and len(e.args) == 1:
            a = self._resolve(e.args[0], fresh)
            if isinstance(a, ast.UnaryOp) and isinstance(a.op, ast.USub):
                a = a.operand
            return self._is_res(a, fresh)
        if call_name(e) == 'max' and len(e.args) == 2:
            a, b = e.args
            return self._is_neg_of(a, b, fresh) or self._is_neg_of(b, a, fresh)
        return False

    def _res_derived(self, name, depth=0):
        d = single_def_value(self.fn, name)
        return d is not None and depth < 5 and any(
            isinstance(x, ast.Name) and (x.id in self.holders or (x.id != name and self._res_derived(x.id, depth + 1)))
            for x in ast.walk(d))

    def mentions(self, e, fresh):
        """e speaks of the residual of the current iteration (or of a local computed from it)"""
        return any(isinstance(x, ast.Name) and (x.id in self.holders or (x.id in fresh and self._res_derived(x.id)))
                   for x in ast.walk(e))

    def derived(self, e, fresh):
        """e is computed from the current iteration's result (residual or trajectory)"""
        return any(isinstance(x, ast.Name) and (x.id in self.result_holders or x.id in fresh) for x in ast.walk(e))

    def _sign(self, e, fresh, depth=0):
        """'nonneg': e cannot be negative whatever the data (a magnitude, an even power, a count, sums / products /
        quotients of such); 'signed': e is sign-preserving arithmetic over the iteration's data and the builder's
        state with no magnitude taken of it, so it is negative whenever the data make it so; None: not decided
        (unknown function)."""
        if depth > 8:
            return None
        e = self._resolve(e, fresh)
        sg = lambda x: self._sign(x, fresh, depth + 1)  # noqa: E731
        if isinstance(e, ast.Constant):
            if isinstance(e.value, (int, float)) and not isinstance(e.value, bool):
                return 'nonneg' if e.value >= 0 else 'signed'
            return None
        if self.is_residual(e):
            return 'signed'
        if isinstance(e, ast.Call):
            nm = call_name(e)
            if nm in ABS_FUNCS or nm.split('.')[-1] in ('sqrt', 'hypot', 'norm') or nm == 'len':
                return 'nonneg'
            if nm.split('.')[-1] in ('max', 'min', 'maximum', 'minimum', 'fmax', 'fmin') and e.args and not e.keywords \
                    and not any(isinstance(a, ast.Starred) for a in e.args) and len(e.args) >= 2:
                ss = [sg(a) for a in e.args]
                if nm.split('.')[-1] in ('max', 'maximum', 'fmax') and 'nonneg' in ss:
                    return 'nonneg'
                if None in ss:
                    return None
                return 'nonneg' if all(x == 'nonneg' for x in ss) else 'signed'
            if nm in ('float', 'np.float64', 'numpy.float64') and len(e.args) == 1 and not e.keywords:
                return sg(e.args[0])
            return None
        if isinstance(e, ast.UnaryOp):
            if isinstance(e.op, ast.UAdd):
                return sg(e.operand)
            if isinstance(e.op, ast.USub):
                return None if sg(e.operand) is None else 'signed'
            return None
        if isinstance(e, ast.BinOp):
            if isinstance(e.op, ast.Pow):
                k = e.right.value if isinstance(e.right, ast.Constant) else None
                if isinstance(k, int) and not isinstance(k, bool) and k >= 0:
                    return 'nonneg' if k % 2 == 0 else sg(e.left)
                return None
            if isinstance(e.op, (ast.Add, ast.Sub, ast.Mult, ast.Div)):
                a, b = sg(e.left), sg(e.right)
                if a is None or b is None:
                    return None
                if a == b == 'nonneg' and not isinstance(e.op, ast.Sub):
                    return 'nonneg'
                return 'signed'
            return None
        # a datum: a field / element of the iteration's result or of the builder's state
        root = e
        while isinstance(root, (ast.Attribute, ast.Subscript)):
            root = root.value
        if isinstance(root, ast.Name) and isinstance(e, (ast.Attribute, ast.Subscript)) \
                and (root.id == 'self' or root.id in self.result_holders):
            return 'signed'
        return None

    def atom(self, e, pol, fresh):
        if not self.derived(e, fresh):
            return None
        k, against_tol = self._classify(e, pol, fresh)
        if k == 'other' and not against_tol and not self.mentions(e, fresh):
            return None   # a test of the trajectory that is not about convergence
        return k   # ('other-bound': an unclassified ordering comparison of a quantity of this iteration - it may bound it)

    def _classify(self, e, pol, fresh):
        """(kind, the test compares something with the tolerance)"""
        if isinstance(e, ast.Compare) and len(e.ops) == 2 and pol:
            a, b, c = e.left, e.comparators[0], e.comparators[1]
            o1, o2 = type(e.ops[0]), type(e.ops[1])
            if o1 in (ast.Lt, ast.LtE) and o2 in (ast.Lt, ast.LtE) and self._neg_tol(a) and self._is_res(b, fresh) \
                    and self._tol(c):
                return 'gate', True
            if o1 in (ast.Gt, ast.GtE) and o2 in (ast.Gt, ast.GtE) and self._tol(a) and self._is_res(b, fresh) \
                    and self._neg_tol(c):
                return 'gate', True
            return 'other-bound', any(self._tol(x) or self._neg_tol(x) for x in (a, b, c))
        if isinstance(e, ast.Compare) and len(e.ops) == 1 and type(e.ops[0]) in _FLIP:
            l, op, r = e.left, type(e.ops[0]), e.comparators[0]
            if self._tol(l) or self._neg_tol(l):
                l, r, op = r, l, _FLIP[op]
            bound = 1 if self._tol(r) else -1 if self._neg_tol(r) else 0
            if not bound:
                return 'other-bound', False
            neg = not pol
            if neg:
                op = _NEG[op]
            # `-x < b` says `x > -b`
            l = self._resolve(l, fresh)
            while isinstance(l, ast.UnaryOp) and isinstance(l.op, ast.USub):
                l, op, bound = self._resolve(l.operand, fresh), _FLIP[op], -bound
            if self._is_mag(l, fresh):
                if bound < 0:
                    return 'other-bound', True
                if op not in (ast.Lt, ast.LtE):
                    return None, True
                kind = 'gate'
            else:
                if self._is_res(l, fresh):
                    suffix = ''
                elif self._sign(l, fresh) == 'signed':
                    suffix = '-derived'
                else:
                    return 'other-bound', True
                if bound > 0 and op in (ast.Lt, ast.LtE):
                    kind = 'upper' + suffix
                elif bound < 0 and op in (ast.Gt, ast.GtE):
                    kind = 'lower' + suffix
                else:
                    return None, True  # this edge says the quantity is *outside* the bound
                if suffix:
                    self.signed.setdefault(getattr(e, 'lineno', 0), norm(l))
            # a negated comparison is also true for a NaN residual
            return (kind + '-nan' if neg else kind), True
        return 'other', False

    def facts(self, test, pol, fresh):
        """kinds established on the edge on which `test` has truth value `pol`"""
        kinds = [self.atom(a, p, fresh) for a, p in conjuncts(test, pol)]
        kinds = {k for k in kinds if k}
        if {'upper', 'lower'} <= kinds:
            kinds.add('gate')
        if {'upper-nan', 'lower-nan'} <= kinds or {'upper', 'lower-nan'} <= kinds or {'upper-nan', 'lower'} <= kinds:
            kinds.add('gate-nan')
        return kinds


def _close(props, ok):
    s = set(props)
    if 'F' in s:
        s.add('imp')
    if 'T' in s:
        s.add('nimp')
    if ok:
        s |= {'imp', 'nimp'}
    return frozenset(s)


# ----------------------------------------------------------------------------------------------------
# R3 / R2: the state of the iteration kept in a helper object (`it = self.mass_iteration; it.start(..);
# while it.proceed(res): ..; if not it.converged: raise ..`)
# ----------------------------------------------------------------------------------------------------

def _held_objects(prog):
    """attribute -> (class K, 'builder' | 'context', constructor, store statement): the objects of repository classes
    that the builder / context constructors create and keep (`self.A = K(..)`)"""
    out, plain = {}, set()
    for kind, root in (('builder', 'Builder'), ('context', 'Context')):
        for c in prog.subclasses_of(root):
            for nm in ('__init__', '__post_init__'):
                ini = c.methods.get(nm)
                if ini is None:
                    continue
                for t, st, how in stores_to(ini.node):
                    if not (isinstance(t, ast.Attribute) and norm(t.value) == 'self'):
                        continue
                    k = None
                    if isinstance(st, (ast.Assign, ast.AnnAssign)) and isinstance(st.value, ast.Call) \
                            and (t is getattr(st, 'target', None) or t in getattr(st, 'targets', [])):
                        try:
                            k = prog.resolve_class_expr(c.module, st.value.func)
                        except Exception:
                            k = None
                    if k is None or (t.attr in out and out[t.attr][0] is not k):
                        plain.add(t.attr)
                    else:
                        out[t.attr] = (k, kind, ini, st)
    return {a: v for a, v in out.items() if a not in plain}


def _class_fields(k) -> set:
    out = set()
    for c in k.mro():
        out |= set(c.annotated_fields())
        for meth in c.methods.values():
            for t, st, how in stores_to(meth.node):
                if isinstance(t, ast.Attribute) and norm(t.value) == (meth.params[0] if meth.params else 'self'):
                    out.add(t.attr)
    return out


def _method_effects(k, name, seen=()):
    """(fields read, fields written) by method `name` of class k, through the methods it calls on itself; None when
    the method does something else with its object (hands it on, stores it)"""
    meth = k.find_method(name)
    if meth is None or name in seen or not meth.params:
        return None
    me = meth.params[0]
    reads, writes = set(), set()
    for x in walk_no_nested(meth.node):
        if isinstance(x, ast.Name) and x.id == me:
            p = getattr(x, '_parent', None)
            if not (isinstance(p, ast.Attribute) and p.value is x):
                return None
            pp = getattr(p, '_parent', None)
            if isinstance(pp, ast.Call) and pp.func is p:
                sub = _method_effects(k, p.attr, seen + (name,))
                if sub is None:
                    return None
                reads |= sub[0]
                writes |= sub[1]
            elif isinstance(p.ctx, ast.Load):
                reads.add(p.attr)
            else:
                writes.add(p.attr)
                if isinstance(pp, ast.AugAssign):
                    reads.add(p.attr)
    return reads, writes


class _Receiver(ast.NodeTransformer):
    """`self.A` -> the local name the object is known by"""

    def __init__(self, me, attr, name):
        self.me, self.attr, self.name = me, attr, name

    def visit_Attribute(self, n):
        self.generic_visit(n)
        if n.attr == self.attr and isinstance(n.value, ast.Name) and n.value.id == self.me:
            return ast.copy_location(ast.Name(id=self.name, ctx=n.ctx), n)
        return n


class _FieldLocals(ast.NodeTransformer):
    """`obj.field` -> the local `obj__field`"""

    def __init__(self, fields_of):
        self.fields_of = fields_of

    def visit_Attribute(self, n):
        self.generic_visit(n)
        if isinstance(n.value, ast.Name) and n.attr in self.fields_of.get(n.value.id, ()):
            new = ast.copy_location(ast.Name(id=f'{n.value.id}__{n.attr}', ctx=n.ctx), n)
            if hasattr(n, '_src'):
                new._src = n._src
            return new
        return n


def _first_evaluated(test, c) -> bool:
    """c is the first thing the test evaluates, unconditionally"""
    e = test
    while e is not c:
        if isinstance(e, ast.UnaryOp):
            e = e.operand
        elif isinstance(e, ast.BoolOp):
            e = e.values[0]
        elif isinstance(e, ast.Compare):
            e = e.left
        else:
            return False
    return True


def _replace_node(root, old, new):
    for p in ast.walk(root):
        for f, v in ast.iter_fields(p):
            if v is old:
                setattr(p, f, new)
                return True
            if isinstance(v, list):
                for i, y in enumerate(v):
                    if y is old:
                        v[i] = new
                        return True
    return False


def _fallthrough_leaves(block, out) -> bool:
    """collect the statement lists at whose end control leaves `block` by falling through; False when one of them is
    an implicit (absent) else branch"""
    if not block:
        return False
    last = block[-1]
    if isinstance(last, (ast.Return, ast.Raise, ast.Break, ast.Continue)):
        return True
    if isinstance(last, ast.If):
        return _fallthrough_leaves(last.body, out) and _fallthrough_leaves(last.orelse, out)
    if isinstance(last, (ast.For, ast.While, ast.Try, ast.With, ast.Match)):
        return False
    out.append(block)
    return True


def _thread_constant_tests(fn, clone):
    """`if c1: ..; t = False  else: ..; t = True` followed by `if [not] t: S` - the test of a flag that every branch
    before it has just set to a constant - is S (or its else branch) at the end of the branches that chose it: the
    same executions, with the correlation between the flag and the branch that set it spelled out as control flow"""
    from ..temps import blocks
    for _ in range(40):
        changed = False
        for owner, field, body in blocks(fn):
            for i in range(len(body) - 1):
                a, b = body[i], body[i + 1]
                if not (isinstance(a, ast.If) and isinstance(b, ast.If)):
                    continue
                t, neg = b.test, False
                if isinstance(t, ast.UnaryOp) and isinstance(t.op, ast.Not):
                    t, neg = t.operand, True
                if not isinstance(t, ast.Name):
                    continue
                leaves = []
                if not _fallthrough_leaves([a], leaves) or not leaves:
                    continue
                if not all(isinstance(blk[-1], ast.Assign) and len(blk[-1].targets) == 1
                           and isinstance(blk[-1].targets[0], ast.Name) and blk[-1].targets[0].id == t.id
                           and isinstance(blk[-1].value, ast.Constant) and isinstance(blk[-1].value.value, bool)
                           for blk in leaves):
                    continue
                for blk in leaves:
                    val = bool(blk[-1].value.value) ^ neg
                    blk.extend(clone(s_) for s_ in (b.body if val else b.orelse))
                del body[i + 1]
                changed = True
                break
            if changed:
                break
        if not changed:
            break


def open_state_objects(prog, fi):
    """The function `fi` with the helper objects that hold its loop state opened: for an object of a repository class
    K that a builder / context constructor creates and keeps (`self.A = K(..)`), reached in `fi` as `self.A` or through
    one local alias, every method call `obj.m(..)` that is a statement, the value of an assignment / return, or the
    first thing an `if` / `while` test evaluates is replaced by the method's body (the engine's helper inliner: early
    returns become if / else; `while obj.m(..):` is `while True: t = obj.m(..); if not t: break`), and every field
    `obj.x` becomes the local `obj__x`: the flag, counter and residual the object carries are locals of the loop again
    and the dataflow rules read them as such.  Calls of methods that write no field stay where they are.  Returns None
    when the function uses no such object, or when an object is used in a way this does not account for (handed on,
    rebound, a method that cannot be inlined) - the caller then judges the function as written.
    Result: dict(fn, objs=[dict(name, attr, cls, kind, ctor, store, fields)], pure={id(call): (obj, method)})."""
    from ..prenorm import _eligible_helper, _inline_call
    from ..temps import blocks
    from .c13 import _clone
    fn0 = fi.node
    if not fn0.args.args:
        return None
    me = fn0.args.args[0].arg
    held = _held_objects(prog)
    attrs = sorted({x.attr for x in walk_no_nested(fn0) if isinstance(x, ast.Attribute) and isinstance(x.value, ast.Name)
                    and x.value.id == me and x.attr in held})
    if not attrs:
        return None
    fn = set_parents(_clone(fn0))
    objs = {}
    for a in attrs:
        k, kind, ctor, store = held[a]
        if any(d for c in k.mro() for mt in c.methods.values() for d in mt.decorators() if d != 'staticmethod') \
                or any(c.find_method(x) for c in [k] for x in ('__getattr__', '__setattr__', '__getattribute__')):
            return None
        occ = [x for x in walk_no_nested(fn) if isinstance(x, ast.Attribute) and x.attr == a
               and isinstance(x.value, ast.Name) and x.value.id == me]
        if any(not isinstance(x.ctx, ast.Load) for x in occ):
            return None
        alias = [x for x in occ if isinstance(x._parent, ast.Assign) and x._parent.value is x
                 and len(x._parent.targets) == 1 and isinstance(x._parent.targets[0], ast.Name)]
        if alias:
            st = alias[0]._parent
            name = st.targets[0].id
            if len(occ) != 1 or len(local_defs(fn, name)) != 1 or not any(st is s for s in fn.body):
                return None
            fn.body.remove(st)
        else:
            name = a
            if any(isinstance(x, ast.Name) and x.id == name for x in ast.walk(fn)) or name in _params(fn):
                return None
            _Receiver(me, a, name).visit(fn)
        objs[name] = dict(name=name, attr=a, cls=k, kind=kind, ctor=ctor, store=store, fields=_class_fields(k))
    set_parents(fn)

    def obj_call(x):
        if isinstance(x, ast.Call) and isinstance(x.func, ast.Attribute) and isinstance(x.func.value, ast.Name) \
                and x.func.value.id in objs:
            o = objs[x.func.value.id]
            return o, o['cls'].find_method(x.func.attr)
        return None

    def impure(o, meth):
        eff = _method_effects(o['cls'], meth.name)
        return eff is None or bool(eff[1])

    counter = [0]
    for _ in range(60):
        set_parents(fn)
        changed = False
        for owner, field, body in blocks(fn):
            for i, st in enumerate(body):
                head = st.test if isinstance(st, (ast.If, ast.While)) else st.iter if isinstance(st, ast.For) else \
                    st if isinstance(st, (ast.Assign, ast.AugAssign, ast.AnnAssign, ast.Return, ast.Expr, ast.Raise,
                                          ast.Assert, ast.Delete)) else None
                if head is None:
                    if isinstance(st, (ast.With, ast.Match)) and any(obj_call(x) for it_ in getattr(st, 'items', [])
                                                                     for x in ast.walk(it_)):
                        return None
                    continue
                calls = [(x, *obj_call(x)) for x in [head, *walk_no_nested(head)] if obj_call(x)]
                if not calls:
                    continue
                for c, o, meth in calls:
                    if meth is None:
                        return None
                in_test = isinstance(st, (ast.If, ast.While))
                c, o, meth = calls[0]
                if isinstance(st, ast.While):
                    if st.orelse:
                        return None
                    brk = ast.copy_location(ast.If(test=ast.copy_location(ast.UnaryOp(op=ast.Not(), operand=st.test), st),
                                                   body=[ast.copy_location(ast.Break(), st)], orelse=[]), st)
                    st.test = ast.copy_location(ast.Constant(value=True), st)
                    st.body.insert(0, brk)
                    changed = True
                    break
                if isinstance(st, ast.If):
                    first = [t for t in calls if _first_evaluated(st.test, t[0])]
                    if not first:
                        if any(impure(o2, m2) for _, o2, m2 in calls):
                            return None
                        continue
                    c, o, meth = first[0]
                    counter[0] += 1
                    tmp = f'{o["name"]}_{meth.name.strip("_")}_{counter[0]}'
                    asg = ast.copy_location(ast.Assign(targets=[ast.Name(id=tmp, ctx=ast.Store())], value=c), st)
                    asg.lineno = asg.end_lineno = st.lineno - 0.25
                    _replace_node(st, c, ast.copy_location(ast.Name(id=tmp, ctx=ast.Load()), c))
                    body.insert(i, asg)
                    changed = True
                    break
                whole = isinstance(st, (ast.Assign, ast.AnnAssign, ast.Return, ast.Expr)) and st.value is c
                if not whole:
                    if any(impure(o2, m2) for _, o2, m2 in calls):
                        return None
                    continue   # calls that write nothing stay where they are
                where = 'return' if isinstance(st, ast.Return) else 'expr' if isinstance(st, ast.Expr) else 'assign'
                helper = _clone(meth.node)
                for x in ast.walk(helper):
                    if hasattr(x, 'lineno'):
                        x._src = (meth.file, meth.qualname, x.lineno)
                if not _eligible_helper(helper) or not _inline_call(fn, body, i, st, c, helper, 'self', where):
                    return None
                changed = True
                break
            if changed:
                break
        if not changed:
            break
    else:
        return None
    _thread_constant_tests(fn, _clone)
    temps_ = {f'{n}_{mt.strip("_")}' for n, o in objs.items() for c_ in o['cls'].mro() for mt in c_.methods}
    if any(isinstance(x, ast.Name) and isinstance(x.ctx, ast.Load) and x.id.rsplit('_', 1)[0] in temps_
           and x.id.rsplit('_', 1)[-1].isdigit() for x in walk_no_nested(fn)):
        # the result of an opened call is still tested as a variable: the link between its value and the branch
        # that produced it is not spelled out as control flow, and the flag dataflow would lose it
        return None
    # calls left: methods that write no field
    pure = {}
    for x in walk_no_nested(fn):
        r = obj_call(x)
        if r:
            o, meth = r
            if meth is None or impure(o, meth):
                return None
            pure[id(x)] = (o, meth)
    _FieldLocals({n: o['fields'] for n, o in objs.items()}).visit(fn)
    set_parents(fn)
    for x in walk_no_nested(fn):
        if isinstance(x, ast.Name) and x.id in objs:
            p = getattr(x, '_parent', None)
            pp = getattr(p, '_parent', None)
            if not (isinstance(p, ast.Attribute) and isinstance(pp, ast.Call) and pp.func is p and id(pp) in pure):
                return None   # the object is handed on, compared, rebound ..
    return dict(fn=fn, objs=list(objs.values()), pure=pure)


def _src_line(n, default=0):
    s = getattr(n, '_src', None)
    return s if s else None


def stale_state_reads(prog, fi, opened):
    """For the builder-persistent objects opened in `fi`: the reads of a field that is written while flying and is
    not assigned on every path from the entry of `fi` to the read.  [(obj, field, text, line, assigned before)]"""
    fn = opened['fn']
    g = CFG(fn)
    names = {f'{o["name"]}__{x}': (o, x) for o in opened['objs'] for x in o['fields']}
    binds = {n.id: _node_binds(n) for n in g.nodes}

    def tbind(node, st):
        b, d = binds[node.id]
        return (st | b) - d if (b or d) else st

    must, _ = g.forward(frozenset(), tbind, lambda a, b: a & b, edge_ok=lambda a, b, lab: lab != 'e')
    out = []
    for n in g.nodes:
        if n.id not in must:
            continue
        have = must[n.id]
        for e in _node_exprs(n):
            for x in walk_no_nested(e, include_lambda=False):
                hits = []
                if isinstance(x, ast.Name) and x.id in names and (isinstance(x.ctx, ast.Load) or isinstance(
                        getattr(x, '_parent', None), ast.AugAssign) and x._parent.target is x):
                    hits.append((names[x.id], None))
                elif isinstance(x, ast.Call) and id(x) in opened['pure']:
                    o, meth = opened['pure'][id(x)]
                    eff = _method_effects(o['cls'], meth.name)
                    hits += [((o, f), meth) for f in sorted(eff[0])]
                for (o, f), via in hits:
                    if f'{o["name"]}__{f}' in have or o['kind'] != 'builder':
                        continue
                    src = getattr(x, '_src', None)
                    where = f'{src[1]} line {src[2]}' if src else f'{fi.qualname} line {int(-(-n.line // 1))}'
                    if via is not None:
                        where += f', through {via.qualname}'
                    done = sorted(nm.split('__', 1)[1] for nm in have if nm.startswith(o['name'] + '__'))
                    out.append((o, f, n.text()[:60].replace(o['name'] + '__', o['name'] + '.'), where, done))
    return out


def rule_iteration_state(ctx, prog, fi, opened):
    """R2 for the helper objects that hold the iteration's state: see the module docstring"""
    stale = stale_state_reads(prog, fi, opened)
    bad = {}
    for o, f, text, where, done in stale:
        bad.setdefault((o['name'], f), (o, f, text, where, done))
    for o in opened['objs']:
        if o['kind'] != 'builder':
            continue
        k = o['cls']
        written = {}
        for c in k.mro():
            for meth in c.methods.values():
                if meth.name in ('__init__', '__post_init__', '__new__'):
                    continue
                for t, st, how in stores_to(meth.node):
                    if isinstance(t, ast.Attribute) and norm(t.value) == (meth.params[0] if meth.params else 'self'):
                        written.setdefault(t.attr, (meth, st))
        for x in walk_no_nested(opened['fn']):
            if isinstance(x, ast.Name) and isinstance(x.ctx, ast.Store) and x.id.startswith(o['name'] + '__'):
                written.setdefault(x.id.split('__', 1)[1], (fi, x))
        # does anything else of the flight touch the object before the iteration starts?
        elsewhere = [f2 for c in prog.subclasses_of('Builder') for f2 in c.methods.values()
                     if f2.node is not fi.node and f2.name not in ('__init__', '__post_init__')
                     and any(isinstance(y, ast.Attribute) and y.attr == o['attr'] for y in ast.walk(f2.node))]
        for f in sorted(o['fields']):
            hit = bad.get((o['name'], f))
            if hit is None or f not in written:
                if f in written:
                    ctx.ob('C17-R2', fi, f'field `{f}` of builder.{o["attr"]} ({k.name}) is set for this flight before '
                           'it is read', True, 'assigned on every path from the start of the iteration to each read')
                continue
            if elsewhere:
                ctx.undecided('C17-R2', fi, f'builder.{o["attr"]}.{f}', f'the field is read at {hit[3]} without having been '
                              f'assigned in {fi.name}, and {elsewhere[0].qualname} also uses the object')
            wm, wst = written[f]
            ctx.ob('C17-R2', fi, f'field `{f}` of builder.{o["attr"]} ({k.name}) is set for this flight before it is read',
                   False,
                   f'builder.{o["attr"]} is created once per builder ({o["ctor"].qualname}, line {o["store"].lineno}) and '
                   f'outlives the flight; its field `{f}` is read at `{hit[2]}` ({hit[3]}) but is not assigned on every '
                   f'path from the start of this flight\'s iteration to that read (assigned by then: '
                   f'{", ".join(hit[4]) or "nothing"} - not `{f}`), while {wm.qualname} writes it during a flight (line '
                   f'{getattr(wst, "lineno", 0)}): it is initialised once per builder instead of once per flight, so what '
                   'an earlier flight left in it decides the outcome of this one',
                   line=fi.node.lineno)
    return {f'{n}__{f}': v for (n, f), v in bad.items()}


def rule_convergence(ctx, m):
    """R3 on the CFG of `_iterate_mass`, by must-dataflow.  State: ok = |residual| < tolerance has been established
    for the current (trajectory, residual) pair; same = both come from one `_fly_iteration()` call; per boolean flag
    variable whether it is True, False, or implies ok (`flag => ok`, `not flag => ok`); the locals derived from the
    current residual.  A new iteration resets ok and the implications.  Every return must be reached with ok."""
    prog = ctx.prog
    it = m.func('Builder._iterate_mass')
    fi = m.func('Builder._fly_iteration')
    fn = it.node
    # loop state kept in a helper object (flag, counter, latest residual as fields) is read as the locals it stands for
    opened = open_state_objects(prog, it)
    stale_fields = {}
    if opened is not None:
        fn = opened['fn']
        ctx.stats['_iterate_mass.state_objects'] = [f'{o["name"]}: {o["cls"].name} ({o["kind"]})' for o in opened['objs']]
        stale_fields = rule_iteration_state(ctx, prog, it, opened)
    g = CFG(fn)

    def shown(txt):
        for o in (opened['objs'] if opened else []):
            txt = txt.replace(o['name'] + '__', o['name'] + '.')
        return txt

    def is_iteration(e):
        if not isinstance(e, ast.Call):
            return False
        r = resolve_call(prog, it, e)
        if r is not None:
            return r.name == fi.name
        return isinstance(e.func, ast.Attribute) and e.func.attr == fi.name

    # what an iteration returns: which component is the trajectory, which the residual
    comp = _iteration_components(ctx, prog, fi)
    ti, ri = comp['traj_index'], comp['res_index']

    # the (trajectory, residual) of the current iteration in _iterate_mass: two unpacked locals, or one local holding
    # the whole result and read through the component accessors
    calls = [c for c in calls_in(fn) if is_iteration(c)]
    ctx.floor('C17-R3', len(calls), 1, 'calls of _fly_iteration in _iterate_mass')
    pair_of = {}   # id(stmt) -> (traj name | None, residual name | None)  /  ('whole', name)
    for c in calls:
        st = stmt_of(c)
        if not (isinstance(st, ast.Assign) and st.value is c and len(st.targets) == 1):
            ctx.undecided('C17-R3', it, norm(st)[:70], 'the result of _fly_iteration() is not bound at the call')
        t = st.targets[0]
        if isinstance(t, ast.Name):
            pair_of[id(st)] = ('whole', t.id)
        elif isinstance(t, (ast.Tuple, ast.List)) and len(t.elts) == comp['n'] and all(isinstance(e, ast.Name) for e in t.elts):
            a, b = t.elts[ti].id, t.elts[ri].id
            pair_of[id(st)] = (None if a == '_' else a, None if b == '_' else b)
        else:
            ctx.undecided('C17-R3', it, norm(st)[:70], 'the result of _fly_iteration() is neither unpacked into its '
                          'components nor bound to one local')
    wholes = {v[1] for v in pair_of.values() if v[0] == 'whole'}
    tnames = {a for a, b in pair_of.values() if a and a != 'whole'}
    rnames = {b for a, b in pair_of.values() if a != 'whole' and b}
    if wholes:
        if len(wholes) != 1 or tnames or rnames:
            ctx.undecided('C17-R3', it, f'results {sorted(wholes)} trajectory {sorted(tnames)} residual {sorted(rnames)}',
                          'the iteration result is held in more than one form')
        whole = next(iter(wholes))
        tvar = rvar = None
        holders = {whole}
        tdesc, rdesc = f'{whole}.<trajectory>', f'{whole}.<residual>'
    else:
        if len(tnames) != 1 or len(rnames) != 1 or tnames & rnames:
            ctx.undecided('C17-R3', it, f'trajectory {sorted(tnames)} residual {sorted(rnames)}',
                          'more than one variable holds the trajectory or the residual')
        tvar, rvar = next(iter(tnames)), next(iter(rnames))
        whole = None
        holders = {tvar, rvar}
        tdesc, rdesc = tvar, rvar

    def component(e, names, index, var):
        if isinstance(e, ast.Name):
            return var is not None and e.id == var
        if whole is None:
            return False
        if isinstance(e, ast.Attribute) and isinstance(e.value, ast.Name) and e.value.id == whole:
            return e.attr in names
        if isinstance(e, ast.Subscript) and isinstance(e.value, ast.Name) and e.value.id == whole:
            k = e.slice.value if isinstance(e.slice, ast.Constant) else None
            return isinstance(k, int) and comp['tuple_like'] and k in (index, index - comp['n'])
        return False

    def is_res(e):
        return component(e, comp['res_names'], ri, rvar)

    def is_traj(e):
        return component(e, comp['traj_names'], ti, tvar)

    # flag variables: locals only ever bound to booleans
    def boolish(v):
        return isinstance(v, ast.Constant) and isinstance(v.value, bool) or isinstance(v, (ast.Compare, ast.BoolOp)) \
            or isinstance(v, ast.UnaryOp) and isinstance(v.op, ast.Not)

    flags = set()
    for x in walk_no_nested(fn):
        if isinstance(x, ast.Name) and isinstance(x.ctx, ast.Store) and x.id not in holders:
            ds = local_defs(fn, x.id)
            if ds and all(isinstance(d, ast.Assign) and len(d.targets) == 1 and isinstance(d.targets[0], ast.Name)
                          and boolish(d.value) for d in ds):
                flags.add(x.id)
    gate = _Gate(fn, is_res, holders - ({tvar} if tvar else set()), holders)
    seen_kinds = {}   # kind -> [line]
    foreign = []      # stores to the pair that are not a joint assignment from one iteration

    # state: (ok, same, flags: frozenset((name, prop)), fresh: frozenset(name))
    def props(st, f):
        return {p for n, p in st[2] if n == f}

    def with_flags(st, ok, upd=None, keep_impl=True):
        out = set()
        for f in flags:
            p = upd[f] if upd and f in upd else props(st, f)
            if not keep_impl:
                p = p & {'T', 'F'} if not (upd and f in upd) else p
            out |= {(f, q) for q in _close(p, ok)}
        return frozenset(out)

    def transfer(node, st):
        ok, same, fl, fresh = st
        s = node.stmt
        if node.kind == 'iter':
            if set(assigned_names(s.target)) & holders:
                foreign.append(s)
                return (False, False, with_flags(st, False, keep_impl=False), frozenset())
            return st
        if node.kind != 'stmt':
            return st
        if id(s) in pair_of:
            a, b = pair_of[id(s)]
            joint = a == 'whole' or (a is not None and b is not None)
            if not joint:
                foreign.append(s)
            return (False, joint, with_flags(st, False, keep_impl=False), frozenset())
        bound = set()
        if isinstance(s, ast.Assign):
            for t in s.targets:
                bound |= set(assigned_names(t))
        elif isinstance(s, (ast.AnnAssign, ast.AugAssign)):
            bound |= set(assigned_names(s.target))
        elif isinstance(s, ast.Delete):
            bound |= {t.id for t in s.targets if isinstance(t, ast.Name)}
        for x in walk_no_nested(s):
            if isinstance(x, ast.NamedExpr):
                bound.add(x.target.id)
        if bound & holders:
            foreign.append(s)
            return (False, False, with_flags(st, False, keep_impl=False), frozenset())
        if isinstance(s, ast.Assign) and len(s.targets) == 1 and isinstance(s.targets[0], ast.Name):
            x, v = s.targets[0].id, s.value
            if x in flags:
                if isinstance(v, ast.Constant):
                    p = {'T'} if v.value else {'F'}
                else:
                    kt, kf = gate.facts(v, True, fresh), gate.facts(v, False, fresh)
                    for k in kt | kf:
                        seen_kinds.setdefault(k, []).append(int(-(-s.lineno // 1)))
                    p = set()
                    if same and 'gate' in kt:
                        p.add('imp')
                    if same and 'gate' in kf:
                        p.add('nimp')
                return (ok, same, with_flags(st, ok, {x: p}), fresh)
            if gate.derived(v, fresh) and len(local_defs(fn, x)) == 1:
                return (ok, same, fl, fresh | {x})
        if bound & fresh:
            return (ok, same, fl, fresh - bound)
        return st

    def branch(node, lab, st):
        if node.kind != 'test':
            return st
        ok, same, fl, fresh = st
        pol = lab == 't'
        kinds = gate.facts(node.stmt.test, pol, fresh)
        for k in kinds:
            seen_kinds.setdefault(k, []).append(int(-(-node.line // 1)))
        if 'gate' in kinds and same:
            ok = True
        upd = {}
        for a, p in conjuncts(node.stmt.test, pol):
            if isinstance(a, ast.Name) and a.id in flags:
                pr = props(st, a.id)
                if same and ('imp' if p else 'nimp') in pr:
                    ok = True
                upd[a.id] = {'T'} if p else {'F'}
        return (ok, same, with_flags(st, ok, upd), fresh)

    def join(a, b):
        ok = a[0] and b[0]
        fa = {f: _close(props(a, f), a[0]) for f in flags}
        fb = {f: _close(props(b, f), b[0]) for f in flags}
        return (ok, a[1] and b[1], frozenset((f, p) for f in flags for p in (fa[f] & fb[f])), a[3] & b[3])

    init = (False, False, frozenset(), frozenset())
    ins, _ = g.forward(init, transfer, join, branch_transfer=branch, edge_ok=lambda a, b, lab: lab != 'e')

    rets = [n for n in g.nodes if n.kind == 'stmt' and isinstance(n.stmt, ast.Return) and n.id in ins]
    tests = sum(len(v) for k, v in seen_kinds.items())
    ctx.floor('C17-R3/returns', len(rets), 1, 'returns of _iterate_mass')
    ctx.floor('C17-R3/tests', tests, 1, 'tests of the residual in _iterate_mass')
    ctx.stats['_iterate_mass.residual_tests'] = {k: sorted(set(v)) for k, v in seen_kinds.items()}
    ctx.stats['_iterate_mass.flags'] = sorted(flags)
    ups = sorted(k for k in seen_kinds if k.startswith('upper-derived'))
    los = sorted(k for k in seen_kinds if k.startswith('lower-derived'))
    one_sided = [] if (ups and los) else ups + los
    unclassified_bound = 'other-bound' in seen_kinds   # some comparison may supply the bound that seems to be missing
    two_sided_derived = sorted({ln for k in ups + los for ln in seen_kinds[k]}) if (ups and los) else []
    for r in rets:
        ok, same, fl, fresh = ins[r.id]
        v = r.stmt.value
        if v is None or isinstance(v, ast.Constant):
            ctx.ob('C17-R3', it, f'`{norm(r.stmt)}` returns the trajectory', False,
                   'the mass iteration ends without a trajectory and without reporting non-convergence', line=r.line)
            continue
        if not is_traj(v):
            ctx.undecided('C17-R3', it, norm(r.stmt), f'the returned value is not the trajectory `{tdesc}`')
        good = ok and same
        if good:
            why = f'abs({rdesc}) < options.{TOL_OPTION} is established for the iteration that produced `{tdesc}` ' \
                  'on every path to this return'
        elif not same:
            why = (f'`{tdesc}` and `{rdesc}` can come from different iterations here: the residual that was tested is '
                   'not the residual of the trajectory that is returned')
        elif flags & set(stale_fields):
            fl_ = sorted(flags & set(stale_fields))[0]
            o_, f_ = stale_fields[fl_][0], stale_fields[fl_][1]
            why = (f'the flag `{o_["name"]}.{f_}` that lets control reach this return is a field of builder.{o_["attr"]}, '
                   f'which outlives the flight, and it is not reset for this flight (read at {stale_fields[fl_][3]}; see '
                   'C17-R2): left True by an earlier flight that converged, it lets a flight that ran out of passes '
                   'return its unconverged trajectory instead of reporting non-convergence')
        elif 'upper' in seen_kinds and 'lower' not in seen_kinds and not unclassified_bound:
            why = (f'the test at line {seen_kinds["upper"][0]} compares the signed residual: any negative residual '
                   '(fuel deficit) counts as converged')
        elif 'upper' not in seen_kinds and 'lower' in seen_kinds and not unclassified_bound:
            why = (f'the test at line {seen_kinds["lower"][0]} bounds the signed residual from below only: any positive '
                   'residual (fuel surplus), however large, counts as converged')
        elif one_sided and not unclassified_bound:
            up = one_sided[0].startswith('upper')
            ln = seen_kinds[one_sided[0]][0]
            why = (f'the test at line {ln} compares `{gate.signed.get(ln, "a signed quantity")}` with the tolerance from '
                   f'{"above" if up else "below"} only; that quantity is computed from the iteration\'s result by '
                   'sign-preserving arithmetic and no absolute value is taken of it, so any '
                   + ('negative value (more fuel burned than loaded), however large,' if up else
                      'positive value (fuel left over), however large,')
                   + f' counts as converged: abs({rdesc}) < options.{TOL_OPTION} is not established for the returned '
                   'trajectory and no non-convergence is reported')
        elif two_sided_derived:
            ctx.undecided('C17-R3', it, norm(r.stmt), 'a quantity computed from the iteration\'s result, not its '
                          f'residual, is bounded on both sides (lines {two_sided_derived}); whether that quantity equals '
                          'the residual is not decided')
        elif 'gate-nan' in seen_kinds or 'upper-nan' in seen_kinds:
            ln = (seen_kinds.get('gate-nan') or seen_kinds.get('upper-nan'))[0]
            why = (f'convergence is concluded from the *failure* of a >= test (line {ln}): a NaN residual fails it too '
                   'and the trajectory is returned as converged')
        elif gate.loose:
            why = (f'the residual is tested against `{shown(norm(gate.loose[0]))}` (line '
                   f'{int(-(-gate.loose[0].lineno // 1))}), which is '
                   f'wider than the requested options.{TOL_OPTION}')
        elif 'other' in seen_kinds or unclassified_bound:
            ln = (seen_kinds.get('other-bound') or seen_kinds.get('other'))[0]
            ctx.undecided('C17-R3', it, norm(r.stmt), f'the residual is tested at line {ln} in a '
                          'form that is not recognised as |residual| < tolerance')
        else:
            why = 'a trajectory can be returned without the convergence test having succeeded for it'
        ctx.ob('C17-R3', it, f'`{norm(r.stmt)}` only with |residual| < tolerance established', good, why, line=r.line)
    okp = not foreign
    ctx.ob('C17-R3', it, 'trajectory and residual always come from the same iteration', okp,
           f'{len(pair_of)} joint assignments from _fly_iteration()' if okp else
           f'`{norm(foreign[0])[:60]}` rebinds one of ({tdesc}, {rdesc}) without the other: they can come from '
           'different iterations', line=(foreign[0].lineno if foreign else fn.lineno))
    # non-convergence is reported: the function has a way out that is not a return
    raises = [n for n in g.nodes if n.kind == 'stmt' and isinstance(n.stmt, ast.Raise) and n.id in ins]
    ctx.ob('C17-R3', it, 'non-convergence is reported by an exception', bool(raises),
           f'{len(raises)} raise statement(s) on the paths on which no residual passed the test' if raises else
           'no raise is reachable: the iteration budget can run out silently', nontrivial=False)
    rule_residual_definition(ctx, prog, it, fi, comp)


# ----------------------------------------------------------------------------------------------------
# R3, the residual: leftover trip fuel of *this iteration's* trajectory, relative to the trip fuel it was loaded with
# ----------------------------------------------------------------------------------------------------

START_MASS_FIELD, START_FUEL_FIELD = 'aircraft_mass', 'fuel_mass'


class _Subst(ast.NodeTransformer):
    """replace sub-expressions by their normalised text (`self.x`, `traj.y`, a local name) - outermost match first,
    replacements themselves substituted again up to a small depth"""

    def __init__(self, table: dict, depth: int = 0):
        self.table, self.depth = table, depth

    def generic_visit(self, n):
        if isinstance(n, (ast.Attribute, ast.Name, ast.Subscript)) and isinstance(getattr(n, 'ctx', None), ast.Load):
            v = self.table.get(norm(n))
            if v is not None and self.depth < 6:
                import copy
                return _Subst(self.table, self.depth + 1).visit(copy.deepcopy(v))
        return super().generic_visit(n)

    def visit(self, n):
        return self.generic_visit(n)


def _subst(e, table):
    import copy
    return _Subst(table).visit(copy.deepcopy(e)) if table else e


def _start_state(ctx, prog, fi):
    """Where a trajectory gets its first point: the builder method that stores the aircraft mass and the trip fuel of a
    point it has just made (`pt = <trajectory>.make_point()`; `pt.aircraft_mass = M`; `pt.fuel_mass = F`).  Returns
    (function, name of the trajectory there, M, F) with the function's single-definition locals substituted."""
    from ..conform import _inline_env
    found = []
    seen = set()
    for b in prog.subclasses_of('Builder'):
        for k in b.mro():
            for meth in k.methods.values():
                if id(meth.node) in seen:
                    continue
                seen.add(id(meth.node))
                vals = {START_MASS_FIELD: [], START_FUEL_FIELD: []}
                for st in walk_no_nested(meth.node):
                    if not isinstance(st, ast.Assign):
                        continue
                    pairs = []
                    for t in st.targets:
                        if isinstance(t, (ast.Tuple, ast.List)) and isinstance(st.value, (ast.Tuple, ast.List)) \
                                and len(t.elts) == len(st.value.elts):
                            pairs += list(zip(t.elts, st.value.elts))
                        else:
                            pairs.append((t, st.value))
                    for t, v in pairs:
                        if isinstance(t, ast.Attribute) and t.attr in vals and isinstance(t.value, ast.Name):
                            d = single_def_value(meth.node, t.value.id)
                            if isinstance(d, ast.Call) and isinstance(d.func, ast.Attribute) and d.func.attr == 'make_point' \
                                    and isinstance(d.func.value, ast.Name) and not d.args and not d.keywords:
                                vals[t.attr].append((d.func.value.id, v))
                if vals[START_MASS_FIELD] or vals[START_FUEL_FIELD]:
                    found.append((meth, vals))
    if len(found) != 1 or any(len(v) != 1 for v in found[0][1].values()):
        ctx.undecided('C17-R3', fi, 'start point of the trajectory',
                      f'{len(found)} builder methods store the aircraft mass / trip fuel of a newly made point '
                      f'({", ".join(f.qualname for f, _ in found)}): which state a trajectory starts from is not decided')
    sp, vals = found[0]
    (t1, M), (t2, F) = vals[START_MASS_FIELD][0], vals[START_FUEL_FIELD][0]
    if t1 != t2:
        ctx.undecided('C17-R3', sp, 'start point of the trajectory', 'mass and fuel are stored on points of two trajectories')
    env = {k: v for k, v in _inline_env(sp.node).items()}
    return sp, t1, _subst(M, env), _subst(F, env)


def _before_the_flight(fi, traj_local):
    """What `_fly_iteration` establishes before it flies the phases: the leading plain assignments of its body.
    {normalised target text: value} for the attribute stores among them (`traj.starting_mass = ...`,
    `self.current_mass = ...`) - a later read of such an attribute, by the start point or the residual, is a read of that
    value, provided nothing else in the function stores it."""
    table = {}
    body = list(fi.node.body)
    for st in body:
        if isinstance(st, ast.Expr) and isinstance(st.value, ast.Constant):
            continue
        if isinstance(st, ast.Assert):
            continue
        if not (isinstance(st, ast.Assign) and len(st.targets) == 1):
            break
        t = st.targets[0]
        if isinstance(t, ast.Attribute) and isinstance(t.value, ast.Name) and t.value.id in ('self', traj_local):
            table[norm(t)] = st.value
    counts = {}
    for t, st, how in stores_to(fi.node):
        counts[norm(t)] = counts.get(norm(t), 0) + 1
    return {k: v for k, v in table.items() if counts.get(k, 0) == 1}


def _rename_atoms(r, mapping):
    from ..algebra import Rat, _p_atom
    def poly(p_):
        out = Rat({})
        for mono, c in p_.items():
            term = Rat({(): c})
            for a, e in mono:
                base = Rat(_p_atom(mapping.get(a, a)))
                for _ in range(e):
                    term = term * base
            out = out + term
        return out
    return poly(r.num) / poly(r.den)


def rule_residual_definition(ctx, prog, it, fi, comp):
    """The residual `_fly_iteration` returns is (F - (M - last aircraft mass)) / F as an exact rational function, M and
    F being the aircraft mass and the trip fuel the trajectory *of this iteration* starts with - what the start point
    of the trajectory is given, read in `_fly_iteration`'s own terms.  A residual computed from another quantity is
    the leftover of another flight: when that quantity is not carried from iteration to iteration while the start
    state is (or the reverse), the two differ from the second iteration on and the convergence test passes or fails
    for a trajectory other than the one returned."""
    from ..algebra import AlgebraError, normal_form, poly_equal
    from ..conform import _inline_env, compare
    traj_local = comp['traj_local']
    sp, sp_traj, M, F = _start_state(ctx, prog, fi)
    pre = _before_the_flight(fi, traj_local)
    # the start state in _fly_iteration's terms: attributes of the trajectory are what _fly_iteration stored in them
    # before the flight; attributes of the builder (the per-flight context) are the same object in both methods
    if sp.node is not fi.node:
        if sp_traj not in _params(sp.node):
            ctx.undecided('C17-R3', sp, 'start point of the trajectory', f'`{sp_traj}` is not the trajectory handed in')
        to_fi = {}
        for e in (M, F):
            for x in ast.walk(e):
                if isinstance(x, ast.Attribute) and isinstance(x.value, ast.Name) and x.value.id == sp_traj:
                    key = f'{traj_local}.{x.attr}'
                    if key not in pre:
                        ctx.undecided('C17-R3', sp, norm(e), f'the start point reads `{norm(x)}`, which '
                                      f'{fi.name} does not set before the flight')
                    to_fi[norm(x)] = pre[key]
        M, F = _subst(M, to_fi), _subst(F, to_fi)
        # what is left must mean the same in both methods: the builder (`self`) and module-level names
        own_names = (_params(sp.node) | assigned_names_in(sp.node)) - {'self'}
        for e in (M, F):
            local_only = {x.id for x in ast.walk(e) if isinstance(x, ast.Name)} & own_names
            # names brought in by the substitution are _fly_iteration's own
            local_only -= {x.id for v in to_fi.values() for x in ast.walk(v) if isinstance(x, ast.Name)}
            if local_only:
                ctx.undecided('C17-R3', sp, norm(e), f'the start state depends on {sorted(local_only)} of {sp.name}')
    env = dict(_inline_env(fi.node))
    env.update(_unpacked_parameters(fi.node))
    # a parameter that is a tuple-like record (NamedTuple): `p.field` is `p[i]`, however it is read
    canon, pretty = _record_parameters(prog, fi)
    M, F, res = (canon(_subst(e, pre)) for e in (M, F, comp['res_value']))
    env = {k: canon(_subst(v, pre)) for k, v in env.items()}
    env[traj_local] = ast.Name('TRAJ', ast.Load())
    last = ast.parse(f'TRAJ.{START_MASS_FIELD}[-1]', mode='eval').body
    want_e = ast.BinOp(ast.BinOp(F, ast.Sub(), ast.BinOp(M, ast.Sub(), last)), ast.Div(), F)
    try:
        got = normal_form(res, env, {})
        want = normal_form(ast.fix_missing_locations(want_e), env, {})
        verdict, why = compare(got, want)
    except AlgebraError as e:
        verdict, why = 'undecided', str(e)
    if verdict == 'undecided':
        ctx.undecided('C17-R3', fi, norm(comp['res_value'])[:60], f'residual definition: {why}')
    Mt, Ft = pretty(norm(M)), pretty(norm(F))
    what = 'residual = (trip fuel − fuel burned) / trip fuel'
    if verdict == 'equal':
        ctx.ob('C17-R3', fi, what, True, f'leftover trip fuel relative to the trip fuel loaded, for the start state of this '
               f'iteration\'s trajectory (aircraft mass `{Mt}`, trip fuel `{Ft}` at {sp.name})', nontrivial=False)
        return
    # different: a changed formula, or the right formula over a quantity that is not this iteration's
    exc, exr = sorted(got.atoms() - want.atoms()), sorted(want.atoms() - got.atoms())
    if not exc and not exr:
        ctx.ob('C17-R3', fi, what, False, f'residual definition changed: {why}', nontrivial=False)
        return
    carried = _carried_between_iterations(prog, it, fi)
    import itertools
    fix = None
    src, dst, other = (exc, sorted(want.atoms()), want) if exc else (exr, sorted(got.atoms()), got)
    mine = got if exc else want
    for combo in itertools.product(dst, repeat=len(src)) if len(src) <= 3 else ():
        try:
            if poly_equal(_rename_atoms(mine, dict(zip(src, combo))), other):
                fix = dict(zip(src, combo))
                break
        except AlgebraError:
            continue
    if fix is None:
        # no identification of the foreign quantities with those of the start state makes the formula right
        stale = [a for a in src if carried(a) is False]
        if stale and all(carried(b) for b in dst if carried(b) is not None):
            fix = {a: None for a in stale}
        else:
            ctx.ob('C17-R3', fi, what, False, f'residual definition changed: {why}', nontrivial=False)
            return
    pairs = [(a, b) for a, b in fix.items() if b is None or (carried(a) is not None and carried(b) is not None
                                                           and carried(a) != carried(b))]
    if not pairs:
        mine_txt, other_txt = (", ".join(f"`{pretty(a)}`" for a in fix), ", ".join(f"`{pretty(b)}`" for b in fix.values()))
        code_txt, start_txt = (mine_txt, other_txt) if exc else (other_txt, mine_txt)
        ctx.undecided('C17-R3', fi, norm(comp['res_value'])[:60],
                      f'the residual is computed from {code_txt} where the start state of the trajectory is {start_txt}; '
                      'whether the two are kept equal from iteration to iteration is not decided')
    role = {Mt: 'the aircraft mass', Ft: 'the trip fuel'}
    parts = []
    for a, b in pairs:
        fixed, moving = (a, b) if carried(a) is False else (b, a)
        fixed, moving = pretty(fixed), pretty(moving)
        code_atom, start_atom = (pretty(a), pretty(b)) if exc else (pretty(b), pretty(a))
        about = f'`{start_atom}`' + (f', {role[start_atom]}' if start_atom in role else '') if start_atom else \
            f'aircraft mass `{Mt}` and trip fuel `{Ft}`'
        parts.append(f'the residual is computed with `{code_atom}` where the trajectory of this iteration starts with {about} '
                     f'(stored by {sp.name} as the first point\'s {START_MASS_FIELD} / {START_FUEL_FIELD}); '
                     f'`{fixed}` is not updated between the iterations of {it.name}'
                     + (f' while `{moving}` is corrected after every iteration' if moving else ''))
    ctx.ob('C17-R3', fi, what, False,
           '; '.join(parts) + ': from the second iteration on the residual that is tested is not the leftover trip fuel '
           'fraction of the trajectory that was flown, so a trajectory outside the requested tolerance can be returned as '
           'converged (or a converged one rejected)', nontrivial=False,
           line=getattr(comp['res_value'], 'lineno', fi.node.lineno))


def _unpacked_parameters(fn):
    """`a, b = p` with p a parameter that is never rebound and a, b bound nowhere else: a is p[0], b is p[1]"""
    out = {}
    params = _params(fn)
    stored = [x.id for x in walk_no_nested(fn) if isinstance(x, ast.Name) and isinstance(x.ctx, (ast.Store, ast.Del))]
    for st in walk_no_nested(fn):
        if isinstance(st, ast.Assign) and len(st.targets) == 1 and isinstance(st.targets[0], (ast.Tuple, ast.List)) \
                and isinstance(st.value, ast.Name) and st.value.id in params and st.value.id not in stored \
                and all(isinstance(e, ast.Name) and stored.count(e.id) == 1 for e in st.targets[0].elts):
            for i, e in enumerate(st.targets[0].elts):
                out[e.id] = ast.Subscript(ast.Name(st.value.id, ast.Load()), ast.Constant(i), ast.Load())
    return out


def _record_parameters(prog, fi):
    """(canon, pretty) for the parameters of `fi` annotated with a tuple-like record class of the program (NamedTuple):
    canon(expr) reads every `p.field` as `p[i]`; pretty(text) writes `p[i]` as `p.field` again for a report"""
    fields = {}
    a = fi.node.args
    for prm in a.posonlyargs + a.args + a.kwonlyargs:
        if prm.annotation is None:
            continue
        try:
            cls = prog.resolve_class_expr(fi.module, prm.annotation)
        except Exception:
            cls = None
        if cls is None or not any('NamedTuple' in b for c in cls.mro() for b in c.base_exprs):
            continue
        fields[prm.arg] = [f for c in reversed(cls.mro()) for f in c.annotated_fields()]

    class T(ast.NodeTransformer):
        def visit_Attribute(self, n):
            if isinstance(n.value, ast.Name) and n.value.id in fields and n.attr in fields[n.value.id] \
                    and isinstance(n.ctx, ast.Load):
                return ast.copy_location(ast.Subscript(ast.Name(n.value.id, ast.Load()),
                                                       ast.Constant(fields[n.value.id].index(n.attr)), ast.Load()), n)
            return self.generic_visit(n)

    def canon(e):
        import copy
        return ast.fix_missing_locations(T().visit(copy.deepcopy(e))) if fields else e

    def pretty(txt):
        if txt is None:
            return txt
        for prm, fs in fields.items():
            for i, f in enumerate(fs):
                txt = txt.replace(f'{prm}[{i}]', f'{prm}.{f}')
        return txt
    return canon, pretty


def assigned_names_in(fn):
    return {x.id for x in walk_no_nested(fn) if isinstance(x, ast.Name) and isinstance(x.ctx, ast.Store)}


def _carried_between_iterations(prog, it, fi):
    """carried(atom) -> True when the quantity is given a new value between two iterations of `_iterate_mass` (an
    attribute of the builder / context that `_iterate_mass` or anything it calls stores; a parameter of
    `_fly_iteration` whose argument at a call in `_iterate_mass` is built from a local that is rebound there; data of
    the iteration's trajectory), False when nothing does, None for anything else."""
    fparams = [p for p in _params_in_order(fi.node) if p != 'self']
    stored = set()
    for f in closure(prog, [it]):
        if f.cls is None:
            continue
        for t, st, how in stores_to(f.node):
            b = t
            while isinstance(b, ast.Subscript):
                b = b.value
            if isinstance(b, ast.Attribute) and norm(b.value) == 'self':
                stored.add(b.attr)
    rebound = set()
    for x in walk_no_nested(it.node):
        if isinstance(x, ast.Name) and isinstance(x.ctx, ast.Store):
            in_loop = any(isinstance(a, (ast.For, ast.While)) for a in ancestors(x))
            if in_loop or len(local_defs(it.node, x.id)) > 1:
                rebound.add(x.id)
    moving_params = set()
    for c in calls_in(it.node):
        if not (isinstance(c.func, ast.Attribute) and c.func.attr == fi.name):
            continue
        bound = dict(zip(fparams, c.args))
        bound.update({k.arg: k.value for k in c.keywords if k.arg})
        for p, v in bound.items():
            for x in ast.walk(v):
                if isinstance(x, ast.Name) and x.id in rebound:
                    moving_params.add(p)
                if isinstance(x, ast.Attribute) and norm(x.value) == 'self' and x.attr in stored:
                    moving_params.add(p)

    def carried(atom):
        if atom is None:
            return None
        try:
            e = ast.parse(atom, mode='eval').body
        except SyntaxError:
            return None
        chain = []
        root = e
        while isinstance(root, (ast.Attribute, ast.Subscript)):
            chain.append(root.attr if isinstance(root, ast.Attribute) else None)
            root = root.value
        if not isinstance(root, ast.Name):
            return None
        if root.id == 'TRAJ':
            return True
        if root.id == 'self':
            first = chain[-1] if chain else None
            return (first in stored) if first else None
        if root.id in fparams:
            return root.id in moving_params
        return None
    return carried


def _params_in_order(fn):
    a = fn.args
    return [x.arg for x in a.posonlyargs + a.args + a.kwonlyargs]


def _iteration_components(ctx, prog, fi):
    """What `_fly_iteration` returns: a 2-tuple or a record built from (trajectory, residual).  Returns the positions
    and field names of the two components, the local holding the trajectory and the residual expression."""
    rets = [r for r in walk_no_nested(fi.node) if isinstance(r, ast.Return) and r.value is not None]
    if len(rets) != 1:
        ctx.undecided('C17-R3', fi, 'return', f'{len(rets)} return statements in _fly_iteration')
    v = rets[0].value
    fields, tuple_like = None, True
    if isinstance(v, ast.Tuple):
        vals = list(v.elts)
    elif isinstance(v, ast.Call) and not any(isinstance(a, ast.Starred) for a in v.args) \
            and all(k.arg for k in v.keywords):
        cls = prog.resolve_class_expr(fi.module, v.func)
        if cls is None:
            ctx.undecided('C17-R3', fi, norm(v)[:60], 'the returned record class cannot be resolved')
        fields = [f for c in reversed(cls.mro()) for f in c.annotated_fields()]
        tuple_like = any('NamedTuple' in b or 'tuple' in b for c in cls.mro() for b in c.base_exprs)
        byname = {k.arg: k.value for k in v.keywords}
        vals = list(v.args) + [byname.get(f) for f in fields[len(v.args):]]
        if len(vals) != len(fields) or any(x is None for x in vals):
            ctx.undecided('C17-R3', fi, norm(v)[:60], 'the returned record is not built from all of its fields')
    else:
        ctx.undecided('C17-R3', fi, norm(v)[:60], '_fly_iteration does not return a (trajectory, residual) pair')
    if len(vals) != 2:
        ctx.undecided('C17-R3', fi, norm(v)[:60], f'_fly_iteration returns {len(vals)} components')

    def is_trajectory(e):
        if not isinstance(e, ast.Name):
            return False
        for d in local_defs(fi.node, e.id):
            val = getattr(d, 'value', None)
            if isinstance(val, ast.Call):
                c = prog.resolve_class_expr(fi.module, val.func)
                if (c is not None and c.name == 'Trajectory') or call_name(val).split('.')[-1] == 'Trajectory':
                    return True
        return False

    tis = [i for i, e in enumerate(vals) if is_trajectory(e)]
    if len(tis) != 1:
        ctx.undecided('C17-R3', fi, norm(v)[:60], 'cannot tell which returned component is the trajectory')
    ti = tis[0]
    ri = 1 - ti
    return {'n': 2, 'traj_index': ti, 'res_index': ri, 'tuple_like': tuple_like,
            'traj_names': {fields[ti]} if fields else set(), 'res_names': {fields[ri]} if fields else set(),
            'traj_local': vals[ti].id, 'res_value': vals[ri]}


def _type_names(h):
    if h.type is None:
        return ['<bare>']
    return [norm(x) for x in (h.type.elts if isinstance(h.type, ast.Tuple) else [h.type])]


def _handler_obligations(ctx, where, fw, rule='C17-R4', lookup_call=None):
    """R4 for one function: returns the number of handlers / finally blocks examined"""
    n = 0
    for h, t, nested in fw.handlers():
        n += 1
        what = f'except {", ".join(_type_names(h)) if h.type else ""}'.strip()
        where0 = where
        where, hline, note = _origin(where0, h) if hasattr(where0, 'qualname') else (where0, h.lineno, '')
        what += note
        if fw.body_can_only_fail_locally(t, h, lookup_call):
            ctx.ob(rule, where, f'{what} re-raises unchanged', True,
                   'the protected block only looks things up (no call beyond the attribute protocol, no raise of anything '
                   'else) and only look-up errors are caught: nothing of the flight can be intercepted here',
                   line=hline, nontrivial=False)
            continue
        bad = []
        if fw.swallows(h):
            bad.append('a path through the handler continues normally: a rejection reason can be swallowed here')
        for r in fw.raises_of(h):
            if r.exc is None:
                if nested:
                    bad.append(f'the bare `raise` at line {r.lineno} sits in a handler nested inside another handler / '
                               'finally block: it re-raises the secondary error, not the rejection')
            elif not (isinstance(r.exc, ast.Name) and r.exc.id == h.name and r.cause is None):
                bad.append(f'`{norm(r)[:60]}` replaces the caught exception: a rejection reason can be rewrapped here')
        for node, txt, kind in fw.bad_reads_in(h):
            if kind == 'ctx':
                bad.append(f'evaluating `{node.text()[:60]}` reads {txt}, which is forwarded to the per-flight context; '
                           'on the path on which the context constructor rejected the mission there is no context, so '
                           'the handler itself raises AttributeError before it re-raises and the rejection reason is '
                           'replaced by an unrelated internal error')
            else:
                bad.append(f'evaluating `{node.text()[:60]}` reads local `{txt}`, which is not bound on every path into '
                           'the handler: the handler itself raises UnboundLocalError before it re-raises')
        ctx.ob(rule, where, f'{what} re-raises unchanged', not bad,
               'every path through the handler ends in re-raising the caught exception, and the handler reads only '
               'state that exists on every path into it' if not bad else '; '.join(dict.fromkeys(bad)), line=hline)
        where = where0
    for t in walk_no_nested(fw.fn):
        if isinstance(t, ast.Try) and t.finalbody:
            n += 1
            where1, fline, note = _origin(where, t.finalbody[0]) if hasattr(where, 'qualname') else \
                (where, t.finalbody[0].lineno, '')
            bad = [f'`{norm(x)}` at line {x.lineno} inside `finally` discards the exception in flight'
                   for x in fw.finally_escapes(t)]
            for node, txt, kind in fw.bad_reads_in(('finally', t)):
                if 'exc' not in node.fin:
                    continue
                bad.append(f'`{node.text()[:60]}` reads {txt}, which does not exist on every exceptional path into the '
                           'finally block: the clean-up raises and replaces the rejection reason')
            ctx.ob(rule, where1, f'finally block of the try at line {t.lineno} lets the exception through{note}', not bad,
                   'no return/break/continue, and it reads only state that exists on every path into it'
                   if not bad else '; '.join(dict.fromkeys(bad)), line=fline)
    return n


_CONTROL_SRC = '''
def fly(self, mission):
    try:
        self.ctx = self.CONTEXT_CLASS(mission)
        traj = self.run()
        return traj
    except Exception as exc:
        exc.add_note(f'{self.mission.label}: {traj}')
        raise
    finally:
        if 'ctx' in self.__dict__:
            del self.ctx
'''


def rule_handlers(ctx, m, fly_fw=None):
    prog = ctx.prog
    own = _builder_own_attrs(prog)
    builders = [c for c in prog.subclasses_of('Builder')]
    n = 0
    for b in builders:
        for meth in b.methods.values():
            if fly_fw is not None and getattr(fly_fw, 'of', fly_fw.fn) is meth.node:
                node = fly_fw.fn
            else:
                node, _ = as_run(prog, meth)   # handlers of a context manager the method runs under act here
            if not any(isinstance(x, ast.Try) for x in walk_no_nested(node)):
                continue
            manages = any(isinstance(x, ast.stmt) and (_is_acquire(x) or _is_release(x)) for x in walk_no_nested(node))
            fw = fly_fw if (fly_fw is not None and fly_fw.fn is node) else \
                FlightWrapper(node, own, assume_acquired=not manages)
            n += _handler_obligations(ctx, meth, fw, lookup_call=lookup_call_in(prog, meth, 0, (meth,)))
    ctx.ob('C17-R4', (m.relpath, 'Builder'), f'{n} exception handlers / finally blocks on builder methods', True,
           'each examined on the CFG' if n else 'none: rejections propagate unchanged', nontrivial=False)
    # positive control: a handler that annotates the exception from context-backed state and an unbound local
    tree = ast.parse(_CONTROL_SRC)
    for a in ast.walk(tree):
        for ch in ast.iter_child_nodes(a):
            if not isinstance(ch, (ast.expr_context, ast.operator, ast.unaryop, ast.cmpop, ast.boolop)):
                ch._parent = a
    cf = tree.body[0]
    cfw = FlightWrapper(cf, {'CONTEXT_CLASS', 'run'})
    h = cf.body[0].handlers[0]
    kinds = {(txt, kind) for node, txt, kind in cfw.bad_reads_in(h)}
    ctx.control('C17-R4', kinds == {('self.mission', 'ctx'), ('traj', 'local')} and not cfw.swallows(h),
                'embedded handler reading self.mission / an unbound local before `raise` is recognised')


def rule_ctx_init(ctx, m):
    """R5: a context constructor may read the fields its base-class constructor
    initialises only after calling it; otherwise building the rejection message
    itself raises AttributeError and masks the reason."""
    prog = ctx.prog
    base = m.cls('Context')
    base_fields = set(base.annotated_fields())
    n = 0
    for c in prog.subclasses_of('Context'):
        ini = c.methods.get('__init__')
        if c is base or ini is None:
            continue
        g = CFG(ini.node)
        dom = g.dominators(edge_ok=lambda a, b, lab: lab != 'e')
        sup = [x for x in g.nodes if x.stmt is not None and x.kind == 'stmt' and any(
            isinstance(cc.func, ast.Attribute) and cc.func.attr == '__init__' and isinstance(cc.func.value, ast.Call)
            and call_name(cc.func.value) == 'super' for cc in calls_in(x.stmt))]
        own = {t.attr for t, st, how in stores_to(ini.node) if isinstance(t, ast.Attribute) and norm(t.value) == 'self'}
        for x in g.nodes:
            if x.stmt is None:
                continue
            exprs = [x.stmt] if x.kind == 'stmt' else [getattr(x.stmt, 'test', None)]
            for e in exprs:
                if e is None:
                    continue
                for a in ast.walk(e):
                    if isinstance(a, ast.Attribute) and isinstance(a.ctx, ast.Load) and norm(a.value) == 'self' \
                            and a.attr in base_fields and a.attr not in own:
                        n += 1
                        ok = bool(sup) and sup[0].id in dom[x.id]
                        ctx.ob('C17-R5', ini, f'read of self.{a.attr} at `{x.text()[:50]}`', ok,
                               'after super().__init__()' if ok else
                               (f'self.{a.attr} is set by the base Context constructor, which has not run yet at this point '
                                '(it is only reached on a rejection path): building the error raises AttributeError and '
                                'hides the real reason'), line=a.lineno)
    ctx.ob('C17-R5', (m.relpath, 'Context'), f'{n} reads of base-initialised fields in context constructors', True,
           'each checked against the position of super().__init__()', nontrivial=False)


# ----------------------------------------------------------------------------------------------------
# R7: a rejecting loop over paired sequences makes every check it is written to make
# ----------------------------------------------------------------------------------------------------

def _static_sequence(prog, fi, e, depth=0):
    """The display that fixes the elements of the sequence expression `e` in function `fi` - a literal tuple / list,
    a local bound once to one, `tuple(..)` / `list(..)` of one, a class constant read as `self.N` / `cls.N` /
    `Class.N` that no method stores to, a module constant - or None when the program text does not fix it.
    Returns (display node, description of where it is written)."""
    if depth > 6 or e is None:
        return None
    if isinstance(e, (ast.Tuple, ast.List)):
        return None if any(isinstance(x, ast.Starred) for x in e.elts) else (e, 'the display')
    if isinstance(e, ast.Call) and call_name(e) in ('tuple', 'list', 'reversed', 'sorted') and len(e.args) == 1 \
            and not any(k.arg is None for k in e.keywords):
        return _static_sequence(prog, fi, e.args[0], depth + 1)
    if isinstance(e, ast.Name):
        if e.id in _params(fi.node):
            return None
        ds = local_defs(fi.node, e.id)
        if ds:
            v = single_def_value(fi.node, e.id)
            return _static_sequence(prog, fi, v, depth + 1) if v is not None else None
        if any(isinstance(x, ast.Name) and x.id == e.id and isinstance(x.ctx, (ast.Store, ast.Del))
               for x in ast.walk(fi.node)) or any(isinstance(x, (ast.Global, ast.Nonlocal)) for x in ast.walk(fi.node)):
            return None
        r = prog.resolve_name(fi.module, e.id)
        if isinstance(r, tuple) and r and r[0] == 'const':
            v = r[1].constants.get(r[2])
            if isinstance(v, (ast.Tuple, ast.List)) and not any(isinstance(x, ast.Starred) for x in v.elts):
                return v, f'the module constant {r[2]}'
        return None
    if isinstance(e, ast.Attribute) and isinstance(e.value, ast.Name) and fi.cls is not None:
        recv = e.value.id
        first = fi.node.args.args[0].arg if fi.node.args.args else None
        cls = None
        if recv == first and 'staticmethod' not in fi.decorators():
            cls = fi.cls
        else:
            try:
                cls = prog.resolve_class_expr(fi.module, e.value)
            except Exception:
                cls = None
        if cls is None:
            return None
        family = {id(k): k for c in [cls, *prog.subclasses_of(cls.name)] for k in c.mro()}.values()
        for k in family:
            for meth in k.methods.values():
                for t, st, how in stores_to(meth.node):
                    if isinstance(t, ast.Attribute) and t.attr == e.attr:
                        return None   # an instance may carry its own value
        for k in cls.mro():
            v = k.class_assignments().get(e.attr)
            if v is not None:
                if any(s.class_assignments().get(e.attr) is not None for s in prog.subclasses_of(cls.name)
                       if s is not k and k in s.mro() and s not in cls.mro()):
                    return None   # a subclass overrides the constant
                if isinstance(v, (ast.Tuple, ast.List)) and not any(isinstance(x, ast.Starred) for x in v.elts):
                    return v, f'the class constant {k.name}.{e.attr}'
                return None
    return None


def _joined_literals(prog, file, el):
    """a string element written as several adjacent literals (which Python joins into ONE string): (first line, last
    line) or None"""
    if not (isinstance(el, ast.Constant) and isinstance(el.value, str)):
        return None
    lo, hi = getattr(el, 'lineno', 0), getattr(el, 'end_lineno', 0) or 0
    if not (isinstance(lo, int) and isinstance(hi, int) and hi > lo):
        return None
    m = prog.modules.get(file)
    src = getattr(m, 'source', None)
    if not src:
        return None
    seg = ast.get_source_segment(src, el)
    if seg is None:
        return None
    import io
    import tokenize
    try:
        n = sum(1 for t in tokenize.generate_tokens(io.StringIO('(' + seg + ')').readline) if t.type == tokenize.STRING)
    except Exception:
        return None
    return (lo, hi) if n > 1 else None


def _rejecting_zips(fn):
    """[(zip call, loop)] `for .. in zip(..)` loops of fn whose body can reject (contains a raise)"""
    out = []
    for x in walk_no_nested(fn):
        if isinstance(x, ast.For) and isinstance(x.iter, ast.Call) and call_name(x.iter) == 'zip' \
                and any(isinstance(y, ast.Raise) for s in x.body for y in walk_no_nested(s)):
            out.append((x.iter, x))
    return out


def _zip_verdict(prog, fi, z):
    """(ok, text) for one zip call feeding a rejecting loop, or None when the lengths are not fixed by the text"""
    if any(isinstance(a, ast.Starred) for a in z.args) or len(z.args) < 2:
        return None
    strict = next((k.value for k in z.keywords if k.arg == 'strict'), None)
    seqs = [_static_sequence(prog, fi, a) for a in z.args]
    if any(s is None for s in seqs):
        return None
    lens = [len(d.elts) for d, _ in seqs]
    if len(set(lens)) == 1:
        return True, f'{len(lens)} sequences of {lens[0]} elements each: every pair is checked'
    n = min(lens)
    short = [(a, d, w) for a, (d, w), k in zip(z.args, seqs, lens) if k == n]
    a, d, w = short[0]
    parts = [f'`{norm(x)[:40]}` has {k}' for x, k in zip(z.args, lens)]
    why = f'zip() stops at its shortest operand: {", ".join(parts)} element(s), so only {n} of the {max(lens)} checks ' \
          f'this loop is written to make are ever made'
    file = fi.file
    for el in d.elts:
        j = _joined_literals(prog, file, el)
        if j:
            why += (f'; {w} holds ONE string written as adjacent literals on lines {j[0]}-{j[1]} (a comma between two '
                    'messages is missing, so Python joins them)')
            break
    dropped = []
    for arg, (dd, _), k in zip(z.args, seqs, lens):
        if k > n and all(not isinstance(x, ast.Constant) for x in dd.elts[n:]):
            dropped.append(', '.join(norm(x) for x in dd.elts[n:]))
    if dropped:
        why += f'; never examined: {" against ".join(dropped)}'
    why += (': a mission that only the dropped check(s) would reject is accepted here and fails later, if at all, '
            'for an unrelated reason')
    if isinstance(strict, ast.Constant) and strict.value is True:
        why += ' (with strict=True the loop itself raises an unrelated ValueError instead)'
    return False, why


_ZIP_CONTROL = '''
class K:
    MSG = ("a" "b", )

    def __init__(self, lo, hi):
        for x, y, m in zip((lo, hi), (hi, lo), self.MSG):
            if x > y:
                raise ValueError(m)
'''


def rule_paired_checks(ctx, m):
    """R7: see the module docstring"""
    prog = ctx.prog
    roots = []
    for c in prog.subclasses_of('Context'):
        roots += [meth for meth in c.methods.values()]
    for c in prog.subclasses_of('Builder'):
        roots += [meth for meth in c.methods.values()]
    try:
        fns = closure(prog, roots)
    except Exception:
        fns = roots
    seen, n = set(), 0
    for f in list(roots) + list(fns):
        if id(f.node) in seen:
            continue
        seen.add(id(f.node))
        for z, loop in _rejecting_zips(f.node):
            v = _zip_verdict(prog, f, z)
            if v is None:
                continue
            n += 1
            ctx.ob('C17-R7', f, f'rejecting loop over `{norm(z)[:90]}` makes every check', v[0], v[1], line=loop.lineno)
    ctx.ob('C17-R7', (m.relpath, 'Context'), f'{n} rejecting loops over paired sequences of fixed length', True,
           'each examined: operand lengths compared', nontrivial=False)
    # positive control
    from types import SimpleNamespace
    tree = set_parents(ast.parse(_ZIP_CONTROL))
    kn = tree.body[0]
    ini = kn.body[1]
    kc = SimpleNamespace(name='K', node=kn, methods={}, mro=lambda: [kc],
                         class_assignments=lambda: {'MSG': kn.body[0].value})
    fake_prog = SimpleNamespace(subclasses_of=lambda nm: [], modules={}, resolve_name=lambda mod, nm: None,
                                resolve_class_expr=lambda mod, e: None)
    fk = SimpleNamespace(node=ini, cls=kc, module=None, file='<control>', decorators=lambda: [])
    zs = _rejecting_zips(ini)
    got = _zip_verdict(fake_prog, fk, zs[0][0]) if zs else None
    ctx.control('C17-R7', got is not None and got[0] is False,
                'embedded rejecting loop over zip((2 elements), (2 elements), <class constant of 1 element>) is recognised')


def run(ctx):
    rule_ctx_init(ctx, ctx.prog.module(BASE))
    rule_paired_checks(ctx, ctx.prog.module(BASE))
    m = ctx.prog.module(BASE)
    fw = rule_pairing(ctx, m)
    rule_persistent(ctx, m)
    rule_convergence(ctx, m)
    rule_handlers(ctx, m, fw)
    # R6: an out-of-envelope state is rejected by the performance model itself (the no-extrapolation rule of C06)
    from .c06 import rule_no_extrapolation
    sub = type(ctx)(ctx.prop, ctx.prog, ctx.tier)
    rule_no_extrapolation(sub)
    for o in sub.obligations:
        o.rule = 'C17-R6'
        ctx.obligations.append(o)
    ctx.controls += sub.controls
    ctx.assumptions += ['bit-identity of numerics is not decided; only absence of carried state',
                        'the performance model and mission objects passed to fly() are not mutated by third parties']
